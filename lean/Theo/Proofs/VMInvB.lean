/-
  Helper lemmas and invariants for C05, C06 (transparency and stop positions).
-/
import Theo.Spec.VMSpec

namespace Theo
namespace InvB

/-! ### `step` as fetch + execute -/

/-- the body of `step` after the fetch -/
def execI (i : Instr) (vm : VM) : Except Fault (VM × Bool) :=
  match i with
  | .potBreak => pure ({ vm with ip := vm.ip + 1 }, vm.stepping)
  | .brk => pure ({ vm with ip := vm.ip + 1 }, true)
  | .halt => pure (vm, true)
  | .add t s c =>
    match vm.stack with
    | [] => .error .stackUnderflow
    | a :: _ => do
      let v ← rd vm.data (a.dataStart + s)
      let d ← wr vm.data (a.dataStart + t) (addClamp v c)
      pure ({ vm with data := d, ip := vm.ip + 1 }, false)
  | .test t x y =>
    match vm.stack with
    | [] => .error .stackUnderflow
    | a :: _ => do
      let v1 ← rd vm.data (a.dataStart + x)
      let v2 ← rd vm.data (a.dataStart + y)
      let d ← wr vm.data (a.dataStart + t) (if v1 = v2 then 0 else 1)
      pure ({ vm with data := d, ip := vm.ip + 1 }, false)
  | .const t c =>
    match vm.stack with
    | [] => .error .stackUnderflow
    | a :: _ => do
      let d ← wr vm.data (a.dataStart + t) c
      pure ({ vm with data := d, ip := vm.ip + 1 }, false)
  | .jmp off => pure ({ vm with ip := vm.ip + off }, false)
  | .jmpc off s =>
    match vm.stack with
    | [] => .error .stackUnderflow
    | a :: _ => do
      let v ← rd vm.data (a.dataStart + s)
      pure ({ vm with ip := if v = 0 then vm.ip + off else vm.ip + 1 }, false)
  | .prepare cnt idx tgt =>
    pure ({ vm with data := vm.data ++ List.replicate cnt.toNat 0,
                    stack := ⟨vm.data.length, cnt, tgt, -1, idx⟩ :: vm.stack,
                    ip := vm.ip + 1 }, false)
  | .arg t s =>
    match vm.stack with
    | a :: b :: _ => do
      let v ← rd vm.data (b.dataStart + s)
      let d ← wr vm.data (a.dataStart + t) v
      pure ({ vm with data := d, ip := vm.ip + 1 }, false)
    | _ => .error .stackUnderflow
  | .exec entry =>
    match vm.stack with
    | [] => .error .stackUnderflow
    | a :: rest =>
      pure ({ vm with stack := { a with retAddr := vm.ip + 1 } :: rest, ip := entry }, false)
  | .ret s =>
    match vm.stack with
    | a :: b :: rest => do
      let v ← rd vm.data (a.dataStart + s)
      let d ← wr vm.data (b.dataStart + a.retTarget) v
      pure ({ vm with data := d.take a.dataStart, stack := b :: rest, ip := a.retAddr }, false)
    | _ => .error .stackUnderflow

theorem step_eq (vm : VM) : step vm = (fetch vm.code vm.ip).bind (fun i => execI i vm) := by
  rfl

theorem step_ok {vm vm' : VM} {r : Bool} (h : step vm = .ok (vm', r)) :
    ∃ i, fetch vm.code vm.ip = .ok i ∧ execI i vm = .ok (vm', r) := by
  rw [step_eq] at h
  cases hf : fetch vm.code vm.ip with
  | error e => rw [hf] at h; cases h
  | ok i => rw [hf] at h; exact ⟨i, rfl, h⟩

/-- `step` changes neither the code nor the debugger state -/
theorem execI_frame {i : Instr} {vm vm' : VM} {r : Bool} (h : execI i vm = .ok (vm', r)) :
    vm'.code = vm.code ∧ vm'.enabled = vm.enabled ∧ vm'.stepping = vm.stepping := by
  cases i <;> simp only [execI, bind, Except.bind, pure, Except.pure] at h
  all_goals (repeat' split at h)
  all_goals (cases h; try exact ⟨rfl, rfl, rfl⟩)

theorem execI_flag {i : Instr} {vm vm' : VM} {r : Bool} (h : execI i vm = .ok (vm', r)) :
    r = true ↔ i = .halt ∨ i = .brk ∨ (i = .potBreak ∧ vm.stepping = true) := by
  cases i <;> simp only [execI, bind, Except.bind, pure, Except.pure] at h
  all_goals (repeat' split at h)
  all_goals (cases h; try simp)

/-! ### the computation does not see the break opcodes -/

/-- the machine on which `coreStep` runs -/
def blank (code : List Instr) (c : Core) : VM :=
  { stepping := false, ip := c.ip, code := code, data := c.data, stack := c.stack, enabled := [] }

theorem coreStep_eq (p : Program) (c : Core) :
    coreStep p c = (step (blank p.code c)).map (fun r => r.1.core) := rfl

theorem exc_map_bind {ε α β γ} (x : Except ε α) (f : α → Except ε β) (g : β → γ) :
    (x.bind f).map g = x.bind (fun a => (f a).map g) := by
  cases x <;> rfl

theorem exc_map_ok {ε α β} (a : α) (g : α → β) : (Except.ok a : Except ε α).map g = .ok (g a) := rfl

theorem exc_map_error {ε α β} (e : ε) (g : α → β) :
    (Except.error e : Except ε α).map g = .error e := rfl

theorem execI_core (i : Instr) (vm : VM) (code : List Instr) :
    (execI i.erase (blank code vm.core)).map (fun r => r.1.core) =
      (execI i vm).map (fun r => r.1.core) := by
  cases i <;> rcases hs : vm.stack with _ | ⟨a, _ | ⟨b, rest⟩⟩ <;>
    simp [execI, Instr.erase, blank, VM.core, hs, exc_map_bind, exc_map_ok, exc_map_error,
      bind, pure, Except.pure]

theorem fetch_map (f : Instr → Instr) (code : List Instr) (ip : Int) :
    fetch (code.map f) ip = (fetch code ip).map f := by
  unfold fetch
  split
  · rfl
  · rw [List.getElem?_map]
    cases code[ip.toNat]? <;> rfl

theorem fetch_ok {code : List Instr} {ip : Int} {i : Instr} (h : fetch code ip = .ok i) :
    0 ≤ ip ∧ code[ip.toNat]? = some i := by
  unfold fetch at h
  split at h
  · cases h
  · split at h
    · cases h; refine ⟨by omega, ?_⟩; assumption
    · cases h

theorem fetch_of_get {code : List Instr} {ip : Int} {i : Instr} (h0 : 0 ≤ ip)
    (h : code[ip.toNat]? = some i) : fetch code ip = .ok i := by
  unfold fetch
  rw [if_neg (by omega), h]

theorem erase_ne_brk (i : Instr) : i.erase ≠ .brk := by
  cases i <;> simp [Instr.erase]

theorem erase_eq_halt {i : Instr} : i.erase = .halt ↔ i = .halt := by
  cases i <;> simp [Instr.erase]

theorem erase_eq_potBreak {i : Instr} : i.erase = .potBreak ↔ i = .brk ∨ i = .potBreak := by
  cases i <;> simp [Instr.erase]

theorem erase_of_ne_brk {i : Instr} (h : i ≠ .brk) : i.erase = i := by
  cases i <;> simp [Instr.erase] at h ⊢

/-- the live code is the loaded code up to the break opcodes -/
def CodeInv (p : Program) (code : List Instr) : Prop := code.map Instr.erase = p.code

theorem CodeInv.init (p : Program) (hs : SitesOK p) : CodeInv p p.code := by
  unfold CodeInv
  have h : ∀ l : List Instr, Instr.brk ∉ l → l.map Instr.erase = l := by
    intro l
    induction l with
    | nil => intro _; rfl
    | cons x xs ih =>
      intro hx
      simp only [List.mem_cons, not_or] at hx
      rw [List.map_cons, ih hx.2, erase_of_ne_brk (Ne.symm hx.1)]
  exact h _ hs.2

theorem CodeInv.fetch_eq {p : Program} {code : List Instr} (hc : CodeInv p code) (ip : Int) :
    fetch p.code ip = (fetch code ip).map Instr.erase := by
  rw [← hc, fetch_map]

theorem CodeInv.get {p : Program} {code : List Instr} (hc : CodeInv p code) (k : Nat) :
    p.code[k]? = (code[k]?).map Instr.erase := by
  rw [← hc, List.getElem?_map]

theorem CodeInv.length {p : Program} {code : List Instr} (hc : CodeInv p code) :
    code.length = p.code.length := by
  rw [← hc, List.length_map]

/-- central lemma: a live step is a step of the uninterrupted computation -/
theorem step_core {p : Program} {vm vm' : VM} {r : Bool} (hc : CodeInv p vm.code)
    (h : step vm = .ok (vm', r)) : coreStep p vm.core = .ok vm'.core := by
  obtain ⟨i, hf, he⟩ := step_ok h
  rw [coreStep_eq, step_eq]
  have : fetch (blank p.code vm.core).code (blank p.code vm.core).ip = .ok i.erase := by
    show fetch p.code vm.ip = _
    rw [hc.fetch_eq, hf]; rfl
  rw [this]
  show (execI i.erase (blank p.code vm.core)).map _ = _
  rw [execI_core, he]; rfl

theorem step_frame {vm vm' : VM} {r : Bool} (h : step vm = .ok (vm', r)) :
    vm'.code = vm.code ∧ vm'.enabled = vm.enabled ∧ vm'.stepping = vm.stepping := by
  obtain ⟨i, _, he⟩ := step_ok h
  exact execI_frame he

/-! ### iterating the uninterrupted computation -/

theorem coreIter_add (p : Program) (n k : Nat) (c : Core) :
    coreIter p (n + k) c = (coreIter p n c).bind (coreIter p k) := by
  induction n generalizing c with
  | zero => simp [coreIter, Except.bind]
  | succ n ih =>
    rw [Nat.add_right_comm]
    simp only [coreIter]
    cases coreStep p c with
    | error e => rfl
    | ok c1 => exact ih c1

theorem coreIter_one (p : Program) (c : Core) : coreIter p 1 c = coreStep p c := by
  simp only [coreIter]
  cases coreStep p c <;> rfl

theorem coreIter_succ_end (p : Program) (n : Nat) (c : Core) :
    coreIter p (n + 1) c = (coreIter p n c).bind (coreStep p) := by
  rw [coreIter_add]
  cases coreIter p n c with
  | error e => rfl
  | ok c1 => exact coreIter_one p c1

theorem onPath_step {p : Program} {c c' : Core} (h : OnPath p c) (hs : coreStep p c = .ok c') :
    OnPath p c' := by
  obtain ⟨n, hn⟩ := h
  refine ⟨n + 1, ?_⟩
  rw [coreIter_succ_end, hn]
  exact hs

theorem onPath_init (p : Program) : OnPath p coreInit := ⟨0, rfl⟩

/-- `HALT` is a fixed point of the uninterrupted computation -/
theorem coreStep_halt {p : Program} {c : Core} (h : fetch p.code c.ip = .ok Instr.halt) :
    coreStep p c = .ok c := by
  rw [coreStep_eq, step_eq]
  show ((fetch p.code c.ip).bind _).map _ = _
  rw [h]
  rfl

theorem coreIter_halt {p : Program} {c : Core} (h : fetch p.code c.ip = .ok Instr.halt) (k : Nat) :
    coreIter p k c = .ok c := by
  induction k with
  | zero => rfl
  | succ k ih =>
    simp only [coreIter, coreStep_halt h, Except.bind]
    exact ih

theorem halt_unique {p : Program} {n m : Nat} {c0 c1 c2 : Core}
    (h1 : coreIter p n c0 = .ok c1) (hh1 : fetch p.code c1.ip = .ok Instr.halt)
    (h2 : coreIter p m c0 = .ok c2) (hh2 : fetch p.code c2.ip = .ok Instr.halt) : c1 = c2 := by
  rcases Nat.le_total n m with hle | hle
  · obtain ⟨k, rfl⟩ := Nat.exists_eq_add_of_le hle
    rw [coreIter_add, h1] at h2
    have := coreIter_halt hh1 k
    simp only [Except.bind] at h2
    rw [this] at h2
    cases h2; rfl
  · obtain ⟨k, rfl⟩ := Nat.exists_eq_add_of_le hle
    rw [coreIter_add, h2] at h1
    have := coreIter_halt hh2 k
    simp only [Except.bind] at h1
    rw [this] at h1
    cases h1; rfl

theorem isDone_halt {vm : VM} (hd : vm.isDone = .ok true) : fetch vm.code vm.ip = .ok Instr.halt := by
  unfold VM.isDone at hd
  simp only [bind, Except.bind, pure, Except.pure] at hd
  split at hd
  · cases hd
  · rename_i i hi
    rw [hi]
    simp at hd
    rw [hd]

/-! ### overwriting opcodes -/

theorem setOp_ok {code : List Instr} {ind : Int} {x : Instr} {c : List Instr}
    (h : setOp code ind x = .ok c) :
    0 ≤ ind ∧ ind.toNat < code.length ∧ c = code.set ind.toNat x := by
  unfold setOp at h
  split at h
  · cases h
  · split at h
    · cases h; exact ⟨by omega, by assumption, rfl⟩
    · cases h

theorem setOps_nil (code : List Instr) (x : Instr) : setOps code [] x = .ok code := rfl

theorem setOps_cons (code : List Instr) (ind : Int) (inds : List Int) (x : Instr) :
    setOps code (ind :: inds) x = (setOp code ind x).bind (fun c1 => setOps c1 inds x) := by
  simp only [setOps, List.foldlM_cons]; rfl

theorem setOps_spec {inds : List Int} {code : List Instr} {x : Instr} {c : List Instr}
    (h : setOps code inds x = .ok c) :
    c.length = code.length ∧ (∀ ind ∈ inds, 0 ≤ ind ∧ ind.toNat < code.length) ∧
    ∀ k : Nat, c[k]? = if (k : Int) ∈ inds then some x else code[k]? := by
  induction inds generalizing code with
  | nil =>
    rw [setOps_nil] at h; cases h
    simp
  | cons ind inds ih =>
    rw [setOps_cons] at h
    cases h1 : setOp code ind x with
    | error e => rw [h1] at h; cases h
    | ok c1 =>
      rw [h1] at h
      obtain ⟨h0, hlt, rfl⟩ := setOp_ok h1
      obtain ⟨hl, hr, hk⟩ := ih h
      rw [List.length_set] at hl hr
      refine ⟨hl, ?_, ?_⟩
      · intro j hj
        rcases List.mem_cons.mp hj with rfl | hj
        · exact ⟨h0, hlt⟩
        · exact hr j hj
      · intro k
        rw [hk k, List.getElem?_set]
        by_cases hin : (k : Int) ∈ inds
        · simp [hin]
        · by_cases hki : (k : Int) = ind
          · have : ind.toNat = k := by omega
            simp [hki, this]
            omega
          · have : ¬ ind.toNat = k := by omega
            simp [hin, hki, this]

theorem sitesOf_mem {p : Program} {bp : BreakPoint} {sites : List Int}
    (h : p.sitesOf bp = some sites) : (bp, sites) ∈ p.potBreaks := by
  unfold Program.sitesOf at h
  cases hf : p.potBreaks.find? (fun e => e.1 = bp) with
  | none => rw [hf] at h; cases h
  | some e =>
    rw [hf] at h
    have hm := List.mem_of_find?_eq_some hf
    have hp := List.find?_some hf
    simp only [Option.map_some, Option.some.injEq] at h
    simp only [decide_eq_true_eq] at hp
    obtain ⟨a, b⟩ := e
    simp only at h hp
    subst h hp
    exact hm

theorem sitesOK_sites {p : Program} (hs : SitesOK p) {bp : BreakPoint} {sites : List Int}
    (h : p.sitesOf bp = some sites) :
    ∀ i ∈ sites, 0 ≤ i ∧ p.code[i.toNat]? = some Instr.potBreak :=
  hs.1 (bp, sites) (sitesOf_mem h)

theorem CodeInv.ops {p : Program} {code : List Instr} {inds : List Int} {x : Instr}
    {c : List Instr} (hc : CodeInv p code) (hx : x.erase = .potBreak)
    (hi : ∀ i ∈ inds, p.code[i.toNat]? = some Instr.potBreak)
    (h : setOps code inds x = .ok c) : CodeInv p c := by
  unfold CodeInv
  apply List.ext_getElem?
  intro k
  rw [List.getElem?_map, (setOps_spec h).2.2 k]
  split
  · rename_i hin
    have := hi _ hin
    simp only [Int.toNat_natCast] at this
    rw [this, Option.map_some, hx]
  · exact (hc.get k).symm

theorem CodeInv.setBP {p : Program} (hs : SitesOK p) {vm vm' : VM} {b : BreakPoint}
    {v r : Bool} (hc : CodeInv p vm.code) (h : VM.setBreakPoint p vm b v = .ok (vm', r)) :
    CodeInv p vm'.code := by
  unfold VM.setBreakPoint at h
  split at h
  · cases h; exact hc
  · rename_i sites hsites
    have hi : ∀ i ∈ sites, p.code[i.toNat]? = some Instr.potBreak :=
      fun i hi => (sitesOK_sites hs hsites i hi).2
    simp only [bind, Except.bind, pure, Except.pure] at h
    split at h
    · split at h
      · cases h
      · rename_i c hcc
        cases h
        exact hc.ops rfl hi hcc
    · split at h
      · cases h
      · rename_i c hcc
        cases h
        exact hc.ops rfl hi hcc

theorem restoreAll_nil (p : Program) (code : List Instr) : restoreAll p code [] = .ok code := rfl

theorem restoreAll_cons (p : Program) (code : List Instr) (bp : BreakPoint)
    (bps : List BreakPoint) :
    restoreAll p code (bp :: bps) =
      (setOps code ((p.sitesOf bp).getD []) .potBreak).bind (fun c1 => restoreAll p c1 bps) := by
  simp only [restoreAll, List.foldlM_cons]; rfl

theorem sitesOK_sitesD {p : Program} (hs : SitesOK p) (bp : BreakPoint) :
    ∀ i ∈ (p.sitesOf bp).getD [], 0 ≤ i ∧ p.code[i.toNat]? = some Instr.potBreak := by
  cases h : p.sitesOf bp with
  | none => intro i hi; simp at hi
  | some sites => exact sitesOK_sites hs h

theorem CodeInv.restore {p : Program} (hs : SitesOK p) {bps : List BreakPoint}
    {code c : List Instr} (hc : CodeInv p code) (h : restoreAll p code bps = .ok c) :
    CodeInv p c := by
  induction bps generalizing code with
  | nil => rw [restoreAll_nil] at h; cases h; exact hc
  | cons bp bps ih =>
    rw [restoreAll_cons] at h
    cases h1 : setOps code ((p.sitesOf bp).getD []) .potBreak with
    | error e => rw [h1] at h; cases h
    | ok c1 =>
      rw [h1] at h
      exact ih (hc.ops rfl (fun i hi => (sitesOK_sitesD hs bp i hi).2) h1) h

theorem clear_ok {p : Program} {vm vm' : VM} (h : VM.clearBreakpoints p vm = .ok vm') :
    ∃ c, restoreAll p vm.code vm.enabled = .ok c ∧ vm' = { vm with code := c, enabled := [] } := by
  unfold VM.clearBreakpoints at h
  simp only [bind, Except.bind, pure, Except.pure] at h
  split at h
  · cases h
  · rename_i c hc
    cases h
    exact ⟨c, hc, rfl⟩

theorem reset_ok {p : Program} {vm vm' : VM} (h : VM.reset p vm = .ok vm') :
    ∃ c, restoreAll p vm.code vm.enabled = .ok c ∧
      vm' = { stepping := false, ip := 0, code := c, data := [], stack := [], enabled := [] } := by
  unfold VM.reset at h
  simp only [bind, Except.bind, pure, Except.pure] at h
  split at h
  · cases h
  · rename_i vm1 h1
    cases h
    obtain ⟨c, hc, rfl⟩ := clear_ok h1
    exact ⟨c, hc, rfl⟩

/-- `CodeInv` along one API call -/
theorem execTo_frame {vm vm' : VM} (h : ExecTo vm vm') :
    vm'.code = vm.code ∧ vm'.enabled = vm.enabled ∧ vm'.stepping = vm.stepping := by
  induction h with
  | stop h => exact step_frame h
  | more h _ ih =>
    have hf := step_frame h
    have := ih
    exact ⟨this.1.trans hf.1, this.2.1.trans hf.2.1, this.2.2.trans hf.2.2⟩

theorem CodeInv.call {p : Program} (hs : SitesOK p) {vm vm' : VM} {c : Call}
    (hc : CodeInv p vm.code) (h : CallRel p vm c vm') : CodeInv p vm'.code := by
  cases h with
  | single h => rw [(step_frame h).1]; exact hc
  | exec h => rw [(execTo_frame h).1]; exact hc
  | bp h => exact hc.setBP hs h
  | clear h =>
    obtain ⟨c, h1, rfl⟩ := clear_ok h
    exact hc.restore hs h1
  | stepping => exact hc
  | reset h =>
    obtain ⟨c, h1, rfl⟩ := reset_ok h
    exact hc.restore hs h1

theorem CodeInv.reach {p : Program} (hs : SitesOK p) {vm : VM} (hr : Reach p vm) :
    CodeInv p vm.code := by
  induction hr with
  | init => exact CodeInv.init p hs
  | call _ hc ih => exact ih.call hs hc

/-! ### C05 -/

theorem setBP_core {p : Program} {vm vm' : VM} {b : BreakPoint} {v r : Bool}
    (h : VM.setBreakPoint p vm b v = .ok (vm', r)) : vm'.core = vm.core := by
  unfold VM.setBreakPoint at h
  split at h
  · cases h; rfl
  · simp only [bind, Except.bind, pure, Except.pure] at h
    split at h <;> split at h <;> cases h <;> rfl

theorem execTo_onPath {p : Program} {vm vm' : VM} (hc : CodeInv p vm.code)
    (ho : OnPath p vm.core) (h : ExecTo vm vm') : OnPath p vm'.core := by
  induction h with
  | stop h => exact onPath_step ho (step_core hc h)
  | more h _ ih =>
    exact ih (by rw [(step_frame h).1]; exact hc) (onPath_step ho (step_core hc h))

theorem call_onPath {p : Program} {vm vm' : VM} {c : Call} (hc : CodeInv p vm.code)
    (ho : OnPath p vm.core) (h : CallRel p vm c vm') : OnPath p vm'.core := by
  cases h with
  | single h => exact onPath_step ho (step_core hc h)
  | exec h => exact execTo_onPath hc ho h
  | bp h => rw [setBP_core h]; exact ho
  | clear h =>
    obtain ⟨c, _, rfl⟩ := clear_ok h
    exact ho
  | stepping => exact ho
  | reset h =>
    obtain ⟨c, _, rfl⟩ := reset_ok h
    exact onPath_init p

theorem reach_onPath {p : Program} (hs : SitesOK p) {vm : VM} (hr : Reach p vm) :
    OnPath p vm.core := by
  induction hr with
  | init => exact onPath_init p
  | call hr hc ih => exact call_onPath (CodeInv.reach hs hr) ih hc

theorem code_only_breaks {p : Program} {code : List Instr} (hc : CodeInv p code) :
    code.length = p.code.length ∧
    ∀ i : Nat, code[i]? ≠ p.code[i]? →
      p.code[i]? = some Instr.potBreak ∧ code[i]? = some Instr.brk := by
  refine ⟨hc.length, ?_⟩
  intro i hne
  rw [hc.get i] at hne ⊢
  cases hi : code[i]? with
  | none => rw [hi] at hne; exact absurd rfl hne
  | some x =>
    rw [hi] at hne
    simp only [Option.map_some] at hne ⊢
    by_cases hx : x = .brk
    · subst hx; exact ⟨rfl, rfl⟩
    · rw [erase_of_ne_brk hx] at hne; exact absurd rfl hne

theorem same_end {p : Program} (hs : SitesOK p) {vm : VM} (hr : Reach p vm)
    (hd : vm.isDone = .ok true) {m : Nat} {c : Core}
    (hc : coreIter p m coreInit = .ok c) (hh : fetch p.code c.ip = .ok Instr.halt) :
    vm.core = c := by
  obtain ⟨n, hn⟩ := reach_onPath hs hr
  have hci := CodeInv.reach hs hr
  have hv : fetch p.code vm.core.ip = .ok Instr.halt := by
    show fetch p.code vm.ip = _
    rw [hci.fetch_eq, isDone_halt hd]; rfl
  exact halt_unique hn hv hc hh

/-! ### the order on break points; the enabled set as a sorted list -/

theorem bytesLt_irrefl (a : Bytes) : bytesLt a a = false := by
  induction a with
  | nil => rfl
  | cons x xs ih => simp [bytesLt, ih, UInt8.lt_irrefl]

theorem bytesLt_tri {a b : Bytes} (h1 : bytesLt a b = false) (h2 : bytesLt b a = false) : a = b := by
  induction a generalizing b with
  | nil => cases b with
    | nil => rfl
    | cons y ys => simp [bytesLt] at h1
  | cons x xs ih => cases b with
    | nil => simp [bytesLt] at h2
    | cons y ys =>
      simp only [bytesLt] at h1 h2
      have hxy : ¬ x < y := by intro h; simp [h] at h1
      have hyx : ¬ y < x := by intro h; simp [h] at h2
      simp only [hxy, hyx, if_false] at h1 h2
      have : x = y := by
        rw [UInt8.lt_iff_toNat_lt] at hxy hyx
        apply UInt8.toNat_inj.mp; omega
      rw [this, ih h1 h2]

theorem bytesLt_trans {a b c : Bytes} (h1 : bytesLt a b = true) (h2 : bytesLt b c = true) :
    bytesLt a c = true := by
  induction a generalizing b c with
  | nil => cases b with
    | nil => simp [bytesLt] at h1
    | cons y ys => cases c with
      | nil => simp [bytesLt] at h2
      | cons z zs => rfl
  | cons x xs ih => cases b with
    | nil => simp [bytesLt] at h1
    | cons y ys => cases c with
      | nil => simp [bytesLt] at h2
      | cons z zs =>
        simp only [bytesLt] at h1 h2 ⊢
        simp only [UInt8.lt_iff_toNat_lt] at h1 h2 ⊢
        split at h1
        · split at h2
          · rw [if_pos (by omega)]
          · split at h2
            · cases h2
            · rw [if_pos (by omega)]
        · split at h1
          · cases h1
          · split at h2
            · rw [if_pos (by omega)]
            · split at h2
              · cases h2
              · rw [if_neg (by omega), if_neg (by omega)]
                exact ih h1 h2

theorem bpLt_irrefl (a : BreakPoint) : BreakPoint.lt a a = false := by
  simp [BreakPoint.lt, bytesLt_irrefl]

theorem bpLt_tri {a b : BreakPoint} (h1 : BreakPoint.lt a b = false)
    (h2 : BreakPoint.lt b a = false) : a = b := by
  unfold BreakPoint.lt at h1 h2
  cases hab : bytesLt a.file b.file <;> cases hba : bytesLt b.file a.file <;>
    simp [hab, hba] at h1 h2
  have hf := bytesLt_tri hab hba
  cases a; cases b
  simp only at hf h1 h2
  subst hf
  congr
  omega

theorem bpLt_trans {a b c : BreakPoint} (h1 : BreakPoint.lt a b = true)
    (h2 : BreakPoint.lt b c = true) : BreakPoint.lt a c = true := by
  unfold BreakPoint.lt at h1 h2 ⊢
  cases hab : bytesLt a.file b.file <;> cases hba : bytesLt b.file a.file <;>
    cases hbc : bytesLt b.file c.file <;> cases hcb : bytesLt c.file b.file <;>
    simp [hab, hba, hbc, hcb] at h1 h2
  · -- a.file = b.file = c.file
    have e1 := bytesLt_tri hab hba
    have e2 := bytesLt_tri hbc hcb
    rw [e1, e2, bytesLt_irrefl]
    simp; omega
  · have e1 := bytesLt_tri hab hba
    rw [e1, hbc]; simp
  · have e1 := bytesLt_tri hab hba
    rw [e1, hbc]; simp
  · have e2 := bytesLt_tri hbc hcb
    rw [← e2, hab]; simp
  · rw [bytesLt_trans hab hbc]; simp
  · rw [bytesLt_trans hab hbc]; simp
  · have e2 := bytesLt_tri hbc hcb
    rw [← e2, hab]; simp
  · rw [bytesLt_trans hab hbc]; simp
  · rw [bytesLt_trans hab hbc]; simp

/-- the enabled set is strictly sorted (it is a `std::set`) -/
def Sorted (l : List BreakPoint) : Prop := l.Pairwise (fun a b => BreakPoint.lt a b = true)

theorem mem_insert {x b : BreakPoint} {l : List BreakPoint} :
    x ∈ sortedInsert BreakPoint.lt false b l ↔ x = b ∨ x ∈ l := by
  induction l with
  | nil => simp [sortedInsert]
  | cons y ys ih =>
    unfold sortedInsert
    split
    · simp
    · split
      · simp only [List.mem_cons, ih]
        constructor
        · rintro (h | h | h)
          · exact .inr (.inl h)
          · exact .inl h
          · exact .inr (.inr h)
        · rintro (h | h | h)
          · exact .inr (.inl h)
          · exact .inl h
          · exact .inr (.inr h)
      · rename_i h1 h2
        have : b = y := bpLt_tri (by simpa using h1) (by simpa using h2)
        subst this
        simp

theorem sorted_insert {b : BreakPoint} {l : List BreakPoint} (hl : Sorted l) :
    Sorted (sortedInsert BreakPoint.lt false b l) := by
  unfold Sorted at *
  induction l with
  | nil => simp [sortedInsert]
  | cons y ys ih =>
    rw [List.pairwise_cons] at hl
    unfold sortedInsert
    split
    · rename_i h1
      rw [List.pairwise_cons]
      refine ⟨?_, List.pairwise_cons.mpr hl⟩
      intro z hz
      rcases List.mem_cons.mp hz with rfl | hz
      · exact h1
      · exact bpLt_trans h1 (hl.1 z hz)
    · split
      · rename_i h1 h2
        rw [List.pairwise_cons]
        refine ⟨?_, ih hl.2⟩
        intro z hz
        rcases mem_insert.mp hz with rfl | hz
        · exact h2
        · exact hl.1 z hz
      · exact List.pairwise_cons.mpr hl

theorem erase_sublist (b : BreakPoint) (l : List BreakPoint) :
    (sortedErase BreakPoint.lt b l).Sublist l := by
  induction l with
  | nil => exact List.Sublist.refl _
  | cons y ys ih =>
    unfold sortedErase
    split
    · exact ih.cons_cons y
    · exact List.sublist_cons_self y ys

theorem sorted_erase {b : BreakPoint} {l : List BreakPoint} (hl : Sorted l) :
    Sorted (sortedErase BreakPoint.lt b l) :=
  List.Pairwise.sublist (erase_sublist b l) hl

theorem mem_erase {x b : BreakPoint} {l : List BreakPoint} (hl : Sorted l) :
    x ∈ sortedErase BreakPoint.lt b l ↔ x ∈ l ∧ x ≠ b := by
  unfold Sorted at hl
  induction l with
  | nil => simp [sortedErase]
  | cons y ys ih =>
    rw [List.pairwise_cons] at hl
    unfold sortedErase
    split
    · rename_i h1
      have hne : y ≠ b := by
        rintro rfl
        simp [bpLt_irrefl] at h1
      simp only [List.mem_cons, ih hl.2]
      constructor
      · rintro (rfl | h)
        · exact ⟨.inl rfl, hne⟩
        · exact ⟨.inr h.1, h.2⟩
      · rintro ⟨rfl | h, h2⟩
        · exact .inl rfl
        · exact .inr ⟨h, h2⟩
    · rename_i h1
      simp only [Bool.or_eq_true, not_or, Bool.not_eq_true] at h1
      have : b = y := bpLt_tri h1.1 h1.2
      subst this
      have hnb : b ∉ ys := by
        intro hb
        have := hl.1 b hb
        rw [bpLt_irrefl] at this
        cases this
      simp only [List.mem_cons]
      constructor
      · intro h
        exact ⟨.inr h, fun e => hnb (e ▸ h)⟩
      · rintro ⟨rfl | h, h2⟩
        · exact absurd rfl h2
        · exact h


/-! ### C06: `BREAK` sits exactly at the sites of enabled lines -/

structure BreakInv (p : Program) (code : List Instr) (enabled : List BreakPoint) : Prop where
  brk : ∀ k : Nat, code[k]? = some Instr.brk ↔ ∃ bp, p.lineAt (k : Int) = some bp ∧ bp ∈ enabled
  sorted : Sorted enabled

theorem sites_iff {p : Program} (ht : TablesInverse p) {b : BreakPoint} {sites : List Int}
    (h : p.sitesOf b = some sites) (i : Int) : i ∈ sites ↔ p.lineAt i = some b := by
  rw [← ht.1 b i]
  constructor
  · intro hi; exact ⟨sites, h, hi⟩
  · rintro ⟨s', h', hi⟩
    rw [h] at h'; cases h'; exact hi

theorem sitesD_iff {p : Program} (ht : TablesInverse p) (b : BreakPoint) (i : Int) :
    i ∈ (p.sitesOf b).getD [] ↔ p.lineAt i = some b := by
  cases h : p.sitesOf b with
  | some sites => exact sites_iff ht h i
  | none =>
    rw [← ht.1 b i]
    simp [h]

theorem BreakInv.init (p : Program) (hs : SitesOK p) : BreakInv p p.code [] := by
  refine ⟨?_, List.Pairwise.nil⟩
  intro k
  constructor
  · intro h
    exact absurd (List.mem_of_getElem? h) hs.2
  · rintro ⟨bp, _, h⟩
    cases h

theorem setOps_brk_iff {inds : List Int} {code c : List Instr} {x : Instr}
    (h : setOps code inds x = .ok c) (k : Nat) :
    c[k]? = some Instr.brk ↔
      ((k : Int) ∈ inds ∧ x = .brk) ∨ ((k : Int) ∉ inds ∧ code[k]? = some Instr.brk) := by
  rw [(setOps_spec h).2.2 k]
  by_cases hin : (k : Int) ∈ inds <;> simp [hin]

theorem BreakInv.enable {p : Program} (ht : TablesInverse p) {code c : List Instr}
    {en : List BreakPoint} {b : BreakPoint} {sites : List Int} (hb : BreakInv p code en)
    (hsites : p.sitesOf b = some sites) (h : setOps code sites .brk = .ok c) :
    BreakInv p c (sortedInsert BreakPoint.lt false b en) := by
  refine ⟨?_, sorted_insert hb.sorted⟩
  intro k
  rw [setOps_brk_iff h k, sites_iff ht hsites, hb.brk k]
  simp only [mem_insert, and_true]
  constructor
  · rintro (h1 | ⟨_, bp, h2, h3⟩)
    · exact ⟨b, h1, .inl rfl⟩
    · exact ⟨bp, h2, .inr h3⟩
  · rintro ⟨bp, h1, rfl | h2⟩
    · exact .inl h1
    · by_cases hk : p.lineAt (k : Int) = some b
      · exact .inl hk
      · exact .inr ⟨hk, bp, h1, h2⟩

theorem BreakInv.disable {p : Program} (ht : TablesInverse p) {code c : List Instr}
    {en : List BreakPoint} {b : BreakPoint} (hb : BreakInv p code en)
    (h : setOps code ((p.sitesOf b).getD []) .potBreak = .ok c) :
    BreakInv p c (sortedErase BreakPoint.lt b en) := by
  refine ⟨?_, sorted_erase hb.sorted⟩
  intro k
  rw [setOps_brk_iff h k, sitesD_iff ht, hb.brk k]
  simp only [mem_erase hb.sorted]
  constructor
  · rintro (⟨_, h1⟩ | ⟨h1, bp, h2, h3⟩)
    · cases h1
    · refine ⟨bp, h2, h3, ?_⟩
      rintro rfl
      exact h1 h2
  · rintro ⟨bp, h1, h2, h3⟩
    refine .inr ⟨?_, bp, h1, h2⟩
    intro h4
    rw [h1] at h4
    cases h4
    exact h3 rfl

theorem BreakInv.setBP {p : Program} (ht : TablesInverse p) {vm vm' : VM} {b : BreakPoint}
    {v r : Bool} (hb : BreakInv p vm.code vm.enabled)
    (h : VM.setBreakPoint p vm b v = .ok (vm', r)) : BreakInv p vm'.code vm'.enabled := by
  unfold VM.setBreakPoint at h
  split at h
  · cases h; exact hb
  · rename_i sites hsites
    simp only [bind, Except.bind, pure, Except.pure] at h
    split at h
    · split at h
      · cases h
      · rename_i c hcc
        cases h
        exact hb.enable ht hsites hcc
    · split at h
      · cases h
      · rename_i c hcc
        cases h
        refine hb.disable ht ?_
        rw [hsites]; exact hcc

theorem restoreAll_brk {p : Program} {bps : List BreakPoint} {code c : List Instr}
    (h : restoreAll p code bps = .ok c) (k : Nat) :
    c[k]? = some Instr.brk →
      code[k]? = some Instr.brk ∧ ∀ bp ∈ bps, (k : Int) ∉ (p.sitesOf bp).getD [] := by
  induction bps generalizing code with
  | nil => rw [restoreAll_nil] at h; cases h; intro hk; exact ⟨hk, fun _ hbp => by cases hbp⟩
  | cons bp bps ih =>
    rw [restoreAll_cons] at h
    cases h1 : setOps code ((p.sitesOf bp).getD []) .potBreak with
    | error e => rw [h1] at h; cases h
    | ok c1 =>
      rw [h1] at h
      intro hk
      obtain ⟨hk1, hrest⟩ := ih h hk
      rcases (setOps_brk_iff h1 k).mp hk1 with ⟨_, h2⟩ | ⟨h2, h3⟩
      · cases h2
      · refine ⟨h3, ?_⟩
        intro bp' hbp'
        rcases List.mem_cons.mp hbp' with rfl | hbp'
        · exact h2
        · exact hrest bp' hbp'

theorem BreakInv.restore {p : Program} (ht : TablesInverse p) {code c : List Instr}
    {en : List BreakPoint} (hb : BreakInv p code en) (h : restoreAll p code en = .ok c) :
    BreakInv p c [] := by
  refine ⟨?_, List.Pairwise.nil⟩
  intro k
  constructor
  · intro hk
    obtain ⟨h1, h2⟩ := restoreAll_brk h k hk
    obtain ⟨bp, h3, h4⟩ := (hb.brk k).mp h1
    exact absurd ((sitesD_iff ht bp _).mpr h3) (h2 bp h4)
  · rintro ⟨bp, _, h⟩
    cases h

theorem BreakInv.call {p : Program} (ht : TablesInverse p) {vm vm' : VM} {c : Call}
    (hb : BreakInv p vm.code vm.enabled) (h : CallRel p vm c vm') :
    BreakInv p vm'.code vm'.enabled := by
  cases h with
  | single h => rw [(step_frame h).1, (step_frame h).2.1]; exact hb
  | exec h => rw [(execTo_frame h).1, (execTo_frame h).2.1]; exact hb
  | bp h => exact hb.setBP ht h
  | clear h =>
    obtain ⟨c, h1, rfl⟩ := clear_ok h
    exact hb.restore ht h1
  | stepping => exact hb
  | reset h =>
    obtain ⟨c, h1, rfl⟩ := reset_ok h
    exact hb.restore ht h1

theorem BreakInv.reach {p : Program} (hs : SitesOK p) (ht : TablesInverse p) {vm : VM}
    (hr : Reach p vm) : BreakInv p vm.code vm.enabled := by
  induction hr with
  | init => exact BreakInv.init p hs
  | call _ hc ih => exact ih.call ht hc

/-! ### C06: stop positions -/

/-- should the machine stop after executing the instruction at `ip`? (`StopHere` of C06) -/
def StopAt (p : Program) (stepping : Bool) (enabled : List BreakPoint) (ip : Int) : Prop :=
  fetch p.code ip = .ok Instr.halt ∨
  ∃ bp, p.lineAt ip = some bp ∧ (stepping = true ∨ bp ∈ enabled)

theorem stops_iff {p : Program} (ht : TablesInverse p) {vm vm' : VM} {r : Bool}
    (hc : CodeInv p vm.code) (hb : BreakInv p vm.code vm.enabled)
    (h : step vm = .ok (vm', r)) : r = true ↔ StopAt p vm.stepping vm.enabled vm.ip := by
  obtain ⟨i, hf, he⟩ := step_ok h
  obtain ⟨h0, hg⟩ := fetch_ok hf
  rw [execI_flag he]
  have hpf : fetch p.code vm.ip = .ok i.erase := by rw [hc.fetch_eq, hf]; rfl
  have hpg : p.code[vm.ip.toNat]? = some i.erase := by rw [hc.get, hg]; rfl
  have hcast : ((vm.ip.toNat : Nat) : Int) = vm.ip := Int.toNat_of_nonneg h0
  have hline : (∃ bp, p.lineAt vm.ip = some bp) ↔ i.erase = .potBreak := by
    have := ht.2.1 vm.ip.toNat
    rw [hcast, hpg] at this
    rw [this]
    constructor
    · intro h; exact Option.some.inj h
    · intro h; rw [h]
  have hbrk : i = .brk ↔ ∃ bp, p.lineAt vm.ip = some bp ∧ bp ∈ vm.enabled := by
    have := hb.brk vm.ip.toNat
    rw [hcast, hg] at this
    rw [← this]
    constructor
    · intro h; rw [h]
    · intro h; cases h; rfl
  unfold StopAt
  constructor
  · rintro (rfl | rfl | ⟨rfl, hst⟩)
    · exact .inl hpf
    · obtain ⟨bp, h1, h2⟩ := hbrk.mp rfl
      exact .inr ⟨bp, h1, .inr h2⟩
    · obtain ⟨bp, h1⟩ := hline.mpr rfl
      exact .inr ⟨bp, h1, .inl hst⟩
  · rintro (hh | ⟨bp, h1, hst | hen⟩)
    · rw [hpf] at hh
      exact .inl (erase_eq_halt.mp (Except.ok.inj hh))
    · rcases erase_eq_potBreak.mp (hline.mp ⟨bp, h1⟩) with hi | hi
      · exact .inr (.inl hi)
      · exact .inr (.inr ⟨hi, hst⟩)
    · exact .inr (.inl (hbrk.mpr ⟨bp, h1, hen⟩))

theorem execute_stops {p : Program} (ht : TablesInverse p) {vm vm' : VM}
    (hc : CodeInv p vm.code) (hb : BreakInv p vm.code vm.enabled) (h : ExecTo vm vm') :
    ∃ k : Nat, ∃ c : Core,
      coreIter p k vm.core = .ok c ∧ StopAt p vm.stepping vm.enabled c.ip ∧
      (∀ j, j < k → ∀ cj, coreIter p j vm.core = .ok cj →
        ¬ StopAt p vm.stepping vm.enabled cj.ip) ∧
      coreStep p c = .ok vm'.core ∧
      vm'.code = vm.code ∧ vm'.enabled = vm.enabled ∧ vm'.stepping = vm.stepping := by
  induction h with
  | stop h =>
    refine ⟨0, _, rfl, (stops_iff ht hc hb h).mp rfl, ?_, step_core hc h, step_frame h⟩
    intro j hj
    omega
  | @more vm vm1 vm2 h _ ih =>
    obtain ⟨f1, f2, f3⟩ := step_frame h
    obtain ⟨k, c, i1, i2, i3, i4, i5, i6, i7⟩ :=
      ih (by rw [f1]; exact hc) (by rw [f1, f2]; exact hb)
    rw [f2, f3] at i2 i3
    have hcs := step_core hc h
    refine ⟨k + 1, c, ?_, i2, ?_, i4, i5.trans f1, i6.trans f2, i7.trans f3⟩
    · simp only [coreIter, hcs, Except.bind]
      exact i1
    · intro j hj cj hcj
      cases j with
      | zero =>
        cases hcj
        intro hst
        have := (stops_iff ht hc hb h).mpr hst
        cases this
      | succ j =>
        simp only [coreIter, hcs, Except.bind] at hcj
        exact i3 j (by omega) cj hcj

theorem current_break {p : Program} {vm vm' : VM} (h : step vm = .ok (vm', true))
    (hn : fetch vm.code vm.ip ≠ .ok Instr.halt) :
    vm'.currentBreak p = p.lineAt vm.ip := by
  obtain ⟨i, hf, he⟩ := step_ok h
  have hfl := (execI_flag he).mp rfl
  have hip : vm'.ip = vm.ip + 1 := by
    rcases hfl with rfl | rfl | ⟨rfl, _⟩
    · exact absurd hf hn
    · simp only [execI, pure, Except.pure, Except.ok.injEq, Prod.mk.injEq] at he
      rw [← he.1]
    · simp only [execI, pure, Except.pure, Except.ok.injEq, Prod.mk.injEq] at he
      rw [← he.1]
  unfold VM.currentBreak
  rw [hip, Int.add_sub_cancel]

theorem initial_none {p : Program} (ht : TablesInverse p) :
    (VM.mk' p).currentBreak p = none := by
  unfold VM.currentBreak
  cases h : p.lineAt ((VM.mk' p).ip - 1) with
  | none => rfl
  | some bp =>
    have := ht.2.2 _ _ h
    simp [VM.mk'] at this

theorem sitesOf_none_iff (p : Program) (b : BreakPoint) :
    p.sitesOf b = none ↔ b ∉ p.available := by
  unfold Program.sitesOf Program.available
  simp only [Option.map_eq_none_iff, List.find?_eq_none, decide_eq_true_eq, List.mem_map,
    not_exists, not_and]

theorem enable_iff {p : Program} {vm vm' : VM} {b : BreakPoint} {v r : Bool}
    (h : VM.setBreakPoint p vm b v = .ok (vm', r)) : r = true ↔ b ∈ p.available := by
  unfold VM.setBreakPoint at h
  split at h
  · rename_i hnone
    cases h
    have := (sitesOf_none_iff p b).mp hnone
    simp [this]
  · rename_i sites hsites
    have hav : b ∈ p.available := by
      apply Classical.byContradiction
      intro hna
      rw [(sitesOf_none_iff p b).mpr hna] at hsites
      cases hsites
    simp only [bind, Except.bind, pure, Except.pure] at h
    split at h <;> split at h <;> cases h <;> simp [hav]

theorem setBP_enabled {p : Program} {vm vm' : VM} {b : BreakPoint} {v r : Bool}
    (h : VM.setBreakPoint p vm b v = .ok (vm', r)) :
    vm'.enabled = bookkeeping p vm.enabled (.bp b v) := by
  unfold VM.setBreakPoint at h
  split at h
  · rename_i hnone
    cases h
    cases v <;> simp [bookkeeping, hnone]
  · rename_i sites hsites
    simp only [bind, Except.bind, pure, Except.pure] at h
    split at h <;> split at h <;> cases h <;> simp_all [bookkeeping]

theorem enabled_set {p : Program} {vm vm' : VM} {c : Call} (h : CallRel p vm c vm') :
    vm'.enabled = bookkeeping p vm.enabled c := by
  cases h with
  | single h => exact (step_frame h).2.1
  | exec h => exact (execTo_frame h).2.1
  | bp h => exact setBP_enabled h
  | clear h =>
    obtain ⟨c, _, rfl⟩ := clear_ok h
    rfl
  | stepping => rfl
  | reset h =>
    obtain ⟨c, _, rfl⟩ := reset_ok h
    rfl

end InvB
end Theo
