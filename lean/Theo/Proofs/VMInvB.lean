/-
  Helper lemmas and invariants for C05, C06 (transparency and stop positions).
-/
import Theo.Spec.VMSpec

namespace Theo

end Theo
