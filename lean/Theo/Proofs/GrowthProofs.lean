/-
  Growth of the token stream under macro rewriting (the growth clause of C11), part 1:
  linear bodies, the length of an instantiated body, list arithmetic.
-/
import Theo.Proofs.DetectorProofs

namespace Theo

/-! ### which slots a body inserts -/

/-- the slot number `n` written in an insertion token `$n`, read exactly as `replacement` reads it
    (`strtol`, cast to `int`, used as an index into the template-token table) -/
def slotNumber (cand : Token) : Nat := (toInt32 (strtolNat (cand.text.drop 1))).toNat

/-- the rule positions (= indices into `Response.matched`) of the slots inserted by the `$n`
    tokens of the token list `b`, in order and with repetitions; a `$n` whose number is outside the
    slot table inserts nothing and is not listed -/
def MacroDef.refsOf (m : MacroDef) (b : List Token) : List Nat :=
  b.filterMap (fun cand => if cand.kind = Tok.INSERTION then m.tt[slotNumber cand]? else none)

/-- the slots inserted by the body -/
def MacroDef.slotRefs (m : MacroDef) : List Nat := m.refsOf m.body

/-- number of `$n` tokens of the body that insert something -/
def MacroDef.insertions (m : MacroDef) : Nat := m.slotRefs.length

/-- a body is linear when every slot is inserted at most once -/
def MacroDef.linearBody (m : MacroDef) : Prop := m.slotRefs.Nodup

instance (m : MacroDef) : Decidable m.linearBody := inferInstanceAs (Decidable (List.Nodup _))

/-- the slot numbers written in the `$n` tokens of the body, with repetitions -/
def MacroDef.slotNumbers (m : MacroDef) : List Nat :=
  (m.body.filter (fun cand => decide (cand.kind = Tok.INSERTION))).map slotNumber

/-- the maximal body length among the definitions (all of them, usable or not) -/
def maxBody (defs : List MacroDef) : Nat := (defs.map (fun m => m.body.length)).foldr max 0

theorem body_le_maxBody {defs : List MacroDef} {m : MacroDef} (h : m ∈ defs) :
    m.body.length ≤ maxBody defs := by
  induction defs with
  | nil => cases h
  | cons x xs ih =>
    simp only [maxBody, List.map_cons, List.foldr_cons]
    rcases List.mem_cons.mp h with rfl | h
    · exact Nat.le_max_left _ _
    · exact Nat.le_trans (ih h) (Nat.le_max_right _ _)

theorem maxBody_filter_le (defs : List MacroDef) (p : MacroDef → Bool) :
    maxBody (defs.filter p) ≤ maxBody defs := by
  induction defs with
  | nil => exact Nat.le_refl _
  | cons x xs ih =>
    rw [List.filter_cons]
    split
    · simp only [maxBody, List.map_cons, List.foldr_cons] at ih ⊢
      omega
    · simp only [maxBody, List.map_cons, List.foldr_cons] at ih ⊢
      omega

/-! ### sums of filler lengths -/

/-- total length of a list of fillers -/
def totalLen {α} (l : List (List α)) : Nat := (l.map List.length).sum

theorem totalLen_eq_flatten {α} (l : List (List α)) : totalLen l = l.flatten.length := by
  rw [totalLen, List.length_flatten]

/-- length of the filler at index `i` (0 when there is none) -/
def fillLen {α} (l : List (List α)) (i : Nat) : Nat := ((l[i]?).getD []).length

theorem totalLen_set_nil {α} : ∀ (l : List (List α)) (i : Nat),
    totalLen (l.set i []) + fillLen l i = totalLen l := by
  intro l
  induction l with
  | nil => intro i; simp [totalLen, fillLen]
  | cons x xs ih =>
    intro i
    cases i with
    | zero => simp [totalLen, fillLen]; omega
    | succ i =>
      have := ih i
      simp only [totalLen, fillLen, List.set_cons_succ, List.map_cons, List.sum_cons,
        List.getElem?_cons_succ] at this ⊢
      omega

theorem fillLen_le_totalLen {α} (l : List (List α)) (i : Nat) : fillLen l i ≤ totalLen l := by
  have := totalLen_set_nil l i
  omega

theorem fillLen_set_ne {α} (l : List (List α)) {i j : Nat} (h : i ≠ j) :
    fillLen (l.set i []) j = fillLen l j := by
  simp only [fillLen, List.getElem?_set_ne h]

/-- distinct indices select disjoint fillers: their lengths add up to at most the total -/
theorem sum_fillLen_nodup {α} : ∀ (is : List Nat), is.Nodup → ∀ (l : List (List α)),
    (is.map (fillLen l)).sum ≤ totalLen l := by
  intro is
  induction is with
  | nil => intro _ l; simp
  | cons i rest ih =>
    intro hnd l
    rw [List.nodup_cons] at hnd
    obtain ⟨hi, hrest⟩ := hnd
    have h1 := ih hrest (l.set i [])
    have h2 : rest.map (fillLen (l.set i [])) = rest.map (fillLen l) := by
      apply List.map_congr_left
      intro j hj
      exact fillLen_set_ne l (fun h => hi (h ▸ hj))
    rw [h2] at h1
    have h3 := totalLen_set_nil l i
    simp only [List.map_cons, List.sum_cons]
    omega

/-- without distinctness: each index contributes at most the total -/
theorem sum_fillLen_le_mul {α} (is : List Nat) (l : List (List α)) :
    (is.map (fillLen l)).sum ≤ is.length * totalLen l := by
  induction is with
  | nil => simp
  | cons i rest ih =>
    have := fillLen_le_totalLen l i
    simp only [List.map_cons, List.sum_cons, List.length_cons, Nat.succ_mul]
    omega

/-! ### the instantiated body -/

/-- what `replacement` produces for one body token -/
def instOne (m : MacroDef) (r : Response) (pass : Nat) (cand : Token) : List Token :=
  if cand.kind = Tok.INSERTION then
    match m.tt[slotNumber cand]? with
    | some ri => (r.matched[ri]?).getD []
    | none => []
  else if cand.kind = Tok.TEMP_VAL then
    [{ cand with kind := Tok.ID,
                 text := tempName cand.text (m.body.head?.getD default).file
                           (m.body.head?.getD default).line pass }]
  else [cand]

theorem replacement_eq (m : MacroDef) (r : Response) (pass : Nat) :
    replacement m r pass = m.body.flatMap (instOne m r pass) := rfl

theorem instOne_length (m : MacroDef) (r : Response) (pass : Nat) (cand : Token) :
    (instOne m r pass cand).length ≤ 1 + ((m.refsOf [cand]).map (fillLen r.matched)).sum := by
  unfold instOne MacroDef.refsOf
  by_cases hk : cand.kind = Tok.INSERTION
  · rw [if_pos hk]
    cases ht : m.tt[slotNumber cand]? with
    | none => simp
    | some ri => simp [hk, ht, fillLen]
  · rw [if_neg hk]
    split <;> simp

theorem refsOf_cons (m : MacroDef) (c : Token) (b : List Token) :
    m.refsOf (c :: b) = m.refsOf [c] ++ m.refsOf b := by
  unfold MacroDef.refsOf
  rw [← List.filterMap_append]
  rfl

/-- the instantiated token list is at most as long as the token list itself plus the fillers of
    the slots it inserts -/
theorem flatMap_instOne_length (m : MacroDef) (r : Response) (pass : Nat) : ∀ (b : List Token),
    (b.flatMap (instOne m r pass)).length ≤ b.length + ((m.refsOf b).map (fillLen r.matched)).sum := by
  intro b
  induction b with
  | nil => simp
  | cons c b ih =>
    have h1 := instOne_length m r pass c
    rw [refsOf_cons, List.flatMap_cons, List.length_append, List.map_append, List.sum_append,
      List.length_cons]
    omega

/-- length of the replacement: body length plus the fillers of the slots the body mentions -/
theorem replacement_length_le (m : MacroDef) (r : Response) (pass : Nat) :
    (replacement m r pass).length ≤ m.body.length + (m.slotRefs.map (fillLen r.matched)).sum := by
  rw [replacement_eq]
  exact flatMap_instOne_length m r pass m.body

/-- with a linear body the replacement is at most body length + total filler length -/
theorem replacement_length_linear (m : MacroDef) (r : Response) (pass : Nat) (h : m.linearBody) :
    (replacement m r pass).length ≤ m.body.length + totalLen r.matched := by
  have h1 := replacement_length_le m r pass
  have h2 := sum_fillLen_nodup m.slotRefs h r.matched
  omega

/-- for any body: body length + (number of insertions) × total filler length -/
theorem replacement_length_general (m : MacroDef) (r : Response) (pass : Nat) :
    (replacement m r pass).length ≤ m.body.length + m.insertions * totalLen r.matched := by
  have h1 := replacement_length_le m r pass
  have h2 := sum_fillLen_le_mul m.slotRefs r.matched
  unfold MacroDef.insertions
  omega

/-! ### a sufficient condition phrased on the slot numbers -/

theorem filterMap_getElem?_nodup {α} (tt : List α) (htt : tt.Nodup) : ∀ (ns : List Nat), ns.Nodup →
    (ns.filterMap (fun n => tt[n]?)).Nodup := by
  intro ns
  induction ns with
  | nil => intro _; simp
  | cons n ns ih =>
    intro hnd
    rw [List.nodup_cons] at hnd
    obtain ⟨hn, hns⟩ := hnd
    rw [List.filterMap_cons]
    cases ht : tt[n]? with
    | none => exact ih hns
    | some x =>
      simp only
      rw [List.nodup_cons]
      refine ⟨?_, ih hns⟩
      intro hx
      rw [List.mem_filterMap] at hx
      obtain ⟨n', hn', ht'⟩ := hx
      have hlt : n < tt.length := (List.getElem?_eq_some_iff.mp ht).1
      have := (List.getElem?_inj hlt htt).mp (ht.trans ht'.symm)
      exact hn (this ▸ hn')

theorem refsOf_eq_filterMap_numbers (m : MacroDef) : ∀ (b : List Token),
    m.refsOf b =
      ((b.filter (fun cand => decide (cand.kind = Tok.INSERTION))).map slotNumber).filterMap
        (fun n => m.tt[n]?) := by
  intro b
  induction b with
  | nil => rfl
  | cons c b ih =>
    rw [refsOf_cons, ih]
    unfold MacroDef.refsOf
    by_cases hk : c.kind = Tok.INSERTION
    · rw [List.filter_cons_of_pos (by simpa using hk), List.map_cons, List.filterMap_cons,
        List.filterMap_cons, if_pos hk]
      cases m.tt[slotNumber c]? <;> rfl
    · rw [List.filter_cons_of_neg (by simpa using hk), List.filterMap_cons, if_neg hk]
      rfl

/-- if the slot table has no repeated entry (it never has for extracted definitions: the entries
    are increasing rule positions) and no slot number is written twice, the body is linear -/
theorem linearBody_of_numbers (m : MacroDef) (htt : m.tt.Nodup) (hn : m.slotNumbers.Nodup) :
    m.linearBody := by
  unfold MacroDef.linearBody MacroDef.slotRefs
  rw [refsOf_eq_filterMap_numbers]
  exact filterMap_getElem?_nodup m.tt htt _ hn

end Theo
