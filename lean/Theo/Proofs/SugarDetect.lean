/-
  C04 (sugar) — the macro stage of the model on the two built-in definitions.

  `stdDefs` is *computed*: the model's scanner and macro extraction run on the regenerated constant
  `ConstGen.stdMacroText`.  Everything the proofs need to know about it (two definitions, their
  priority, operator text, slots, bodies, LR tables) is re-checked by `decide +kernel` on that value
  (`std_defs_check`), so the theorems follow the regenerated constant.
-/
import Theo.Proofs.ApplyProofs
import Theo.Proofs.MacroProofs
import Theo.Proofs.SugarList

namespace Theo.Sugar

/-! ### the two definitions, computed from the regenerated text -/

/-- the tokens of the standard-macro file as the scanner labels them (without the end marker) -/
def stdBody : List Token :=
  (lexBuffer ConstGen.stdMacroText).map (fun t => ⟨t.kind, t.text, ConstGen.stdFileName, t.line⟩)

/-- the definitions of the standard file: scanner and macro extraction of the model, run on
    `ConstGen.stdMacroText` (the file scanned on its own) -/
def stdDefs : List MacroDef :=
  (extractMacros (scan [(ConstGen.stdFileName, ConstGen.stdMacroText)] ConstGen.stdFileName).toks).macros

/-- the macro body `RUN name WITH $0 , $1 END` as it stands on line `line` of the standards file -/
def bodyOf (name : Bytes) (line : Int) : List Token :=
  [stdTok Tok.RUN [82, 85, 78] line, stdTok Tok.ID name line, stdTok Tok.WITH [87, 73, 84, 72] line,
   stdTok Tok.INSERTION [36, 48] line, stdTok Tok.ARGSEP [44] line, stdTok Tok.INSERTION [36, 49] line,
   stdTok Tok.END [69, 78, 68] line]

/-- width of the detector tables: one column per token kind up to `WITH` -/
def W : Nat := 38

def row (l : List (Nat × Action)) (dflt : Action) : List Action :=
  l.foldl (fun r e => r.set e.1 e.2) (List.replicate W dflt)

/-- the canonical LR(1) prefix tables of the pattern `<ID> c <INT>` (7 states): the same for both
    definitions, as the operator character is compared by text only -/
def sugarTables : Tables :=
  ⟨[row [(1, .shift 1)] .err, row [(2, .reduce 0 0 1)] .err, row [(2, .shift 4)] .err, row [] .accept,
    row [(3, .shift 5)] .err, row [] (.reduce 1 0 1), row [] (.reduce 7 0 3)],
   [[2, -1, -1, -1, -1, -1, -1, 3, -1, -1], List.replicate 10 (-1), List.replicate 10 (-1), List.replicate 10 (-1),
    [-1, 6, -1, -1, -1, -1, -1, -1, -1, -1], List.replicate 10 (-1), List.replicate 10 (-1)], []⟩

/-- what the proofs use of a definition `<ID> op <INT> AS RUN name WITH $0, $1 END` -/
structure IsSugarDef (m : MacroDef) (op name : Bytes) (line : Int) : Prop where
  tables : (mkDetector m).tables = sugarTables
  prio : m.priority = 1000000
  cc : m.cc = [1]
  op : (m.rule[1]?).map (·.text) = some op
  tt : m.tt = [0, 2]
  body : m.body = bodyOf name line

def isSugarDefB (m : MacroDef) (op name : Bytes) (line : Int) : Bool :=
  decide ((mkDetector m).tables = sugarTables) && decide (m.priority = 1000000) && decide (m.cc = [1]) &&
    decide ((m.rule[1]?).map (·.text) = some op) && decide (m.tt = [0, 2]) && decide (m.body = bodyOf name line)

theorem isSugarDefB_iff {m : MacroDef} {op name : Bytes} {line : Int} (h : isSugarDefB m op name line = true) :
    IsSugarDef m op name line := by
  simp only [isSugarDefB, Bool.and_eq_true, decide_eq_true_eq] at h
  exact ⟨h.1.1.1.1.1, h.1.1.1.1.2, h.1.1.1.2, h.1.1.2, h.1.2, h.2⟩

/-- THE closed fact, re-checked on the regenerated constant: the standard text defines exactly
    `<ID> + <INT> AS RUN __INC__ WITH $0, $1 END` (line 1) and the same with `-`/`__DEC__` (line 2),
    both with priority 1000000, both with conflict-free tables -/
theorem std_defs_check :
    (match stdDefs with
     | [m1, m2] => isSugarDefB m1 plus incName 1 && isSugarDefB m2 minus decName 2
     | _ => false) = true := by decide +kernel

theorem std_defs : ∃ m1 m2, stdDefs = [m1, m2] ∧ IsSugarDef m1 plus incName 1 ∧ IsSugarDef m2 minus decName 2 := by
  have h := std_defs_check
  split at h
  · rename_i m1 m2 heq
    simp only [Bool.and_eq_true] at h
    exact ⟨m1, m2, heq, isSugarDefB_iff h.1, isSugarDefB_iff h.2⟩
  · cases h

theorem row_length (l : List (Nat × Action)) (dflt : Action) : (row l dflt).length = W := by
  unfold row
  suffices h : ∀ (l : List (Nat × Action)) (r : List Action), (l.foldl (fun r e => r.set e.1 e.2) r).length = r.length by
    rw [h]; simp
  intro l
  induction l with
  | nil => intro r; rfl
  | cons e l ih => intro r; simp [List.foldl_cons, ih]

theorem row_one (i : Nat) (a dflt : Action) (k : Nat) (hk : k < W) (hi : i < W) :
    ((row [(i, a)] dflt)[k]?).getD .err = if k = i then a else dflt := by
  simp only [row, List.foldl_cons, List.foldl_nil, List.getElem?_set, List.length_replicate]
  by_cases h : i = k
  · subst h; simp [hi]
  · have : ¬ k = i := fun e => h e.symm
    simp [h, this, hk]

theorem row_nil (dflt : Action) (k : Nat) (hk : k < W) :
    ((row [] dflt)[k]?).getD .err = dflt := by
  simp [row, hk]



section steps
variable {τ V : Type} (T : Tables) (term : τ → Nat) (leaf : τ → V) (act : Nat → Nat → List V → V)

theorem step_shift (fuel : Nat) (x : τ) (xs : List τ) (s : Nat) (srest : List Nat) (values : List V)
    (row : List Action) (s' : Nat) (h1 : T.action[s]? = some row) (h2 : term x < row.length)
    (h3 : (row[term x]?).getD .err = .shift s') :
    lrParse T term leaf act (fuel + 1) (x :: xs) (s :: srest) values =
      lrParse T term leaf act fuel xs (s' :: s :: srest) (leaf x :: values) := by
  simp only [lrParse, h1, Nat.not_le.2 h2, if_false, h3]

theorem step_err (fuel : Nat) (x : τ) (xs : List τ) (s : Nat) (srest : List Nat) (values : List V)
    (row : List Action) (h1 : T.action[s]? = some row)
    (h3 : row.length ≤ term x ∨ (row[term x]?).getD .err = .err) :
    lrParse T term leaf act (fuel + 1) (x :: xs) (s :: srest) values = .reject := by
  simp only [lrParse, h1]
  by_cases h : row.length ≤ term x
  · simp only [h, if_true]
  · simp only [h, if_false, h3.resolve_left h]

theorem step_accept (fuel : Nat) (x : τ) (xs : List τ) (s : Nat) (srest : List Nat) (v : V) (values : List V)
    (row : List Action) (h1 : T.action[s]? = some row) (h2 : term x < row.length)
    (h3 : (row[term x]?).getD .err = .accept) :
    lrParse T term leaf act (fuel + 1) (x :: xs) (s :: srest) (v :: values) = .accept v := by
  simp only [lrParse, h1, Nat.not_le.2 h2, if_false, h3]

theorem step_reduce (fuel : Nat) (x : τ) (xs : List τ) (s : Nat) (srest : List Nat) (values : List V)
    (row : List Action) (left alt beta : Nat) (sp : Nat) (rest' : List Nat) (j : Nat)
    (h1 : T.action[s]? = some row) (h2 : term x < row.length)
    (h3 : (row[term x]?).getD .err = .reduce left alt beta)
    (h4 : beta ≤ values.length) (h5 : (s :: srest).drop beta = sp :: rest')
    (h6 : (T.goto[sp]?).bind (·[left]?) = some (j : Int)) :
    lrParse T term leaf act (fuel + 1) (x :: xs) (s :: srest) values =
      lrParse T term leaf act fuel (x :: xs) (j :: sp :: rest') (act left alt (values.take beta) :: values.drop beta) := by
  have h7 : ¬ (values.length < beta ∨ (s :: srest).length ≤ beta) := by
    intro h
    rcases h with h | h
    · omega
    · rw [List.drop_eq_nil_of_le h] at h5; cases h5
  simp only [lrParse, h1, Nat.not_le.2 h2, if_false, h3, h7, h5, h6]
  simp only [Int.toNat_natCast]
  rw [if_neg (by omega)]

end steps

theorem tab0 : sugarTables.action[0]? = some (row [(1, .shift 1)] .err) := rfl
theorem tab1 : sugarTables.action[1]? = some (row [(2, .reduce 0 0 1)] .err) := rfl
theorem tab2 : sugarTables.action[2]? = some (row [(2, .shift 4)] .err) := rfl
theorem tab3 : sugarTables.action[3]? = some (row [] .accept) := rfl
theorem tab4 : sugarTables.action[4]? = some (row [(3, .shift 5)] .err) := rfl
theorem tab5 : sugarTables.action[5]? = some (row [] (.reduce 1 0 1)) := rfl
theorem tab6 : sugarTables.action[6]? = some (row [] (.reduce 7 0 3)) := rfl

/-- the run of the detector on `ID NV_ID INT e …` -/
theorem detectAt_hit (d : Detector) (ht : d.tables = sugarTables) (a b c e : Token) (rest : List Token)
    (ha : a.kind = Tok.ID) (hb : b.kind = Tok.NV_ID) (hc : c.kind = Tok.INT) (he : e.kind ≤ Tok.WITH) :
    detectAt d (a :: b :: c :: e :: rest) = some ⟨[c, b, a], [[a], [b], [c]]⟩ := by
  have hf : detectFuel (a :: b :: c :: e :: rest).length = (32 * rest.length + 185) + 1 + 1 + 1 + 1 + 1 + 1 + 1 := by
    simp only [detectFuel, List.length_cons]; omega
  have heW : e.kind < W := by simp only [W, Tok.WITH] at *; omega
  have haW : a.kind < W := by rw [ha]; decide
  have hbW : b.kind < W := by rw [hb]; decide
  have hcW : c.kind < W := by rw [hc]; decide
  unfold detectAt
  rw [hf, ht]
  rw [step_shift _ _ _ _ _ _ _ _ _ _ _ 1 tab0 (by rw [row_length]; exact haW) (by rw [row_one _ _ _ _ haW (by decide), ha]; rfl)]
  rw [step_reduce _ _ _ _ _ _ _ _ _ _ _ 0 0 1 0 [] 2 tab1 (by rw [row_length]; exact hbW)
    (by rw [row_one _ _ _ _ hbW (by decide), hb]; rfl) (by simp) rfl rfl]
  rw [step_shift _ _ _ _ _ _ _ _ _ _ _ 4 tab2 (by rw [row_length]; exact hbW) (by rw [row_one _ _ _ _ hbW (by decide), hb]; rfl)]
  rw [step_shift _ _ _ _ _ _ _ _ _ _ _ 5 tab4 (by rw [row_length]; exact hcW) (by rw [row_one _ _ _ _ hcW (by decide), hc]; rfl)]
  rw [step_reduce _ _ _ _ _ _ _ _ _ _ _ 1 0 1 4 [2, 0] 6 tab5 (by rw [row_length]; exact heW)
    (by rw [row_nil _ _ heW]) (by simp) rfl rfl]
  rw [step_reduce _ _ _ _ _ _ _ _ _ _ _ 7 0 3 0 [] 3 tab6 (by rw [row_length]; exact heW)
    (by rw [row_nil _ _ heW]) (by simp) rfl rfl]
  rw [step_accept _ _ _ _ _ _ _ _ _ _ _ _ tab3 (by rw [row_length]; exact heW) (by rw [row_nil _ _ heW])]
  simp [accAct, accLeaf, DetGen.macroNT]


theorem lrParse_nil {τ V : Type} (T : Tables) (term : τ → Nat) (leaf : τ → V) (act : Nat → Nat → List V → V)
    (fuel : Nat) (sts : List Nat) (values : List V) :
    lrParse T term leaf act fuel [] sts values = .stuck ∨ lrParse T term leaf act fuel [] sts values = .fuelOut := by
  cases fuel with
  | zero => simp [lrParse]
  | succ f => cases sts <;> simp [lrParse]

theorem row_one_err (i : Nat) (a : Action) (k : Nat) (hi : i < W) (hk : k ≠ i) :
    (row [(i, a)] .err).length ≤ k ∨ ((row [(i, a)] .err)[k]?).getD .err = .err := by
  rw [row_length]
  by_cases h : k < W
  · right; rw [row_one _ _ _ _ h hi, if_neg hk]
  · left; omega

/-- the detector of `<ID> op <INT>` accepts exactly at  ID NV_ID INT  followed by one more token
    the tables have a column for -/
theorem detectAt_eq (d : Detector) (ht : d.tables = sugarTables) (ts : List Token) :
    detectAt d ts =
      match ts with
      | a :: b :: c :: e :: _ =>
        if a.kind = Tok.ID ∧ b.kind = Tok.NV_ID ∧ c.kind = Tok.INT ∧ e.kind ≤ Tok.WITH then
          some ⟨[c, b, a], [[a], [b], [c]]⟩
        else none
      | _ => none := by
  have hfuel : ∀ n, detectFuel n = (32 * n + 57) + 1 + 1 + 1 + 1 + 1 + 1 + 1 := by
    intro n; simp only [detectFuel]; omega
  cases ts with
  | nil => simp only [detectAt]; rw [ht]; rcases lrParse_nil sugarTables (fun t : Token => t.kind) accLeaf accAct _ _ _ with h | h <;> rw [h]
  | cons a xs =>
    by_cases ha : a.kind = Tok.ID
    rotate_left
    · have : detectAt d (a :: xs) = none := by
        unfold detectAt
        rw [hfuel, ht, step_err _ _ _ _ _ _ _ _ _ _ _ tab0 (row_one_err _ _ _ (by decide) ha)]
      rw [this]
      rcases xs with _ | ⟨b, _ | ⟨c, _ | ⟨e, rest⟩⟩⟩ <;> simp [ha]
    have haW : a.kind < W := by rw [ha]; decide
    have s1 := fun f (xs : List Token) sr vs => step_shift sugarTables (fun t : Token => t.kind) accLeaf accAct f a xs 0 sr vs _ 1 tab0
      (by rw [row_length]; exact haW) (by rw [row_one _ _ _ _ haW (by decide), ha]; rfl)
    cases xs with
    | nil =>
      simp only [detectAt]; rw [hfuel, ht, s1]; rcases lrParse_nil sugarTables (fun t : Token => t.kind) accLeaf accAct _ _ _ with h | h <;> rw [h]
    | cons b xs =>
      by_cases hb : b.kind = Tok.NV_ID
      rotate_left
      · have : detectAt d (a :: b :: xs) = none := by
          unfold detectAt
          rw [hfuel, ht, s1, step_err _ _ _ _ _ _ _ _ _ _ _ tab1 (row_one_err _ _ _ (by decide) hb)]
        rw [this]
        rcases xs with _ | ⟨c, _ | ⟨e, rest⟩⟩ <;> simp [hb]
      have hbW : b.kind < W := by rw [hb]; decide
      have s2 := fun f (xs : List Token) vs => step_reduce sugarTables (fun t : Token => t.kind) accLeaf accAct f b xs 1 [0] vs _
        0 0 1 0 [] 2 tab1 (by rw [row_length]; exact hbW) (by rw [row_one _ _ _ _ hbW (by decide), hb]; rfl)
      have s3 := fun f (xs : List Token) sr vs => step_shift sugarTables (fun t : Token => t.kind) accLeaf accAct f b xs 2 sr vs _ 4 tab2
        (by rw [row_length]; exact hbW) (by rw [row_one _ _ _ _ hbW (by decide), hb]; rfl)
      cases xs with
      | nil =>
        simp only [detectAt]; rw [hfuel, ht, s1, s2 _ _ _ (by simp) rfl rfl, s3]; rcases lrParse_nil sugarTables (fun t : Token => t.kind) accLeaf accAct _ _ _ with h | h <;> rw [h]
      | cons c xs =>
        by_cases hc : c.kind = Tok.INT
        rotate_left
        · have : detectAt d (a :: b :: c :: xs) = none := by
            unfold detectAt
            rw [hfuel, ht, s1, s2 _ _ _ (by simp) rfl rfl, s3,
              step_err _ _ _ _ _ _ _ _ _ _ _ tab4 (row_one_err _ _ _ (by decide) hc)]
          rw [this]
          rcases xs with _ | ⟨e, rest⟩ <;> simp [hc]
        have hcW : c.kind < W := by rw [hc]; decide
        have s4 := fun f (xs : List Token) sr vs => step_shift sugarTables (fun t : Token => t.kind) accLeaf accAct f c xs 4 sr vs _ 5 tab4
          (by rw [row_length]; exact hcW) (by rw [row_one _ _ _ _ hcW (by decide), hc]; rfl)
        cases xs with
        | nil =>
          simp only [detectAt]; rw [hfuel, ht, s1, s2 _ _ _ (by simp) rfl rfl, s3, s4]; rcases lrParse_nil sugarTables (fun t : Token => t.kind) accLeaf accAct _ _ _ with h | h <;> rw [h]
        | cons e rest =>
          by_cases he : e.kind ≤ Tok.WITH
          · rw [detectAt_hit d ht a b c e rest ha hb hc he]
            simp only [ha, hb, hc, he, and_self, if_true]
          · have : detectAt d (a :: b :: c :: e :: rest) = none := by
              unfold detectAt
              rw [hfuel, ht, s1, s2 _ _ _ (by simp) rfl rfl, s3, s4,
                step_err _ _ _ _ _ _ _ _ _ _ _ tab5 (Or.inl (by rw [row_length]; simp only [W, Tok.WITH] at *; omega))]
            rw [this]; simp [he]

end Theo.Sugar
