/-
  C04 (static rules): assembly.  The parts:
    StaticGS    — primitives of the generator state, label / mark bookkeeping
    StaticEq    — the dispatch functions as equations over named pieces
    StaticInv   — what every dispatch preserves (`Step`), for arbitrary trees
    StaticChar  — verdict of values / statements / parameter lists, on the tree
    StaticTop   — program definitions, the whole tree, backpatching, `gen`
    StaticSrc   — the rules on the tree are the rules on the typed source
    StaticParse — error-free parses have the shape `AstShape`
-/
import Theo.Proofs.StaticSrc
import Theo.Proofs.StaticParse

namespace Theo
namespace Static

/-- for trees of the parser's shape, the generator records no error iff the static rules hold
    (whatever list of — ignored — syntax errors the AST value carries, as long as it is flagged ok) -/
theorem static_iff (errs : List SynErr) (root : Node) (hs : AstShape root = true) :
    (gen ⟨true, errs, root⟩).errors = [] ↔ staticOK (toSource root) = true := by
  rw [gen_errors_iff errs root hs, topOK_static root hs]

/-- the generator state of an AST flagged incorrect: the syntax errors are taken over -/
def badStart (errs : List SynErr) : GS :=
  { gs1 with errors := gs1.errors ++ errs.map (fun e => ⟨GErrT.PARSE_ERROR, e.file, e.line⟩) }

theorem gen_errors_eq_bad (errs : List SynErr) (root : Node) :
    (gen ⟨false, errs, root⟩).errors =
      (backpatch ((fixHead ((badStart errs).popSymbols 0)).emit .halt)).errors := rfl

/-- an AST flagged incorrect is rejected as soon as it carries an error -/
theorem gen_rejects_bad (errs : List SynErr) (root : Node) (h : (gen ⟨false, errs, root⟩).errors = []) :
    errs = [] := by
  rw [gen_errors_eq_bad] at h
  have h1 := backpatch_mono _ h
  rw [emit_errors, (fixHead_spec _).1] at h1
  have h2 := ((popSymbols_spec _ 0).errs.1 h1).1
  have h3 : errs.map (fun e => (⟨GErrT.PARSE_ERROR, e.file, e.line⟩ : GErr)) = [] := by
    have : (badStart errs).errors = errs.map (fun e => (⟨GErrT.PARSE_ERROR, e.file, e.line⟩ : GErr)) := rfl
    rw [← this]; exact h2
  exact List.map_eq_nil_iff.1 h3

/-- the literal rule in plain words -/
theorem rangeOK_iff (n : Nat) : genRangeBad n = false ↔ n < 2147483647 := by
  unfold genRangeBad
  have h1 : ConstGen.genGuardRejectsMax = true := rfl
  simp only [h1, if_true]
  unfold INT_MAX
  simp
  omega

end Static
end Theo
