/-
  Converse of C12/C13, part 5: an LR(1) grammar (Knuth) has conflict-free canonical LR(1) tables —
  generically, and the side conditions (closed, reduced, no duplicate productions, no end marker
  in the rules) for the macro detector grammar.
-/
import Theo.Proofs.LRConverseTable
import Theo.Proofs.DetectorProofs

namespace Theo
namespace LRConverse
open LRSound LRComplete FirstProofs

/-- every state of the collection is free of clashes when the augmented grammar is LR(1) -/
theorem state_noClash (g : Grammar) (start eof : Nat) (pm : Bool) (fuel : Nat)
    (hg : g.Closed) (hs : start < g.numNT) (heof : eof ∉ g.terminals) (hnd : g.NoDupAlts)
    (hp : g.Productive) (hk : KnuthLR1 (g.augment start eof) g.numNT eof pm)
    (q : Nat) (st : LRState)
    (hq : (collection (g.augment start eof) (firstSets (g.augment start eof)) g.numNT eof fuel)[q]? = some st) :
    NoClash (g.augment start eof) pm eof st ∧ st.items.Nodup := by
  obtain ⟨γ, hγ⟩ := collection_reached _ _ _ _ _ q st hq
  have hv := reached_valid g start eof hg hs hp hγ
  refine ⟨⟨?_, ?_⟩, reached_nodup (nodup_hull _ _ _ (by simp)) hγ⟩
  · intro c j it hj hit hd hacts
    have hb := collection_transBef _ _ _ _ _ q st hq (Sym.t c, j) hj
    obtain ⟨it1, hit1, ha⟩ := mem_befores_inv _ _ _ hb
    exact no_shift_reduce pm hg hs heof hp hk (hv it1 hit1) (hv it hit) ha hd hacts
  · intro it1 it2 c h1 h2 hne hd1 hd2 ha1 ha2
    exact no_reduce_reduce pm hg hs heof hnd hk (hv it1 h1) (hv it2 h2) hne hd1 hd2 ha1 ha2

/-- **LR(1) ⇒ no conflict.**  If the augmented grammar satisfies Knuth's LR(1) condition (with the
    lookahead reading of the chosen mode), the canonical LR(1) construction reports no conflict —
    whatever the state budget. -/
theorem knuth_no_conflicts (g : Grammar) (start eof : Nat) (pm : Bool) (fuel : Nat)
    (hg : g.Closed) (hs : start < g.numNT) (heof : eof ∉ g.terminals) (hnd : g.NoDupAlts)
    (hp : g.Productive) (hk : KnuthLR1 (g.augment start eof) g.numNT eof pm) :
    (genTables g start eof pm fuel).1.conflicts = [] :=
  genTables_quiet g start eof pm fuel (state_noClash g start eof pm fuel hg hs heof hnd hp hk)

/-! ## the detector grammar -/

open DetectorProofs

theorem fixedAlts_nodup : ∀ l, l < 7 → (fixedAlts l).Nodup := by decide

theorem det_noDupAlts (m : MacroDef) : (detectorGrammar m).NoDupAlts := by
  intro n
  rcases Nat.lt_or_ge n 7 with h | h
  · rw [det_alts_fixed m n h]; exact fixedAlts_nodup n h
  · rcases Nat.lt_or_ge n 8 with h' | h'
    · have : n = DetGen.macroNT := by simp [DetGen.macroNT]; omega
      rw [this, det_alts_macro]; simp
    · rw [det_alts_ge m n h']; simp

def stmt6T : Tree := .node 6 5 (.cons (.leaf 18) .nil)

theorem more_trees_valid (m : MacroDef) :
    stmtT.Valid (detectorGrammar m) ∧ stmt6T.Valid (detectorGrammar m) := by
  simp [stmtT, stmt6T, Tree.Valid, Forest.Valid, Forest.roots, Tree.root, det_alts_fixed, fixedAlts,
    fixedProds_eq]

/-- the detector grammar is reduced: every non-terminal derives a terminal string -/
theorem det_productive (m : MacroDef) : (detectorGrammar m).Productive := by
  intro n hn
  rw [det_numNT] at hn
  obtain ⟨h0, h1, h2, h3, _, h4, _⟩ := fixed_trees_valid m
  obtain ⟨h5, h6⟩ := more_trees_valid m
  have hcases : n = 0 ∨ n = 1 ∨ n = 2 ∨ n = 3 ∨ n = 4 ∨ n = 5 ∨ n = 6 ∨ n = 7 := by omega
  rcases hcases with rfl | rfl | rfl | rfl | rfl | rfl | rfl | rfl
  · exact ⟨_, idT, h0, rfl, rfl⟩
  · exact ⟨_, intT, h1, rfl, rfl⟩
  · exact ⟨_, valT, h2, rfl, rfl⟩
  · exact ⟨_, argsT, h3, rfl, rfl⟩
  · exact ⟨_, progT, h4, rfl, rfl⟩
  · exact ⟨_, stmtT, h5, rfl, rfl⟩
  · exact ⟨_, stmt6T, h6, rfl, rfl⟩
  · refine ⟨_, Tree.node DetGen.macroNT 0 (Forest.ofList (m.rule.map sample)), ⟨?_, ?_⟩, rfl, rfl⟩
    · rw [det_alts_macro, roots_ofList]
      simp [sample_root]
    · apply valid_ofList
      intro t ht
      obtain ⟨x, _, rfl⟩ := List.mem_map.mp ht
      exact sample_valid m x

/-- LR(1) detector grammar ⇒ the detector construction reports no conflict -/
theorem detector_no_conflicts (m : MacroDef) (hr : ∀ t ∈ m.rule, t.kind ≠ Tok.T_EOF) (fuel : Nat)
    (hk : KnuthLR1 ((detectorGrammar m).augment DetGen.macroNT Tok.T_EOF) (detectorGrammar m).numNT
      Tok.T_EOF true) :
    (genTables (detectorGrammar m) DetGen.macroNT Tok.T_EOF true fuel).1.conflicts = [] :=
  knuth_no_conflicts (detectorGrammar m) DetGen.macroNT Tok.T_EOF true fuel (det_closed m)
    (det_start_lt m) (det_eof_notin m hr) (det_noDupAlts m) (det_productive m) hk

end LRConverse
end Theo
