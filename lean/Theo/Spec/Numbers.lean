/-
  C14 — the documented number tokens, pinned (rule section of lexer.l at the pinned commit):
    int        0 | [1-9][0-9]*          (no leading zeros: `007` is three tokens)
    insertion  `$` int
    temporary  `#` int
  The regenerated rule table must contain exactly these patterns for the kinds INT, INSERTION and
  TEMP_VAL (`C14_number_rules_documented`, compared extensionally like the token-less rules).
-/
import Theo.Spec.Silent
import Theo.Generated.Tokens

namespace Theo

def documentedInt : Rx :=
  .alt (.cls [(48, 48)]) (.seq (.cls [(49, 57)]) (.star (.cls [(48, 57)])))

def documentedNumberRules : List (RxN × Nat) :=
  [(documentedInt.norm, Tok.INT),
   ((Rx.seq (.cls [(36, 36)]) documentedInt).norm, Tok.INSERTION),
   ((Rx.seq (.cls [(35, 35)]) documentedInt).norm, Tok.TEMP_VAL)]

end Theo
