/-
  C07 — stepping events.  Source side: which lines the reference semantics *visits*; bytecode
  side: which breakpoint sites an execution passes; and a validator for the placement of sites in
  compiler output for sources laid out one statement per line.
-/
import Theo.Spec.Shape

namespace Theo
open Sem

namespace Sem

def Stmt.pos : Stmt → Pos
  | .assign _ _ p => p
  | .mark _ p => p
  | .loop _ _ _ p => p
  | .while_ _ _ p => p
  | .goto _ p => p
  | .ifGoto _ _ _ p => p
  | .stop p => p

def Stmts.headPos : Stmts → Option Pos
  | .nil => none
  | .cons s _ => some s.pos

/-- the line visited by one step of the reference machine: a statement is visited when it starts;
    a mark (label, or the END keyword of a loop / program) is visited when control passes it,
    unless it shares its line with the statement it labels (then that statement's visit is the
    visit of the line).  Evaluation steps, deliveries and returns visit nothing. -/
def stepEvent (c : Config) : Option Pos :=
  match c.status, c.stack with
  | .running, fr :: _ =>
    match fr.ctrl, fr.focus with
    | .run, .cons (.mark _ p) ss => if ss.headPos = some p then none else some p
    | .run, .cons s _ => some s.pos
    | _, _ => none
  | _, _ => none

/-- visits of the first `n` steps -/
def visits (src : Source) : Nat → Config → List Pos
  | 0, _ => []
  | n + 1, c =>
    match c.status with
    | .running => (stepEvent c).toList ++ visits src n (step src c)
    | _ => []

/-- the configurations at which the visits happen (for the variable views at every stop) -/
def visitConfigs (src : Source) : Nat → Config → List Config
  | 0, _ => []
  | n + 1, c =>
    match c.status with
    | .running => (if (stepEvent c).isSome then [c] else []) ++ visitConfigs src n (step src c)
    | _ => []

end Sem

/-- the sites passed by the first `m` instructions, with the machine state right after each site
    (where a stepping run stops and the debugger is queried) -/
def sitesPassed (p : Program) : Nat → VM → List (BreakPoint × VM)
  | 0, _ => []
  | m + 1, vm =>
    match step vm with
    | .ok (vm', _) =>
      (match fetch vm.code vm.ip, p.lineAt vm.ip with
       | .ok .potBreak, some bp => [(bp, vm')]
       | .ok .brk, some bp => [(bp, vm')]
       | _, _ => []) ++ sitesPassed p m vm'
    | .error _ => []

/-! ### where the sites must be, for a source laid out one statement per line -/

/-- what was generated just before: its line, and whether it was a mark (a label may share the
    line of the statement it labels; two statements may not share a line) -/
abbrev Prev := Option (Pos × Bool)

def isMark : Stmt → Bool
  | .mark _ _ => true
  | _ => false

def markName : Stmt → Option Name
  | .mark m _ => some m
  | _ => none

/-- an expected site: position, line, and the mark it belongs to (if it is a mark's site) -/
abbrev ESite := Nat × Pos × Option Name

/-- the loop exit lands exactly behind the loop (`hi`), the back-edge (at `hi - 1`) exactly on
    `backTo`; `jc` is the position of the loop's JMPC -/
def loopJumpsExact (code : List Instr) (jc backTo hi : Nat) : Bool :=
  match code[jc]?, code[hi - 1]? with
  | some (.jmpc offE _), some (.jmp offL) =>
    decide ((jc : Int) + offE = (hi : Int)) && decide (((hi - 1 : Nat) : Int) + offL = (backTo : Int))
  | _, _ => false

mutual
/-- expected sites of a statement list that starts at `w.pc`: (position, line, mark) in code order.
    A site is emitted exactly when the line changes.  Walks with the shape validator, so the
    positions are those of the real code; `k` = number of sites already attributed at `w.pc`
    (marks emit a site but no code).  Fails (`none`) if two statements share a line, or if a loop's
    exit / back-edge does not land exactly where the layout puts it. -/
def sitesStmts (e : VEnv) : Stmts → Walk → Nat → Prev → Option (List ESite × Walk × Nat × Prev)
  | .nil, w, k, prev => some ([], w, k, prev)
  | .cons s ss, w, k, prev =>
    match sitesStmt e s w k prev with
    | some (l1, w1, k1, prev1) =>
      match sitesStmts e ss w1 k1 prev1 with
      | some (l2, w2, k2, prev2) => some (l1 ++ l2, w2, k2, prev2)
      | none => none
    | none => none
def sitesStmt (e : VEnv) : Stmt → Walk → Nat → Prev → Option (List ESite × Walk × Nat × Prev)
  | s, w, k, prev =>
    let same : Bool := match prev with | some (p, _) => p == s.pos | none => false
    let afterMark : Bool := match prev with | some (_, m) => m | none => false
    -- a statement on the line of the previous *statement*, or a mark on the line of anything before it
    if same && (!afterMark || isMark s) then none else
    let here : List ESite := if same then [] else [(w.pc + k, s.pos, markName s)]
    let k' := if same then k else k + 1
    match s with
    | .loop _ _ body _ =>
      -- [site] ADD ctr; JMPC; body; ADD ctr -1; JMP: back-edge to the JMPC, exit behind the JMP
      (match sitesStmts e body { w with pc := w.pc + k' + 2 } 0 (some (s.pos, false)), checkStmt e s w with
       | some (lb, _, _, _), some w' =>
         if loopJumpsExact e.code (w.pc + k' + 1) (w.pc + k' + 1) w'.pc then some (here ++ lb, w', 0, none) else none
       | _, _ => none)
    | .while_ _ body _ =>
      -- [site] L: ADD tmp; JMPC; body; JMP L: back-edge to the condition ADD (behind the header's site)
      (match sitesStmts e body { w with pc := w.pc + k' + 2 } 0 (some (s.pos, false)), checkStmt e s w with
       | some (lb, _, _, _), some w' =>
         if loopJumpsExact e.code (w.pc + k' + 1) (w.pc + k') w'.pc then some (here ++ lb, w', 0, none) else none
       | _, _ => none)
    | .mark _ _ =>
      (match checkStmt e s w with
       | some w' => some (here, w', k', some (s.pos, true))
       | none => none)
    | _ =>
      (match checkStmt e s w with
       | some w' => some (here, w', 0, some (s.pos, false))
       | none => none)
end

/-- every `goto` / `if … goto` of the body lands exactly on the site of its (unique) target mark -/
def jumpsExact (exp : List ESite) (w : Walk) : Bool :=
  w.gotos.all (fun g =>
    match exp.filter (fun x => x.2.2 == some g.2.2) with
    | [x] => decide ((g.1 : Int) + g.2.1 = (x.1 : Int))
    | _ => false)

/-- positions of all breakpoint sites in `[lo, hi)` -/
def sitePositions (code : List Instr) (lo hi : Nat) : List Nat :=
  (List.range (hi - lo)).filterMap (fun k => if code[lo + k]? = some Instr.potBreak then some (lo + k) else none)

def posOfBp (bp : BreakPoint) : Pos := (bp.file, bp.line)

/-- the sites of a code region are exactly the expected ones, with the expected lines -/
def regionSitesOK (p : Program) (expected : List ESite) (lo hi : Nat) : Bool :=
  (sitePositions p.code lo hi == expected.map (·.1)) &&
  expected.all (fun e => (p.lineAt (e.1 : Int)).map posOfBp == some e.2.1)

/-- routine by routine (same traversal as `checkProgs`): the header line of a PROGRAM has no site
    of its own (it is removed), the body's sites are the expected ones -/
def siteProgs (p : Program) (src : Source) : List ProgDef → Nat → List RInfo → Nat → Option (List RInfo × Nat)
  | [], _, infos, pc => some (infos, pc)
  | pd :: rest, i, infos, pc =>
    match p.code[pc]?, p.stackMaps[i]? with
    | some (.jmp _), some sm =>
      let ri : RInfo := ⟨pc + 1, i, sm.map⟩
      let e : VEnv := ⟨p.code, src, ri, i, infos⟩
      match sitesStmts e pd.body ⟨pc + 1, [], []⟩ 0 none with
      | some (exp, w, _, _) =>
        let after := skipc p.code w.pc + 1            -- behind the routine's RET
        if regionSitesOK p exp (pc + 1) after && jumpsExact exp w then siteProgs p src rest (i + 1) (infos ++ [ri]) after else none
      | none => none
    | _, _ => none

/-- `siteCheck src p`: in addition to `shapeCheck`, every site is where the one-statement-per-line
    layout puts it and names that statement's line; there are no other sites -/
def siteCheck (src : Source) (p : Program) : Bool :=
  shapeCheck src p &&
  (match siteProgs p src src.progs 0 [] 1 with
   | some (infos, pc) =>
     (match p.stackMaps[src.progs.length]? with
      | some sm =>
        let e : VEnv := ⟨p.code, src, ⟨0, src.progs.length, sm.map⟩, src.progs.length, infos⟩
        (match sitesStmts e src.main ⟨pc, [], []⟩ 0 none with
         | some (exp, w, _, _) => regionSitesOK p exp pc p.code.length && jumpsExact exp w && (sitePositions p.code 0 1).isEmpty
         | none => false)
      | none => false)
   | none => false)

end Theo
