/-
  C07 — the layout "one statement per line", as a decidable predicate on the parser's tree.

  `siteCheck` (Spec/Events.lean) validates the placement of breakpoint sites for sources laid out
  one statement per line.  `OneStmtPerLine root` says what that layout is, on the tree: it walks
  the tree in text order and keeps the *current line* — the position (file, line) of the last node
  that was looked at — and what was generated there last (nothing yet / a statement / a label).

  Statements are: assignment, LOOP / WHILE (their header: the position of the loop variable),
  GOTO, IF … THEN GOTO, STOP; labels are MARK nodes — user labels `l:` and the END keywords of
  loops and programs, which the parser turns into marks.

   1. A statement starts a new line: its position differs from the current line — unless the
      current line holds only a label (`l: x := 1` is one line).  In particular the first
      statement of a LOOP / WHILE body is not on the header's line and the END of a loop is not on
      the line of the last statement of its body.  (END is a label: `END; z := 2` on one line is
      accepted.  In a hand-made tree without the END mark, the statement behind a loop must not
      be on the line where the loop's body ended.)
   2. A label starts a new line, always (`a: b: x := 1` is refused, and so is `x := 1; l:`
      followed by the labelled statement on the same line as `x := 1`).
   3. At the start of a routine body (a PROGRAM body, the main statements) the first statement or
      label starts a new line: it is neither on the header's line nor — for the main statements —
      on the line where the last PROGRAM ended.  (The generator's initial position is the
      pseudo-position `- : -1`, which no token has.)
   4. Value nodes — the operand of an assignment, arguments of a call at any depth, the variable
      of a loop, the operands of IF — lie on the line of their statement: a statement does not
      span lines (as far as its value nodes are concerned: keywords carry no node).
   5. Nodes of the hidden standard-macro file (`__standards__`; the tokens the built-in
      `x + c` / `x - c` macros insert: the CALL node of `RUN __INC__ WITH x, c END`) are allowed as
      value nodes and sequencing nodes (the generator ignores their position) but not as
      statements or labels.
   6. The sequencing nodes (SPLIT) of the parser carry the position of their first statement; the
      predicate asks for that: a SPLIT node is on the current line, or on the line of its left
      child (or in the standard file).  The PROGRAM node is where its SPLIT node is (or the SPLIT
      on the current line).  No condition on the PROGRAM header beyond 3: parameters and OUT are
      not looked at, and a header may share its line with the END of the previous definition.

  Each clause is needed: see the witnesses in Props/C07Compile.lean (trees of accepted sources
  that violate one clause and whose code `siteCheck` refuses).
-/
import Theo.Spec.Semantics

namespace Theo
open Sem

/-- what was generated last on the current line -/
inductive LKind where
  | fresh      -- nothing yet in this routine body / a loop was closed
  | stmt       -- a statement (or a loop header)
  | mark       -- a label
  deriving DecidableEq, Repr, Inhabited

/-- the current line, and what it holds -/
structure LSt where
  file : Bytes
  line : Int
  kind : LKind
  deriving DecidableEq, Repr, Inhabited

namespace Layout

def isStd (file : Bytes) : Bool := decide (file = ConstGen.genStdFileName)

/-- node position `(f, ln)` is the current line `(cf, cl)`, or lies in the standard file -/
def onLine (cf : Bytes) (cl : Int) (f : Bytes) (ln : Int) : Bool :=
  isStd f || (decide (f = cf) && decide (ln = cl))

/-- clause 4: a value (`args = false`) or an argument list (`args = true`, SPLIT nodes are
    transparent) lies on the line `(cf, cl)` -/
def valLay (cf : Bytes) (cl : Int) : Bool → Node → Bool
  | _, .nil => true
  | args, .mk t _ f ln l r =>
    if args ∧ t = NodeT.SPLIT then valLay cf cl true l && valLay cf cl true r
    else onLine cf cl f ln && (if t = NodeT.CALL then valLay cf cl true r else true)

def nodeIsNil : Node → Bool
  | .nil => true
  | _ => false

/-- clause 6 -/
def splitOK (s : LSt) (f : Bytes) (ln : Int) (l : Node) : Bool :=
  onLine s.file s.line f ln || (!nodeIsNil l && decide (l.file = f) && decide (l.line = ln))

/-- the walk over a statement tree (no PROGRAM definitions); `none` = the layout is violated -/
def stmtLay : Node → LSt → Option LSt
  | .nil, s => some s
  | .mk t _ f ln l r, s =>
    if t = NodeT.SPLIT then
      if splitOK s f ln l then
        match stmtLay l s with
        | some s1 => stmtLay r s1
        | none => none
      else none
    else if isStd f then none
    else
      let same : Bool := decide (f = s.file) && decide (ln = s.line)
      -- clauses 1, 2, 3
      if same && !(s.kind = LKind.mark && t != NodeT.MARK) then none
      else if t = NodeT.ASSIGN then
        if valLay f ln false r then some ⟨f, ln, .stmt⟩ else none
      else if t = NodeT.LOOP ∨ t = NodeT.WHILE then
        if valLay f ln false l then
          match stmtLay r ⟨f, ln, .stmt⟩ with
          | some s1 => some ⟨s1.file, s1.line, .fresh⟩
          | none => none
        else none
      else if t = NodeT.IF then
        if valLay f ln false l.left && valLay f ln false l.right then some ⟨f, ln, .stmt⟩ else none
      else if t = NodeT.MARK then some ⟨f, ln, .mark⟩
      else some ⟨f, ln, .stmt⟩

/-- the whole tree: the definitions `SPLIT (PROGRAM hdr body) rest` in text order, then the main
    statements -/
def topLay : Node → LSt → Bool
  | .nil, _ => true
  | .mk t tok f ln l r, s =>
    if t = NodeT.SPLIT ∧ l.ty = NodeT.PROGRAM then
      splitOK s f ln l &&
      (let s1 : LSt := if isStd l.file then ⟨s.file, s.line, .fresh⟩ else ⟨l.file, l.line, .fresh⟩
       match stmtLay l.right s1 with
       | some s2 => topLay r ⟨s2.file, s2.line, .fresh⟩
       | none => false)
    else (stmtLay (.mk t tok f ln l r) s).isSome

end Layout

/-- the tree is laid out one statement per line (see the header of this file) -/
def OneStmtPerLine (root : Node) : Bool :=
  Layout.topLay root ⟨ConstGen.rootFsName, ConstGen.rootFsLine, .fresh⟩

end Theo
