/-
  Knuth's LR(1) condition (D. E. Knuth, "On the translation of languages from left to right",
  1965) for the grammars of the parser-generator model: rightmost derivations on sentential
  forms and "the handle of a right sentential form is determined by the string to its left and
  one terminal of lookahead".  Nothing here mentions items, states or tables.
-/
import Theo.Spec.CFG

namespace Theo

/-- a terminal string read as a sentential form -/
def tsyms (w : List Nat) : List Sym := w.map Sym.t

/-- one rightmost derivation step `α A w ⇒rm α β w`: the replaced non-terminal `A` is followed by
    terminals only; `β` is alternative `k` of `A` -/
inductive RStep (g : Grammar) : List Sym → List Sym → Prop where
  | mk (α : List Sym) (A k : Nat) (β : List Sym) (w : List Nat) :
      (g.alts A)[k]? = some β → RStep g (α ++ Sym.n A :: tsyms w) (α ++ β ++ tsyms w)

/-- `α ⇒*rm β`: reflexive-transitive closure of `RStep` -/
inductive RDerives (g : Grammar) : List Sym → List Sym → Prop where
  | refl {α : List Sym} : RDerives g α α
  | tail {α β γ : List Sym} : RDerives g α β → RStep g β γ → RDerives g α γ

/-- Two right contexts `w`, `y` (terminal strings, the rest of the input after a handle) cannot
    be told apart by one token of lookahead.

    * Full mode (`pm = false`): the input is a sentence followed by the end marker `eof`, so the
      lookahead of `w` is the first symbol of `w·eof`; the contexts agree iff
      `FIRST₁(w·eof) = FIRST₁(y·eof)`.  This is Knuth's condition verbatim (k = 1).
    * Prefix mode (`pm = true`): the parser recognises a sentence as a *prefix* of the input; what
      follows the sentence is an arbitrary token, not an end marker.  (In the model,
      `genTables … true …` places the action of an item whose lookahead is the end marker on
      *every* column: "any token ends the prefix".)  So the lookahead of an exhausted context
      `w = []` is "any token", and the contexts agree iff there is a next input token `c`
      compatible with both: `w` is empty or starts with `c`, and `y` is empty or starts with `c`.
      Spelled out without the token: one of them is empty, or they start with the same token. -/
def LACompat (pm : Bool) (eof : Nat) (w y : List Nat) : Prop :=
  if pm then w = [] ∨ y = [] ∨ w.head? = y.head?
  else (w ++ [eof]).head? = (y ++ [eof]).head?

/-- Knuth's LR(1) condition for a grammar `g` with (augmented) start symbol `S'`:

    whenever `S' ⇒*rm α A w ⇒rm α β w` and `S' ⇒*rm γ B x ⇒rm γ ρ x = α β y`
    (`w`, `x`, `y` terminal strings) and the lookaheads of `w` and `y` agree (`LACompat`),
    then `α A y = γ B x`, i.e. `α = γ`, `A = B`, `x = y`.

    In words: reading a right sentential form from the left, the position of the handle and the
    non-terminal it reduces to are determined by the symbols up to the end of the handle and one
    token of lookahead.  The end marker is not part of the sentential forms; it only enters
    through `LACompat` (see there for the prefix-mode reading of the lookahead). -/
def KnuthLR1 (g : Grammar) (S' eof : Nat) (pm : Bool) : Prop :=
  ∀ (α β γ ρ : List Sym) (A kA B kB : Nat) (w x y : List Nat),
    RDerives g [.n S'] (α ++ Sym.n A :: tsyms w) → (g.alts A)[kA]? = some β →
    RDerives g [.n S'] (γ ++ Sym.n B :: tsyms x) → (g.alts B)[kB]? = some ρ →
    γ ++ ρ ++ tsyms x = α ++ β ++ tsyms y →
    LACompat pm eof w y →
    α = γ ∧ A = B ∧ x = y

/-- every non-terminal of the grammar derives some terminal string (the grammar is *reduced* in
    the sense needed for LR theory: no useless non-terminal can sit after a dot) -/
def Grammar.Productive (g : Grammar) : Prop := ∀ n, n < g.numNT → ∃ w, Derives g (.n n) w

/-- no non-terminal lists the same right-hand side twice (two copies of one production are two
    different handles spelling the same string: such a grammar is ambiguous, but the string-level
    condition `KnuthLR1` cannot see it) -/
def Grammar.NoDupAlts (g : Grammar) : Prop := ∀ n, (g.alts n).Nodup

end Theo
