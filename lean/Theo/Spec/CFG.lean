/-
  Context-free derivations for the parser-generator properties (C13, and through the detector
  grammar C09 / C12): derivation trees over a `Grammar`, their yields and folds, and the textbook
  definition of FIRST.  Nothing here mentions items, states or tables.
-/
import Theo.Model.LR

namespace Theo

mutual
/-- derivation trees: a terminal leaf, or rule `alt` of non-terminal `lhs` applied to subtrees -/
inductive Tree where
  | leaf (t : Nat)
  | node (lhs alt : Nat) (cs : Forest)
inductive Forest where
  | nil
  | cons (t : Tree) (f : Forest)
end

def Tree.root : Tree → Sym
  | .leaf t => .t t
  | .node l _ _ => .n l

mutual
def Tree.yield : Tree → List Nat
  | .leaf t => [t]
  | .node _ _ cs => cs.yield
def Forest.yield : Forest → List Nat
  | .nil => []
  | .cons t f => t.yield ++ f.yield
end

def Forest.roots : Forest → List Sym
  | .nil => []
  | .cons t f => t.root :: f.roots

def Forest.toList : Forest → List Tree
  | .nil => []
  | .cons t f => t :: f.toList

def Forest.ofList : List Tree → Forest
  | [] => .nil
  | t :: ts => .cons t (Forest.ofList ts)

mutual
/-- the tree uses only rules of `g`: the children of a node spell the chosen right-hand side -/
def Tree.Valid (g : Grammar) : Tree → Prop
  | .leaf _ => True
  | .node l a cs => (g.alts l)[a]? = some cs.roots ∧ cs.Valid g
def Forest.Valid (g : Grammar) : Forest → Prop
  | .nil => True
  | .cons t f => t.Valid g ∧ f.Valid g
end

mutual
/-- the fold of a tree: each rule's action applied once to the values of its right-hand side,
    passed *last symbol first* (as the C++ driver passes `popped`) -/
def Tree.fold {V : Type} (leaf : Nat → V) (act : Nat → Nat → List V → V) : Tree → V
  | .leaf t => leaf t
  | .node l a cs => act l a (cs.foldRev leaf act)
/-- values of a forest, last tree first -/
def Forest.foldRev {V : Type} (leaf : Nat → V) (act : Nat → Nat → List V → V) : Forest → List V
  | .nil => []
  | .cons t f => f.foldRev leaf act ++ [t.fold leaf act]
end

/-- `X` derives the terminal string `w` in `g` -/
def Derives (g : Grammar) (X : Sym) (w : List Nat) : Prop :=
  ∃ t : Tree, t.Valid g ∧ t.root = X ∧ t.yield = w

/-- derivation between sentential forms, `α ⇒* β`: replace one non-terminal occurrence by one of
    its right-hand sides, any number of times -/
inductive SDerives (g : Grammar) : List Sym → List Sym → Prop where
  | refl (α : List Sym) : SDerives g α α
  | step {pre post rhs β : List Sym} {n k : Nat} :
      (g.alts n)[k]? = some rhs → SDerives g (pre ++ rhs ++ post) β → SDerives g (pre ++ Sym.n n :: post) β

/-- textbook FIRST: the terminals `a` with `n ⇒* a β` for some sentential form `β` -/
def First (g : Grammar) (n : Nat) (a : Nat) : Prop := ∃ β, SDerives g [.n n] (.t a :: β)

/-- textbook nullability: `n ⇒* ε` -/
def Nullable (g : Grammar) (n : Nat) : Prop := SDerives g [.n n] []

/-- the grammar mentions only its own non-terminals and has no explicit ε symbols
    (`SemanticGrammar::add` strips them; non-terminals come from `createNonTerminal`) -/
def Grammar.Closed (g : Grammar) : Prop :=
  ∀ e ∈ g.prods, e.1 < g.numNT ∧ ∀ a ∈ e.2, ∀ s ∈ a, s ≠ .eps ∧ ∀ k, s = .n k → k < g.numNT

def Grammar.closedB (g : Grammar) : Bool :=
  g.prods.all (fun e => decide (e.1 < g.numNT) && e.2.all (fun a => a.all (fun s =>
    match s with | .eps => false | .t _ => true | .n k => decide (k < g.numNT))))

/-- the driver run with trees as semantic values -/
def lrParseTree (T : Tables) (fuel : Nat) (inp : List Nat) : ParseOut Tree :=
  lrParse T (fun (t : Nat) => t) Tree.leaf (fun l a popped => Tree.node l a (Forest.ofList popped.reverse))
    fuel inp [0] []

end Theo
