/-
  Specification-side definitions for the VM / debugger properties
  (C05, C06, C17, C19, C20).  Nothing here mentions registers allocation or the
  compiler: these are statements about the machine and its tables only.
-/
import Theo.Model.VM

namespace Theo

/-! ### C19: frames tile the data memory -/

/-- frames contiguous, in call order (stack head = top activation) -/
def Tiles : List Act → Nat → Prop
  | [], n => n = 0
  | a :: below, n => 0 ≤ a.segSize ∧ a.dataStart + a.segSize.toNat = n ∧ Tiles below a.dataStart

/-- every `PREPARE` of the loaded program asks for a non-negative number of words -/
def NonNegPrepare (code : List Instr) : Prop :=
  ∀ c i t, Instr.prepare c i t ∈ code → 0 ≤ c

/-! ### C20: stored values are natural numbers of the word range -/

def ConstOK (code : List Instr) : Prop :=
  ∀ t c, Instr.const t c ∈ code → 0 ≤ c ∧ c ≤ INT_MAX

def InRange (w : Int) : Prop := 0 ≤ w ∧ w ≤ INT_MAX

/-! ### break opcodes: what may differ between the loaded and the live code -/

/-- both break opcodes are the same instruction as far as the computation goes -/
def Instr.erase : Instr → Instr
  | .brk => .potBreak
  | i => i

/-- every listed site is inside the code and holds `POTENTIAL_BREAK`; the loaded
    program has no `BREAK` -/
def SitesOK (p : Program) : Prop :=
  (∀ e ∈ p.potBreaks, ∀ i ∈ e.2, 0 ≤ i ∧ p.code[i.toNat]? = some Instr.potBreak) ∧
  (Instr.brk ∉ p.code)

/-- executable version of `SitesOK` -/
def sitesOKb (p : Program) : Bool :=
  p.potBreaks.all (fun e => e.2.all (fun i => decide (0 ≤ i) && (p.code[i.toNat]? == some Instr.potBreak))) &&
  !(p.code.contains Instr.brk)

/-! ### C05: the uninterrupted computation -/

/-- what the computation consists of: instruction pointer, data words, activations -/
structure Core where
  ip : Int
  data : List Int
  stack : List Act
  deriving Repr, DecidableEq, Inhabited

def VM.core (vm : VM) : Core := ⟨vm.ip, vm.data, vm.stack⟩

def coreInit : Core := ⟨0, [], []⟩

/-- one instruction of the *loaded, immutable* program, with both break opcodes
    reduced to "advance" and `HALT` a fixed point.  Defined through `step` on a
    machine whose code is the loaded program and whose debugger state is blank. -/
def coreStep (p : Program) (c : Core) : Except Fault Core :=
  (step { stepping := false, ip := c.ip, code := p.code, data := c.data, stack := c.stack, enabled := [] }).map
    (fun r => r.1.core)

/-- `n` instructions of the uninterrupted run -/
def coreIter (p : Program) : Nat → Core → Except Fault Core
  | 0, c => .ok c
  | n + 1, c => (coreStep p c).bind (coreIter p n)

/-- the point reached by the uninterrupted run after `n` instructions is `c` -/
def OnPath (p : Program) (c : Core) : Prop := ∃ n, coreIter p n coreInit = .ok c

/-! ### C06: where the debugger stops -/

/-- a site instruction at `i` whose line is currently enabled -/
def enabledSite (p : Program) (enabled : List BreakPoint) (i : Int) : Prop :=
  ∃ bp, p.lineAt i = some bp ∧ bp ∈ enabled

/-- tables are mutually inverse, sites are exactly the break instructions (C08's clause,
    as needed by the debugger theorems) -/
def TablesInverse (p : Program) : Prop :=
  (∀ bp i, (∃ sites, p.sitesOf bp = some sites ∧ i ∈ sites) ↔ p.lineAt i = some bp) ∧
  (∀ i : Nat, (∃ bp, p.lineAt (i : Int) = some bp) ↔ p.code[i]? = some Instr.potBreak) ∧
  (∀ i bp, p.lineAt i = some bp → 0 ≤ i)

/-- the bookkeeping the property demands of the enabled set: successful enables minus
    disables, emptied by clear and reset -/
def bookkeeping (p : Program) (en : List BreakPoint) : Call → List BreakPoint
  | .bp b true => if (p.sitesOf b).isSome then sortedInsert BreakPoint.lt false b en else en
  | .bp b false => if (p.sitesOf b).isSome then sortedErase BreakPoint.lt b en else en
  | .clear => []
  | .reset => []
  | _ => en

end Theo
