/-
  C14 — the documented spellings of the keywords, operators and macro slots (the language
  documentation is the rule section of lexer.l at the pinned commit).  Hand-written and pinned:
  this is the SPECIFICATION the regenerated table of `Theo/Generated/LexRules.lean` is compared
  with, so that a change of the scanner specification that adds, drops or re-kinds a spelling
  breaks a proof obligation (`C14_keywords_documented`).
-/
import Theo.Generated.Tokens
import Theo.Model.Basic

namespace Theo

/-- token kind ↦ its documented spellings -/
def documentedSpellings : List (Nat × List String) := [
  (Tok.PAREN_CLOSE, [")"]),
  (Tok.PAREN_OPEN, ["("]),
  (Tok.ARGSEP, [","]),
  (Tok.PROGSEP, [";"]),
  (Tok.LABELDEC, [":"]),
  (Tok.ASSIGN, [":="]),
  (Tok.NEQ_ZERO, ["!= 0"]),
  (Tok.EQ, ["="]),
  (Tok.DO, ["DO", "do", "Do"]),
  (Tok.LOOP, ["LOOP", "Loop", "loop"]),
  (Tok.WHILE, ["WHILE", "While", "while"]),
  (Tok.GOTO, ["GOTO", "Goto", "goto"]),
  (Tok.IF, ["IF", "If", "if"]),
  (Tok.THEN, ["THEN", "Then", "then"]),
  (Tok.STOP, ["STOP", "Stop", "stop"]),
  (Tok.END, ["END", "End", "end"]),
  (Tok.PROGRAM, ["PROGRAM", "Program", "program", "PROG", "Prog", "prog"]),
  (Tok.IN, ["IN", "In", "in"]),
  (Tok.OUT, ["OUT", "Out", "out"]),
  (Tok.INCLUDE, ["INCLUDE", "Include", "include"]),
  (Tok.DEFINE, ["DEFINE", "Define", "Def", "define", "def"]),
  (Tok.AS, ["AS", "As", "as"]),
  (Tok.PRIORITY, ["PRIORITY", "Priority", "priority", "PRIO", "Prio", "prio"]),
  (Tok.END_DEFINE, ["END DEFINE", "End Define", "end define", "ENDDEF", "Enddef", "enddef"]),
  (Tok.PROG_TEMP, ["<PROGRAM>", "<Program>", "<program>", "<PROG>", "<Prog>", "<prog>", "<P>", "<p>"]),
  (Tok.VALUE_TEMP, ["<VALUE>", "<Value>", "<value>", "<VAL>", "<Val>", "<val>", "<V>", "<v>"]),
  (Tok.ID_TEMP, ["<ID>", "<id>"]),
  (Tok.INT_TEMP, ["<INT>", "<Int>", "<int>"]),
  (Tok.ARGS_TEMP, ["<ARGS>", "<Args>", "<args>", "<A>", "<a>"]),
  (Tok.RUN, ["RUN", "Run", "run"]),
  (Tok.WITH, ["WITH", "With", "with"])
]

/-- the documented (spelling, kind) table -/
def documentedKeywords : List (Bytes × Nat) :=
  documentedSpellings.flatMap (fun e => e.2.map (fun s => (s.toList.map (fun c => c.toNat.toUInt8), e.1)))

end Theo
