/-
  The documented LL(1) grammar of the language (header comment of parse.cpp, with the `!= 0`
  token after `while id` that the comment omits), as a `Grammar` over token kinds, so that
  "sentence of the grammar" is `Derives langGrammar (.n LangNT.S) kinds` (Spec/CFG.lean).
-/
import Theo.Spec.CFG
import Theo.Model.Parse

namespace Theo

namespace LangNT
def S : Nat := 0
def PORTS : Nat := 1
def OPORTS : Nat := 2
def ARGS : Nat := 3
def MARGS : Nat := 4
def P : Nat := 5
def PID : Nat := 6
def MOREP : Nat := 7
def VALUE : Nat := 8
def VARGS : Nat := 9
def MVARGS : Nat := 10
end LangNT

open LangNT in
/-- the productions, in the order of the header comment -/
def langRules : List (Nat × List Sym) := [
  (S, [.t Tok.PROGRAM, .t Tok.ID, .n PORTS, .t Tok.DO, .n P, .t Tok.END, .n S]),
  (S, [.n P]),
  (PORTS, [.t Tok.IN, .n ARGS, .n OPORTS]),
  (PORTS, []),
  (OPORTS, [.t Tok.OUT, .t Tok.ID]),
  (OPORTS, []),
  (ARGS, [.t Tok.ID, .n MARGS]),
  (MARGS, [.t Tok.ARGSEP, .n ARGS]),
  (MARGS, []),
  (P, [.t Tok.ID, .n PID]),
  (PID, [.t Tok.ASSIGN, .n VALUE, .n MOREP]),
  (PID, [.t Tok.LABELDEC, .n P, .n MOREP]),
  (P, [.t Tok.LOOP, .t Tok.ID, .t Tok.DO, .n P, .t Tok.END, .n MOREP]),
  (P, [.t Tok.WHILE, .t Tok.ID, .t Tok.NEQ_ZERO, .t Tok.DO, .n P, .t Tok.END, .n MOREP]),
  (P, [.t Tok.GOTO, .t Tok.ID, .n MOREP]),
  (P, [.t Tok.IF, .t Tok.ID, .t Tok.EQ, .t Tok.INT, .t Tok.THEN, .t Tok.GOTO, .t Tok.ID, .n MOREP]),
  (P, [.t Tok.STOP, .n MOREP]),
  (MOREP, [.t Tok.PROGSEP, .n P]),
  (MOREP, []),
  (VALUE, [.t Tok.ID]),
  (VALUE, [.t Tok.INT]),
  (VALUE, [.t Tok.RUN, .t Tok.ID, .t Tok.WITH, .n VARGS, .t Tok.END]),
  (VARGS, []),
  (VARGS, [.n VALUE, .n MVARGS]),
  (MVARGS, [.t Tok.ARGSEP, .n VALUE, .n MVARGS]),
  (MVARGS, [])]

def langGrammar : Grammar := Grammar.ofRules 11 langRules

/-- the token kinds of a stream without its final end-of-file token -/
def bodyKinds (ts : List Token) : List Nat := (ts.dropLast).map (·.kind)

/-- a stream as the scanner produces it: exactly one end-of-file token, at the end -/
def EndMarked (ts : List Token) : Prop :=
  ∃ body eof, ts = body ++ [eof] ∧ eof.kind = Tok.T_EOF ∧ ∀ t ∈ body, t.kind ≠ Tok.T_EOF

end Theo
