/-
  Specification of the built-in sugar (C04): what the macro stage does to a source that defines
  no macro of its own.

  The hidden standard-macro file (`ConstGen.stdFileName`, text `ConstGen.stdMacroText`) defines

      DEFINE PRIO 1000000 <ID> + <INT> AS RUN __INC__ WITH $0, $1 END END DEFINE      (line 1)
      DEFINE PRIO 1000000 <ID> - <INT> AS RUN __DEC__ WITH $0, $1 END END DEFINE      (line 2)

  so every occurrence of the three consecutive tokens  ID '+' INT  /  ID '-' INT  becomes a call
  of `__INC__` / `__DEC__`.  This file says so without mentioning macros, detectors or passes;
  `Theo/Props/C04Sugar.lean` proves that the macro stage of the model computes exactly this.
-/
import Theo.Model.Lexer
import Theo.Generated.Consts

namespace Theo
namespace Sugar

/-- the texts of the two operator tokens (both are of kind `NV_ID`: "any other character") -/
def plus : Bytes := [43]
def minus : Bytes := [45]

/-- `__INC__`, `__DEC__` -/
def incName : Bytes := [95, 95, 73, 78, 67, 95, 95]
def decName : Bytes := [95, 95, 68, 69, 67, 95, 95]

/-- a token of the hidden standard-macro file: the inserted keywords are positioned where the macro
    body stands in that file -/
def stdTok (kind : Nat) (text : Bytes) (line : Int) : Token := ⟨kind, text, ConstGen.stdFileName, line⟩

/-- `RUN name WITH id , int END`: the five inserted tokens carry the position `(standards file,
    line)` of the macro body; `id` and `int` are the source's own tokens, positions included -/
def call (name : Bytes) (line : Int) (id int : Token) : List Token :=
  [stdTok Tok.RUN [82, 85, 78] line, stdTok Tok.ID name line, stdTok Tok.WITH [87, 73, 84, 72] line,
   id, stdTok Tok.ARGSEP [44] line, int, stdTok Tok.END [69, 78, 68] line]

/-- the call replacing the three tokens `id op int`, if they are an occurrence of the sugar:
    an identifier, the one-character token `+` or `-`, an integer literal -/
def sugarCall (id op int : Token) : Option (List Token) :=
  if id.kind = Tok.ID ∧ op.kind = Tok.NV_ID ∧ int.kind = Tok.INT then
    if op.text = plus then some (call incName 1 id int)
    else if op.text = minus then some (call decName 2 id int)
    else none
  else none

/-- the sugar: one pass from left to right; every occurrence of `ID + INT` / `ID - INT` is replaced
    by the call, and the pass continues *behind* the occurrence.  (This is the same as rewriting the
    leftmost occurrence again and again, `C04_desugar_eq_iterate` in Props/C04Sugar.lean: a call neither
    contains an occurrence nor completes one with its neighbours — in `a + 1 + 2` only `a + 1` is
    sugar, the result `RUN __INC__ WITH a , 1 END + 2` is left alone.) -/
def desugar : List Token → List Token
  | a :: b :: c :: rest =>
    match sugarCall a b c with
    | some cl => cl ++ desugar rest
    | none => a :: desugar (b :: c :: rest)
  | a :: tl => a :: desugar tl
  | [] => []

/-- the number of occurrences replaced by `desugar` -/
def sugarCount : List Token → Nat
  | a :: b :: c :: rest =>
    match sugarCall a b c with
    | some _ => sugarCount rest + 1
    | none => sugarCount (b :: c :: rest)
  | _ :: tl => sugarCount tl
  | [] => 0

/-! ### the exact behaviour on arbitrary token lists

  The detectors of the macro stage are LR(1) *prefix* recognisers: an occurrence is recognised when
  the token behind it is seen, and that token must be one the detector tables have a column for
  (kind `≤ WITH`; the scanner produces no other kinds, and always ends the stream with `EOF`).  On
  an arbitrary token list the sugar therefore is the following variant; on scanner output
  (`Scanned`) it coincides with `desugar` (`desugarLA_eq`). -/

/-- is there a token behind the occurrence, and is it of a kind the scanner can produce? -/
def followed : List Token → Bool
  | [] => false
  | d :: _ => decide (d.kind ≤ Tok.WITH)

def desugarLA : List Token → List Token
  | a :: b :: c :: rest =>
    match sugarCall a b c, followed rest with
    | some cl, true => cl ++ desugarLA rest
    | _, _ => a :: desugarLA (b :: c :: rest)
  | a :: tl => a :: desugarLA tl
  | [] => []

def sugarCountLA : List Token → Nat
  | a :: b :: c :: rest =>
    match sugarCall a b c, followed rest with
    | some _, true => sugarCountLA rest + 1
    | _, _ => sugarCountLA (b :: c :: rest)
  | _ :: tl => sugarCountLA tl
  | [] => 0

/-- one rewriting step: the leftmost occurrence is replaced (`none`: there is no occurrence) -/
def sugarStep : List Token → Option (List Token)
  | a :: b :: c :: rest =>
    match sugarCall a b c, followed rest with
    | some cl, true => some (cl ++ rest)
    | _, _ => (sugarStep (b :: c :: rest)).map (a :: ·)
  | a :: tl => (sugarStep tl).map (a :: ·)
  | [] => none

/-- `k` rewriting steps, leftmost occurrence first (fewer if no occurrence is left) -/
def sugarIter : Nat → List Token → List Token
  | 0, ts => ts
  | k + 1, ts =>
    match sugarStep ts with
    | some ts' => sugarIter k ts'
    | none => ts

/-- what the scanner guarantees about its output: only token kinds up to `WITH`, and the last
    token is the end marker (in particular not an integer literal) -/
def Scanned (ts : List Token) : Prop :=
  (∀ t ∈ ts, t.kind ≤ Tok.WITH) ∧ ∃ body eof, ts = body ++ [eof] ∧ eof.kind = Tok.T_EOF

end Sugar
end Theo
