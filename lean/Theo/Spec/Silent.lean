/-
  C14 — "comments and whitespace produce nothing": the documented token-less rules of the scanner,
  pinned (the language documentation is the rule section of lexer.l at the pinned commit):
    * whitespace: one or more of blank, tab, newline;
    * comment: `//` followed by everything up to, and not including, the end of the line — so a
      comment that ends the file without a final newline is a comment as well.
  The regenerated rule list must contain exactly these token-less rules (`C14_silent_rules_documented`
  in Props/C14Silent.lean); class ranges are compared as sets of bytes, so re-ordering a character
  class in lexer.l is not a difference.
-/
import Theo.Model.Regex

namespace Theo

/-- the bytes of a class, as a sorted list (classes are compared extensionally) -/
def classBytes (neg : Bool) (rs : List (UInt8 × UInt8)) : List Nat :=
  (List.range 256).filter (fun n => (inRanges rs n.toUInt8) != neg)

/-- a regex with its character classes replaced by their byte sets -/
inductive RxN where
  | empty | eps
  | cls (bs : List Nat)
  | seq (a b : RxN) | alt (a b : RxN) | star (a : RxN)
  deriving DecidableEq, Repr

def Rx.norm : Rx → RxN
  | .empty => .empty
  | .eps => .eps
  | .cls rs => .cls (classBytes false rs)
  | .ncls rs => .cls (classBytes true rs)
  | .seq a b => .seq a.norm b.norm
  | .alt a b => .alt a.norm b.norm
  | .star a => .star a.norm

/-- `[ \t\n]+` -/
def documentedWhitespace : Rx :=
  .seq (.cls [(32, 32), (9, 9), (10, 10)]) (.star (.cls [(32, 32), (9, 9), (10, 10)]))

/-- `//[^\n]*` -/
def documentedComment : Rx :=
  .seq (.cls [(47, 47)]) (.seq (.cls [(47, 47)]) (.star (.ncls [(10, 10)])))

def documentedSilent : List RxN := [documentedWhitespace.norm, documentedComment.norm]

end Theo
