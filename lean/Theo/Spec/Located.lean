/-
  Specification of "an error has a location" (C02, clause "every error of a compilation has a
  location naming a supplied file (or the hidden standard-macro file, or the '-' placeholder)
  with a line inside that file").

  `Files` is an association list; when a name occurs several times the *first* entry counts
  (`Files.get?`, the lookup every stage of the model uses).

  A location `(file, line)` is acceptable when
    * it is the placeholder `("-", -1)` (no file context: main file missing, pass budget
      exhausted, end of an empty token stream, generator before the first visible node), or
    * `file` is supplied and `1 ≤ line ≤` number of lines of its content, or
    * `file` is not supplied, is the name of the hidden standard-macro file, and
      `1 ≤ line ≤` number of lines of the standard macro text (regenerated constant
      `ConstGen.stdMacroText`, not a literal).
  When the user supplies a file with the standard file's name, `parseFiles` does not add the
  hidden text: the user's content is what is scanned under that name, so the user's content
  decides the admissible lines (second clause) — the third clause applies only when the name is
  not supplied.

  The number of lines of a content is what the scanner can count: the buffer ends at the first
  NUL byte (`cstr`, `yy_scan_string`), `yylineno` starts at 1 and is incremented per newline.
-/
import Theo.Model.Scan
import Theo.Generated.Consts

namespace Theo

/-- number of lines of a file content as the scanner sees it -/
def lineCount (content : Bytes) : Nat := countNl (cstr content) + 1

/-- `line` is a line of `content` -/
def InLines (content : Bytes) (line : Int) : Prop := 1 ≤ line ∧ line ≤ (lineCount content : Int)

instance (content : Bytes) (line : Int) : Decidable (InLines content line) := by
  unfold InLines; exact inferInstance

/-- the location `(file, line)` names the placeholder, or a line of a supplied file, or a line of
    the hidden standard-macro file (when no file of that name is supplied) -/
def Located (files : Files) (file : Bytes) (line : Int) : Prop :=
  (file = bDash ∧ line = -1) ∨
  match files.get? file with
  | some content => InLines content line
  | none => file = ConstGen.stdFileName ∧ InLines ConstGen.stdMacroText line

instance (files : Files) (file : Bytes) (line : Int) : Decidable (Located files file line) := by
  unfold Located
  cases files.get? file <;> exact inferInstance

/-- executable form (mirrors the Python oracle `located_ok`, except that a supplied file named
    "-" is treated like every other supplied file in addition to the placeholder meaning) -/
def locatedB (files : Files) (file : Bytes) (line : Int) : Bool := decide (Located files file line)

/-- the standard macro text has three lines (two definitions, each ended by a newline, and a
    last line of blanks) -/
example : lineCount ConstGen.stdMacroText = 3 := by decide

end Theo
