/-
  A validator for compiler output against the typed source (C01, C07, C16): `shapeCheck src p`
  walks the source and the bytecode side by side and checks that the code of every statement and
  value has the shape of the compilation scheme of gen.cpp — with *some* register assignment
  (read off the stack maps and the code, checked for the non-interference the scheme relies on)
  and *some* placement of breakpoint sites (POTENTIAL_BREAK instructions are skipped wherever
  they occur; a jump may land on any site that precedes its target).  It is deliberately more
  liberal than the generator: a harmless change of register allocation still validates.
  Soundness — a validated program computes the reference semantics — is the content of C01.
-/
import Theo.Spec.Semantics
import Theo.Spec.WellFormed

namespace Theo
open Sem

/-- first position at or after `pc` that does not hold a breakpoint site (fuel = code length) -/
def skipPB (code : List Instr) : Nat → Nat → Nat
  | 0, pc => pc
  | f + 1, pc =>
    match code[pc]? with
    | some .potBreak => skipPB code f (pc + 1)
    | _ => pc

def skipc (code : List Instr) (pc : Nat) : Nat := skipPB code code.length pc

/-- two positions that reach the same real instruction through sites only -/
def sameAnchor (code : List Instr) (a : Int) (b : Nat) : Bool :=
  decide (0 ≤ a) && (skipc code a.toNat == skipc code b)

/-- what the validator knows about a routine: where it starts, its stack map, its named registers -/
structure RInfo where
  entry : Nat
  mi : Nat
  regs : List (Int × Bytes)       -- the stack map: register ↦ name
  deriving Repr, Inhabited

/-- register of a *user* identifier; names of the hidden-counter shape are never user variables
    (an identifier cannot contain a blank), so they are refused here -/
def RInfo.regOf (r : RInfo) (x : Name) : Option Int :=
  if bLoopVar.isPrefixOf x then none else (r.regs.find? (fun e => e.2 = x)).map (·.1)
def RInfo.isNamed (r : RInfo) (reg : Int) : Bool := r.regs.any (fun e => e.1 = reg)

/-- the register of the hidden counter of loop `id`: named `Loop Variable <file>:<line>[id]` -/
def RInfo.ctrOf (r : RInfo) (id : Nat) : Option Int :=
  let suffix := [91] ++ natDigits id ++ [93]
  (r.regs.find? (fun e => bLoopVar.isPrefixOf e.2 && suffix.isSuffixOf e.2)).map (·.1)

/-- environment of one validation: the code, the routine being checked, the callable routines -/
structure VEnv where
  code : List Instr
  src : Source
  me : RInfo
  routine : Nat
  infos : List RInfo               -- infos[j] for every program j defined so far (j < routine)

def VEnv.at (e : VEnv) (pc : Nat) : Option Instr := e.code[skipc e.code pc]?
def VEnv.next (e : VEnv) (pc : Nat) : Nat := skipc e.code pc + 1

def tempOK (e : VEnv) (live : List Int) (t : Int) : Bool :=
  !e.me.isNamed t && !live.contains t

/-- `ID + INT` / `ID - INT`: copy, constant (unused), add -/
def checkIncDec (e : VEnv) (y : Name) (k : Nat) (isInc : Bool) (live : List Int) (pc : Nat) : Option (Int × Nat) :=
  match e.at pc, e.me.regOf y with
  | some (.add t1 s 0), some ry =>
    if s ≠ ry ∨ !tempOK e live t1 then none else
    match e.at (e.next pc) with
    | some (.const t2 _) =>
      if !tempOK e live t2 ∨ t2 = t1 then none else
      match e.at (e.next (e.next pc)) with
      | some (.add tgt s2 c) =>
        if s2 = t1 ∧ c = (if isInc then (k : Int) else -(k : Int)) ∧ k < WORD_MAX ∧ !live.contains tgt
        then some (tgt, e.next (e.next (e.next pc))) else none
      | _ => none
    | _ => none
  | _, _ => none
/-- `ARG i t_i` for i = 0, 1, … -/
def checkArgInstrs (e : VEnv) : List Int → Nat → Nat → Option Nat
  | [], _, pc => some pc
  | t :: ts, i, pc =>
    match e.at pc with
    | some (.arg ti s) => if ti = (i : Int) ∧ s = t then checkArgInstrs e ts (i + 1) (e.next pc) else none
    | _ => none


mutual
/-- code of value `v` starting at `pc`; returns the register it leaves the value in and the next pc.
    `live` = registers holding argument values that must survive -/
def checkValue (e : VEnv) : Value → List Int → Nat → Option (Int × Nat)
  | .var y, live, pc =>
    match e.at pc, e.me.regOf y with
    | some (.add tgt s 0), some ry => if s = ry ∧ !live.contains tgt then some (tgt, e.next pc) else none
    | _, _ => none
  | .num n, live, pc =>
    match e.at pc with
    | some (.const tgt c) => if c = (n : Int) ∧ n < WORD_MAX ∧ !live.contains tgt then some (tgt, e.next pc) else none
    | _ => none
  | .inc y k, live, pc => checkIncDec e y k true live pc
  | .dec y k, live, pc => checkIncDec e y k false live pc
  | .call f args, live, pc =>
    match lookupProg e.src f e.routine with
    | none => none
    | some (j, pd) =>
      match e.infos[j]?, checkArgs e args live [] pc with
      | some ri, some (temps, pc1) =>
        if pd.params.length ≠ temps.length then none else
        match e.at pc1 with
        | some (.prepare _ mi tgt) =>
          if mi ≠ (ri.mi : Int) ∨ live.contains tgt then none else
          match checkArgInstrs e temps 0 (e.next pc1) with
          | some pc2 =>
            match e.at pc2 with
            | some (.exec en) => if en = (ri.entry : Int) then some (tgt, e.next pc2) else none
            | _ => none
          | none => none
        | _ => none
      | _, _ => none
/-- arguments left to right, each into a fresh temporary that stays live -/
def checkArgs (e : VEnv) : Values → List Int → List Int → Nat → Option (List Int × Nat)
  | .nil, _, acc, pc => some (acc, pc)
  | .cons a as, live, acc, pc =>
    match checkValue e a (live ++ acc) pc with
    | some (t, pc1) => if tempOK e (live ++ acc) t then checkArgs e as live (acc ++ [t]) pc1 else none
    | none => none
end

/-- bookkeeping of one routine body: mark positions and jumps to be resolved -/
structure Walk where
  pc : Nat
  marks : List (Name × Nat)              -- mark ↦ position where its statement list starts
  gotos : List (Nat × Int × Name)        -- (position of the jump, its offset, target mark)
  deriving Inhabited

mutual
def checkStmt (e : VEnv) : Stmt → Walk → Option Walk
  | .assign x v _, w =>
    match checkValue e v [] w.pc, e.me.regOf x with
    | some (tgt, pc1), some rx => if tgt = rx then some { w with pc := pc1 } else none
    | _, _ => none
  | .mark m _, w => some { w with marks := w.marks ++ [(m, w.pc)] }
  | .loop id x body _, w =>
    match e.me.ctrOf id, e.me.regOf x, e.at w.pc with
    | some ctr, some rx, some (.add t s 0) =>
      if t ≠ ctr ∨ s ≠ rx then none else
      let p2 := e.next w.pc
      match e.at p2 with
      | some (.jmpc offE c) =>
        if c ≠ ctr then none else
        match checkStmts e body { w with pc := e.next p2 } with
        | some w1 =>
          match e.at w1.pc with
          | some (.add t3 s3 (-1)) =>
            if t3 ≠ ctr ∨ s3 ≠ ctr then none else
            let p5 := e.next w1.pc
            match e.at p5 with
            | some (.jmp offL) =>
              let j5 := skipc e.code p5
              let j2 := skipc e.code p2
              if sameAnchor e.code ((j5 : Int) + offL) j2 && sameAnchor e.code ((j2 : Int) + offE) (j5 + 1)
              then some { w1 with pc := j5 + 1 } else none
            | _ => none
          | _ => none
        | none => none
      | _ => none
    | _, _, _ => none
  | .while_ x body _, w =>
    match e.me.regOf x, e.at w.pc with
    | some rx, some (.add tmp s 0) =>
      if s ≠ rx ∨ e.me.isNamed tmp then none else
      let p2 := e.next w.pc
      match e.at p2 with
      | some (.jmpc offE c) =>
        if c ≠ tmp then none else
        match checkStmts e body { w with pc := e.next p2 } with
        | some w1 =>
          match e.at w1.pc with
          | some (.jmp offL) =>
            let j4 := skipc e.code w1.pc
            let j2 := skipc e.code p2
            if sameAnchor e.code ((j4 : Int) + offL) w.pc && sameAnchor e.code ((j2 : Int) + offE) (j4 + 1)
            then some { w1 with pc := j4 + 1 } else none
          | _ => none
        | none => none
      | _ => none
    | _, _ => none
  | .goto m _, w =>
    match e.at w.pc with
    | some (.jmp off) => some { w with pc := e.next w.pc, gotos := w.gotos ++ [(skipc e.code w.pc, off, m)] }
    | _ => none
  | .ifGoto x cst m _, w =>
    match e.me.regOf x, e.at w.pc with
    | some rx, some (.add t1 s 0) =>
      if s ≠ rx ∨ e.me.isNamed t1 then none else
      let p2 := e.next w.pc
      match e.at p2 with
      | some (.const t2 c) =>
        if c ≠ (cst : Int) ∨ e.me.isNamed t2 ∨ t2 = t1 ∨ !(cst < WORD_MAX) then none else
        let p3 := e.next p2
        match e.at p3 with
        | some (.test t0 a b) =>
          if a ≠ t1 ∨ b ≠ t2 ∨ e.me.isNamed t0 then none else
          let p4 := e.next p3
          match e.at p4 with
          | some (.jmpc off c0) =>
            if c0 ≠ t0 then none else
            some { w with pc := e.next p4, gotos := w.gotos ++ [(skipc e.code p4, off, m)] }
          | _ => none
        | _ => none
      | _ => none
    | _, _ => none
  | .stop _, w =>
    match e.at w.pc with
    | some .halt => some { w with pc := e.next w.pc }
    | _ => none
def checkStmts (e : VEnv) : Stmts → Walk → Option Walk
  | .nil, w => some w
  | .cons s ss, w =>
    match checkStmt e s w with
    | some w1 => checkStmts e ss w1
    | none => none
end

/-- every jump of the body lands (through sites only) where the statements after its mark start;
    a mark that is jumped to occurs exactly once in the body (the END keywords of loops are marks
    too, named by their spelling, and may repeat: they are never jump targets) -/
def resolveOK (code : List Instr) (w : Walk) : Bool :=
  w.gotos.all (fun g =>
    match w.marks.filter (fun m => m.1 = g.2.2) with
    | [m] => sameAnchor code ((g.1 : Int) + g.2.1) m.2
    | _ => false)

def paramsOK (ri : RInfo) (params : List Name) : Bool :=
  params.zipIdx.all (fun p => ri.regOf p.1 == some (p.2 : Int)) && params.Nodup

def namesNodup (ri : RInfo) : Bool := (ri.regs.map (·.2)).Nodup && (ri.regs.map (·.1)).Nodup

/-- the routines in text order: `JMP over; <body>; RET out`, then the root body and `HALT` -/
def checkProgs (p : Program) (src : Source) : List ProgDef → Nat → List RInfo → Nat → Option (List RInfo × Nat)
  | [], _, infos, pc => some (infos, pc)
  | pd :: rest, i, infos, pc =>
    match p.code[skipc p.code pc]?, p.stackMaps[i]? with
    | some (.jmp off), some sm =>
      let j := skipc p.code pc
      let ri : RInfo := ⟨j + 1, i, sm.map⟩
      let e : VEnv := ⟨p.code, src, ri, i, infos⟩
      if !(namesNodup ri && paramsOK ri pd.params) then none else
      match checkStmts e pd.body ⟨j + 1, [], []⟩ with
      | some w =>
        match e.at w.pc, ri.regOf pd.out with
        | some (.ret r), some ro =>
          let after := skipc p.code w.pc + 1
          if r = ro ∧ resolveOK p.code w ∧ (j : Int) + off = (after : Int) then
            checkProgs p src rest (i + 1) (infos ++ [ri]) after
          else none
        | _, _ => none
      | none => none
    | _, _ => none

def shapeCheck (src : Source) (p : Program) : Bool :=
  match p.code with
  | .prepare _ mi _ :: _ =>
    match checkProgs p src src.progs 0 [] 1 with
    | some (infos, pc) =>
      (match p.stackMaps[src.progs.length]? with
       | some sm =>
         let ri : RInfo := ⟨0, src.progs.length, sm.map⟩
         let e : VEnv := ⟨p.code, src, ri, src.progs.length, infos⟩
         decide (mi = (src.progs.length : Int)) && namesNodup ri &&
         (match checkStmts e src.main ⟨pc, [], []⟩ with
          | some w => resolveOK p.code w && (skipc p.code w.pc + 1 == p.code.length) &&
                      (p.code[skipc p.code w.pc]? == some Instr.halt)
          | none => false)
       | none => false)
    | none => false
  | _ => false

end Theo
