/-
  Structural validity of bytecode (C03, C16) as a *checkable certificate*: every reachable
  program counter is annotated with the frame size of the activation executing it, the id of
  the routine it belongs to, and — inside a call sequence — the frame size and id of the callee
  being prepared.  `checkCert` verifies the annotation locally, instruction by instruction;
  `inferCert` computes it by forward propagation; `wfCheck` = infer, then check.
  Soundness (`checkCert p c = true` ⇒ no execution and no debugger history of `p` ever leaves
  the VM's memory) is proved in Theo/Proofs/WFProofs.lean; nothing is claimed about `inferCert`
  (if it produces a wrong annotation the check fails).
-/
import Theo.Spec.VMSpec

namespace Theo

structure PcInfo where
  frame : Nat                      -- size of the frame of the activation executing this pc
  rid : Nat                        -- routine id (number of RETs before the routine's entry; root = #RETs)
  pend : Option (Nat × Nat)        -- inside a call sequence: (callee frame size, callee routine id)
  deriving Repr, DecidableEq, Inhabited

abbrev Cert := List (Option PcInfo)

def Cert.info (c : Cert) (pc : Int) : Option PcInfo :=
  if pc < 0 then none else (c[pc.toNat]?).join

def regOK (r : Int) (frame : Nat) : Bool := decide (0 ≤ r) && decide (r < (frame : Int))

/-- stack-map index valid, and every mapped register inside a frame of `cnt` words -/
def mapOK (p : Program) (idx : Int) (cnt : Nat) : Bool :=
  decide (0 ≤ idx) &&
  match p.stackMaps[idx.toNat]? with
  | some sm => sm.map.all (fun e => regOK e.1 cnt)
  | none => false

/-- local check of one annotated instruction (`pc ≥ 1`) -/
def checkPc (p : Program) (c : Cert) (rootRid : Nat) (pc : Nat) (ins : Instr) (I : PcInfo) : Bool :=
  let next := c.info ((pc : Int) + 1)
  match ins with
  | .potBreak => I.pend.isNone && next == some I
  | .brk => I.pend.isNone && next == some I
  | .halt => true
  | .add t s _ => I.pend.isNone && regOK t I.frame && regOK s I.frame && next == some I
  | .test t a b => I.pend.isNone && regOK t I.frame && regOK a I.frame && regOK b I.frame && next == some I
  | .const t _ => I.pend.isNone && regOK t I.frame && next == some I
  | .jmp off => I.pend.isNone && c.info ((pc : Int) + off) == some I
  | .jmpc off s => I.pend.isNone && regOK s I.frame && c.info ((pc : Int) + off) == some I && next == some I
  | .prepare cnt idx tgt =>
    I.pend.isNone && decide (0 ≤ cnt) && regOK tgt I.frame && mapOK p idx cnt.toNat &&
    (match next with
     | some N => N.frame == I.frame && N.rid == I.rid &&
                 (match N.pend with | some (cf, j) => cf == cnt.toNat && decide (j < I.rid) | none => false)
     | none => false)
  | .arg t s =>
    (match I.pend with
     | some (cf, _) => regOK t cf && regOK s I.frame && next == some I
     | none => false)
  | .exec entry =>
    (match I.pend with
     | some (cf, j) => decide (j < I.rid) && c.info entry == some ⟨cf, j, none⟩ &&
                       next == some { I with pend := none }
     | none => false)
  | .ret s => I.pend.isNone && regOK s I.frame && decide (I.rid < rootRid)

def retsBefore (code : List Instr) (entry : Int) : Nat :=
  ((code.zipIdx.filter (fun x => (match x.1 with | .ret _ => true | _ => false) && decide ((x.2 : Int) < entry))).length)

/-- the whole certificate: root PREPARE at 0 (never a jump target), final HALT, every annotated
    pc locally consistent, breakpoint tables naming only POTENTIAL_BREAK sites -/
def checkCert (p : Program) (c : Cert) : Bool :=
  c.length == p.code.length &&
  (match p.code, c with
   | .prepare fr mi _ :: _, none :: some R :: _ =>
     decide (0 ≤ fr) && mapOK p mi fr.toNat && R.frame == fr.toNat && R.pend.isNone &&
     R.rid == retsBefore p.code p.code.length &&
     (p.code.getLast? == some Instr.halt) &&
     (p.code.zipIdx.zip c).all (fun x =>
       match x.2 with
       | some I => x.1.2 != 0 && checkPc p c R.rid x.1.2 x.1.1 I
       | none => true)
   | _, _ => false) &&
  sitesOKb p

/-! ### inference (executable only; nothing is proved about it) -/

/-- id of the callee prepared at `pc`: the EXEC that ends the ARG run after `pc` names the entry -/
def calleeOf (code : List Instr) (pc : Nat) : Nat :=
  let rest := (code.drop (pc + 1)).dropWhile (fun i => match i with | .arg _ _ => true | _ => false)
  match rest with
  | .exec e :: _ => retsBefore code e
  | _ => 0

def succsOf (code : List Instr) (pc : Nat) (ins : Instr) (I : PcInfo) : List (Int × PcInfo) :=
  match ins with
  | .potBreak | .brk | .add _ _ _ | .test _ _ _ | .const _ _ | .arg _ _ => [((pc : Int) + 1, I)]
  | .jmp off => [((pc : Int) + off, I)]
  | .jmpc off _ => [((pc : Int) + off, I), ((pc : Int) + 1, I)]
  | .prepare cnt _ _ => [((pc : Int) + 1, { I with pend := some (cnt.toNat, calleeOf code pc) })]
  | .exec entry =>
    (match I.pend with
     | some (cf, j) => [(entry, ⟨cf, j, none⟩), ((pc : Int) + 1, { I with pend := none })]
     | none => [])
  | .ret _ | .halt => []

def inferLoop (code : List Instr) : Nat → List Nat → Cert → Cert
  | 0, _, c => c
  | _, [], c => c
  | fuel + 1, pc :: work, c =>
    match code[pc]?, (c[pc]?).join with
    | some ins, some I =>
      let (c', new) := (succsOf code pc ins I).foldl
        (fun (acc : Cert × List Nat) s =>
          if s.1 < 1 then acc else
          match acc.1[s.1.toNat]? with
          | some none => (acc.1.set s.1.toNat (some s.2), acc.2 ++ [s.1.toNat])
          | _ => acc) (c, [])
      inferLoop code fuel (work ++ new) c'
    | _, _ => inferLoop code fuel work c

def inferCert (p : Program) : Cert :=
  let n := p.code.length
  let rootRid := retsBefore p.code n
  match p.code with
  | .prepare fr _ _ :: _ :: _ =>
    let c0 : Cert := (List.replicate n none).set 1 (some ⟨fr.toNat, rootRid, none⟩)
    inferLoop p.code (n + 1) [1] c0
  | _ => List.replicate n none

def wfCheck (p : Program) : Bool := checkCert p (inferCert p)

/-- number of routines (= number of RET instructions) -/
def numRoutines (p : Program) : Nat := retsBefore p.code p.code.length

end Theo
