/-
  Reference semantics of LOOP / WHILE / GOTO programs (C01, C07, C16): a small-step machine over
  the typed source, in the style of CompCert's Clight — a stack of activations, each with a
  statement focus and a continuation; hidden loop counters; call-by-value RUN with nested calls
  as arguments (evaluation contexts); STOP halts the whole machine.  No registers, no program
  counters, no bytecode: this is the specification the compiler is measured against.
  It is executable (`Sem.run`) and is also run differentially against the implementation.
-/
import Theo.Model.Gen

namespace Theo.Sem

abbrev Name := Bytes
abbrev Pos := Bytes × Int          -- (file, line) of the construct, for the stepping events of C07

mutual
inductive Value where
  | var (x : Name)
  | num (n : Nat)
  | inc (x : Name) (c : Nat)        -- the built-in `x + c`
  | dec (x : Name) (c : Nat)        -- the built-in `x - c` (truncated)
  | call (f : Name) (args : Values)
inductive Values where
  | nil
  | cons (v : Value) (vs : Values)
end

mutual
inductive Stmt where
  | assign (x : Name) (v : Value) (pos : Pos)
  | mark (m : Name) (pos : Pos)                      -- labels, and the END keywords of loops / programs
  | loop (id : Nat) (x : Name) (body : Stmts) (pos : Pos)
  | while_ (x : Name) (body : Stmts) (pos : Pos)
  | goto (m : Name) (pos : Pos)
  | ifGoto (x : Name) (c : Nat) (m : Name) (pos : Pos)
  | stop (pos : Pos)
inductive Stmts where
  | nil
  | cons (s : Stmt) (ss : Stmts)
end

def Stmts.append : Stmts → Stmts → Stmts
  | .nil, b => b
  | .cons s ss, b => .cons s (ss.append b)

def Values.toList : Values → List Value
  | .nil => []
  | .cons v vs => v :: vs.toList

def Values.appendV : Values → Values → Values
  | .nil, b => b
  | .cons v vs, b => .cons v (Values.appendV vs b)

def Values.length : Values → Nat
  | .nil => 0
  | .cons _ vs => vs.length + 1

structure ProgDef where
  name : Name
  params : List Name
  out : Name                        -- "x0" when no OUT is declared
  body : Stmts

structure Source where
  progs : List ProgDef
  main : Stmts

/-- statement continuation inside one activation -/
inductive Kont where
  | done
  | loop (id : Nat) (body rest : Stmts) (k : Kont)
  | while_ (x : Name) (body rest : Stmts) (k : Kont)

mutual
/-- `findLabel m ss k`: the continuation at mark `m` — first match in a left-to-right, depth-first
    search; the returned focus starts AT the mark; entering a loop body pushes the loop's
    continuation, so a jump into a loop continues that loop with the counter's current value -/
def findLabel (m : Name) : Stmts → Kont → Option (Stmts × Kont)
  | .nil, _ => none
  | .cons s rest, k =>
    match findLabelStmt m s rest k with
    | some r => some r
    | none => findLabel m rest k
def findLabelStmt (m : Name) : Stmt → Stmts → Kont → Option (Stmts × Kont)
  | .mark m' pos, rest, k => if m' = m then some (.cons (.mark m' pos) rest, k) else none
  | .loop id _ body _, rest, k => findLabel m body (.loop id body rest k)
  | .while_ x body _, rest, k => findLabel m body (.while_ x body rest k)
  | _, _, _ => none
end

abbrev Env := List (Name × Nat)          -- association list; absent = 0

def Env.get (ρ : Env) (x : Name) : Nat := ((ρ.find? (fun e => e.1 = x)).map (·.2)).getD 0
def Env.set (ρ : Env) (x : Name) (v : Nat) : Env := (x, v) :: ρ.filter (fun e => e.1 ≠ x)

abbrev Ctrs := List (Nat × Nat)          -- loop id ↦ hidden counter; absent = 0
def Ctrs.get (κ : Ctrs) (i : Nat) : Nat := ((κ.find? (fun e => e.1 = i)).map (·.2)).getD 0
def Ctrs.set (κ : Ctrs) (i : Nat) (v : Nat) : Ctrs := (i, v) :: κ.filter (fun e => e.1 ≠ i)

/-- machine words: the reference semantics saturates at 2^31-1 exactly like the word it is
    compared with; for executions whose values stay below 2^31-1 (the property's restriction) this
    is the natural-number semantics (`Sem.addSat_exact`) -/
def WORD_MAX : Nat := 2147483647
def addSat (a b : Nat) : Nat := min (a + b) WORD_MAX

/-- evaluation context: `RUN f WITH done… □ todo…` -/
structure ECtx where
  f : Name
  done : List Nat
  todo : Values

/-- what the top of an activation is doing -/
inductive Ctrl where
  | run                                             -- executing the statement focus
  | eval (v : Value) (x : Name) (cs : List ECtx)    -- about to evaluate `v`; final target `x`
  | ret (n : Nat) (x : Name) (cs : List ECtx)       -- a value was obtained; deliver it
  | wait (x : Name) (cs : List ECtx)                -- suspended: a callee computes the value

structure Frame where
  routine : Nat            -- index into `progs`; `progs.length` = the root
  env : Env
  ctrs : Ctrs
  focus : Stmts
  k : Kont
  ctrl : Ctrl

inductive Status where
  | running | halted | stuck
  deriving DecidableEq, Repr

structure Config where
  stack : List Frame       -- head = top
  status : Status

def bodyOf (src : Source) (r : Nat) : Stmts :=
  match src.progs[r]? with
  | some p => p.body
  | none => src.main

/-- the latest definition of `f` that is complete before routine `upto` -/
def lookupProg (src : Source) (f : Name) (upto : Nat) : Option (Nat × ProgDef) :=
  let rec go : List ProgDef → Nat → Option (Nat × ProgDef) → Option (Nat × ProgDef)
    | [], _, acc => acc
    | p :: ps, i, acc => if i < upto then go ps (i + 1) (if p.name = f then some (i, p) else acc) else acc
  go src.progs 0 none

def bindParams : List Name → List Nat → Env → Env
  | p :: ps, a :: as, ρ => bindParams ps as (ρ.set p a)
  | _, _, ρ => ρ

def initial (src : Source) : Config :=
  ⟨[⟨src.progs.length, [], [], src.main, .done, .run⟩], .running⟩

/-- perform the call `f(args)` from frame `fr` (already set to wait for the result) -/
def doCall (src : Source) (fr : Frame) (rest : List Frame) (f : Name) (args : List Nat) : Config :=
  match lookupProg src f fr.routine with
  | some (i, p) =>
    if p.params.length = args.length then
      ⟨⟨i, bindParams p.params args [], [], p.body, .done, .run⟩ :: fr :: rest, .running⟩
    else ⟨fr :: rest, .stuck⟩
  | none => ⟨fr :: rest, .stuck⟩

/-- one step of the reference machine -/
def step (src : Source) (c : Config) : Config :=
  match c.status, c.stack with
  | .running, fr :: rest =>
    match fr.ctrl with
    | .run =>
      match fr.focus with
      | .cons s ss =>
        match s with
        | .assign x v _ => ⟨{ fr with focus := ss, ctrl := .eval v x [] } :: rest, .running⟩
        | .mark _ _ => ⟨{ fr with focus := ss } :: rest, .running⟩
        | .loop id x body _ =>
          let n := fr.env.get x
          let fr' := { fr with ctrs := fr.ctrs.set id n }
          if n ≠ 0 then ⟨{ fr' with focus := body, k := .loop id body ss fr.k } :: rest, .running⟩
          else ⟨{ fr' with focus := ss } :: rest, .running⟩
        | .while_ x body _ =>
          if fr.env.get x ≠ 0 then ⟨{ fr with focus := body, k := .while_ x body ss fr.k } :: rest, .running⟩
          else ⟨{ fr with focus := ss } :: rest, .running⟩
        | .goto m _ =>
          match findLabel m (bodyOf src fr.routine) .done with
          | some (f, k) => ⟨{ fr with focus := f, k := k } :: rest, .running⟩
          | none => ⟨fr :: rest, .stuck⟩
        | .ifGoto x cst m _ =>
          if fr.env.get x = cst then
            match findLabel m (bodyOf src fr.routine) .done with
            | some (f, k) => ⟨{ fr with focus := f, k := k } :: rest, .running⟩
            | none => ⟨fr :: rest, .stuck⟩
          else ⟨{ fr with focus := ss } :: rest, .running⟩
        | .stop _ => ⟨fr :: rest, .halted⟩
      | .nil =>
        match fr.k with
        | .loop id body ss k' =>
          let n := fr.ctrs.get id - 1
          let fr' := { fr with ctrs := fr.ctrs.set id n }
          if n ≠ 0 then ⟨{ fr' with focus := body } :: rest, .running⟩
          else ⟨{ fr' with focus := ss, k := k' } :: rest, .running⟩
        | .while_ x body ss k' =>
          if fr.env.get x ≠ 0 then ⟨{ fr with focus := body } :: rest, .running⟩
          else ⟨{ fr with focus := ss, k := k' } :: rest, .running⟩
        | .done =>
          match rest with
          | [] => ⟨[fr], .halted⟩                      -- the root reached its end
          | caller :: rest' =>
            let out := match src.progs[fr.routine]? with
              | some p => p.out
              | none => []
            match caller.ctrl with
            | .wait x cs => ⟨{ caller with ctrl := .ret (fr.env.get out) x cs } :: rest', .running⟩
            | _ => ⟨fr :: rest, .stuck⟩
    | .eval v x cs =>
      match v with
      | .var y => ⟨{ fr with ctrl := .ret (fr.env.get y) x cs } :: rest, .running⟩
      | .num n => ⟨{ fr with ctrl := .ret n x cs } :: rest, .running⟩
      | .inc y k => ⟨{ fr with ctrl := .ret (addSat (fr.env.get y) k) x cs } :: rest, .running⟩
      | .dec y k => ⟨{ fr with ctrl := .ret (fr.env.get y - k) x cs } :: rest, .running⟩
      | .call f .nil => doCall src { fr with ctrl := .wait x cs } rest f []
      | .call f (.cons a as) => ⟨{ fr with ctrl := .eval a x (⟨f, [], as⟩ :: cs) } :: rest, .running⟩
    | .ret n x cs =>
      match cs with
      | [] => ⟨{ fr with env := fr.env.set x n, ctrl := .run } :: rest, .running⟩
      | c1 :: cs' =>
        match c1.todo with
        | .nil => doCall src { fr with ctrl := .wait x cs' } rest c1.f (c1.done ++ [n])
        | .cons a as => ⟨{ fr with ctrl := .eval a x (⟨c1.f, c1.done ++ [n], as⟩ :: cs') } :: rest, .running⟩
    | .wait _ _ => ⟨fr :: rest, .stuck⟩
  | _, _ => c

/-- run at most `fuel` steps; returns the configuration and the number of steps taken -/
def run (src : Source) : Nat → Config → Nat → Config × Nat
  | 0, c, n => (c, n)
  | fuel + 1, c, n =>
    match c.status with
    | .running => run src fuel (step src c) (n + 1)
    | _ => (c, n)

theorem addSat_exact (a b : Nat) (h : a + b < WORD_MAX) : addSat a b = a + b := by
  unfold addSat; omega

end Theo.Sem

namespace Theo
open Sem

/-! ### from the parser's tree to the typed source -/

mutual
/-- the value denoted by a value node (built-in `__INC__` / `__DEC__` shapes become `inc` / `dec`,
    exactly when gen.cpp treats them as built-in) -/
def valueOf : Node → Value
  | .nil => .num 0
  | .mk t tok _ _ l r =>
    if t = NodeT.NAME then .var tok
    else if t = NodeT.NUMBER then .num (decVal tok)
    else if t = NodeT.CALL then
      let args := valuesOf r
      let f := l.tok
      if (f = bINC ∨ f = bDEC) ∧ args.length = 2 ∧ r.left.ty = NodeT.NAME ∧ r.right.left.ty = NodeT.NUMBER then
        (if f = bINC then .inc r.left.tok (decVal r.right.left.tok) else .dec r.left.tok (decVal r.right.left.tok))
      else .call f args
    else .num 0
/-- argument list of a call: SPLIT nodes are flattened left to right -/
def valuesOf : Node → Values
  | .nil => .nil
  | .mk t tok f ln l r =>
    if t = NodeT.SPLIT then Values.appendV (valuesOf l) (valuesOf r)
    else .cons (valueOf (.mk t tok f ln l r)) .nil
end

def namesOf : Node → List Name
  | .nil => []
  | .mk t tok _ _ l r => if t = NodeT.SPLIT then namesOf l ++ namesOf r else [tok]

/-- statements of a statement tree, numbering LOOPs in generation order (`n` = loops so far);
    program definitions met on the way are collected in text order -/
def stmtsOf : Node → Nat → List ProgDef → Stmts × Nat × List ProgDef
  | .nil, n, ps => (.nil, n, ps)
  | .mk t _ file line l r, n, ps =>
    let pos : Pos := (file, line)
    if t = NodeT.SPLIT then
      let (a, n1, ps1) := stmtsOf l n ps
      let (b, n2, ps2) := stmtsOf r n1 ps1
      (a.append b, n2, ps2)
    else if t = NodeT.PROGRAM then
      let (body, n1, ps1) := stmtsOf r n ps
      let ports := l.right
      let out := match ports.right with | .nil => bX0 | o => o.tok
      (.nil, n1, ps1 ++ [⟨l.left.tok, namesOf ports.left, out, body⟩])
    else if t = NodeT.ASSIGN then (.cons (.assign l.tok (valueOf r) pos) .nil, n, ps)
    else if t = NodeT.LOOP then
      let (body, n1, ps1) := stmtsOf r (n + 1) ps
      (.cons (.loop (n + 1) l.tok body pos) .nil, n1, ps1)
    else if t = NodeT.WHILE then
      let (body, n1, ps1) := stmtsOf r n ps
      (.cons (.while_ l.tok body pos) .nil, n1, ps1)
    else if t = NodeT.MARK then (.cons (.mark l.tok pos) .nil, n, ps)
    else if t = NodeT.GOTO then (.cons (.goto l.tok pos) .nil, n, ps)
    else if t = NodeT.IF then (.cons (.ifGoto l.left.tok (decVal l.right.tok) r.left.tok pos) .nil, n, ps)
    else if t = NodeT.STOP then (.cons (.stop pos) .nil, n, ps)
    else (.nil, n, ps)

/-- the typed source of an error-free parse -/
def toSource (root : Node) : Source :=
  let (main, _, ps) := stmtsOf root 0 []
  ⟨ps, main⟩

end Theo
