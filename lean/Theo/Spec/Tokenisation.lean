/-
  Specification of tokenisation (C14): regular-expression matching as a relation, and
  maximal munch with rule priority, independent of the derivative algorithm.
-/
import Theo.Model.Lexer

namespace Theo

/-- `Matches r s`: the byte string `s` belongs to the language of `r` -/
inductive Rx.Matches : Rx → Bytes → Prop where
  | eps : Matches .eps []
  | cls {rs c} : inRanges rs c = true → Matches (.cls rs) [c]
  | ncls {rs c} : inRanges rs c = false → Matches (.ncls rs) [c]
  | seq {a b s t} : Matches a s → Matches b t → Matches (.seq a b) (s ++ t)
  | altL {a b s} : Matches a s → Matches (.alt a b) s
  | altR {a b s} : Matches b s → Matches (.alt a b) s
  | starNil {a} : Matches (.star a) []
  | starCons {a s t} : Matches a s → Matches (.star a) t → Matches (.star a) (s ++ t)

/-- `(i, n)` is the maximal munch of `inp` under `rules`: `n ≥ 1` is the greatest length of a
    prefix matched by some rule and `i` the least index of a rule matching that prefix -/
def IsMaxMunch (rules : List Rx) (inp : Bytes) (i n : Nat) : Prop :=
  0 < n ∧ n ≤ inp.length ∧
  (∃ r : Rx, rules[i]? = some r ∧ r.Matches (inp.take n)) ∧
  (∀ (j : Nat) (r : Rx) (m : Nat), rules[j]? = some r → 0 < m → m ≤ inp.length → r.Matches (inp.take m) →
      m ≤ n ∧ (m = n → i ≤ j))

/-- no rule matches a non-empty prefix -/
def NoMunch (rules : List Rx) (inp : Bytes) : Prop :=
  ∀ (j : Nat) (r : Rx) (m : Nat), rules[j]? = some r → 0 < m → m ≤ inp.length → ¬ r.Matches (inp.take m)

/-- all lexemes of a buffer, including the ones with an empty action (whitespace, comments):
    (rule index, text, line on which the lexeme ends) -/
def lexemes (rules : List (Rx × Option Nat)) : Nat → Bytes → Nat → List (Nat × Bytes × Nat)
  | 0, _, _ => []
  | fuel + 1, inp, line =>
    match inp with
    | [] => []
    | _ :: _ =>
      match longest (rules.map (·.1)) inp with
      | none => []
      | some (i, n) =>
        let text := inp.take n
        let line' := line + countNl text
        (i, text, line') :: lexemes rules fuel (inp.drop n) line'

/-- the tokens are the lexemes whose rule has a non-empty action -/
def tokensOfLexemes (rules : List (Rx × Option Nat)) (ls : List (Nat × Bytes × Nat)) : List RawTok :=
  ls.filterMap (fun l => ((rules[l.1]?).bind (·.2)).map (fun k => ⟨k, l.2.1, l.2.2⟩))

end Theo
