/-
  C14 — the shape of identifiers (`[a-zA-Z_][a-zA-Z0-9_]*` of the language documentation),
  stated directly on bytes, independent of the regular-expression representation and of the
  regenerated rule table.
-/
import Theo.Model.Basic

namespace Theo

/-- a letter or an underscore -/
def isIdStart (c : UInt8) : Bool := (65 ≤ c && c ≤ 90) || (97 ≤ c && c ≤ 122) || c == 95

/-- a letter, an underscore or a digit -/
def isIdChar (c : UInt8) : Bool := isIdStart c || (48 ≤ c && c ≤ 57)

/-- identifier-shaped word: a letter or underscore followed by letters, digits, underscores -/
def identShape : Bytes → Bool
  | [] => false
  | c :: cs => isIdStart c && cs.all isIdChar

end Theo
