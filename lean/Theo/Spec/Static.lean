/-
  C04, static half: the static rules of the language, stated on the typed source
  (`Sem.Source`) with the very notions the reference semantics resolves names with —
  `lookupProg` (latest definition complete before the routine) and `findLabel` (a label of the
  same body) — and the shape of the trees the parser builds for error-free parses.
  No registers, no code, no generator state.

  Rules (R = a routine: program definition number r, or the main body as routine `progs.length`):
    RUN    every `RUN f WITH a1,…,an END` in R has `lookupProg src f r = some (_, pd)` and
           `pd.params.length = n` (a definition is visible only once it is complete, so neither
           recursion nor forward references; a later redefinition shadows for later routines);
    JUMP   every `GOTO m` / `IF x = c THEN GOTO m` in R has `findLabel m (body of R)`, searched
           through LOOP / WHILE bodies — the END keywords of loops and programs are labels too
           (named by their spelling), repeated labels are *not* an error (the first one is taken);
    LIT    every integer literal is below 2^31-1 (`genRangeBad n = false`, see
           `C04_literal_rule`): the literal of an assignment or argument, the constant of
           `IF x = c`, and ALSO the constant of the built-in `x + c` / `x - c`.  The constant of the
           built-in is not checked where gen.cpp emits the ADD (it converts it unguarded there);
           it is checked because gen.cpp first evaluates both arguments of `__INC__`/`__DEC__` as
           ordinary values, so the NUMBER goes through `strToInt` and its guard.  Nothing earlier
           checks it: the parser builds NUMBER nodes from the raw token text, and the guard of the
           macro layer concerns PRIORITY values and `$n` indices of DEFINE, not program literals;
    PARAM  the parameter names of one PROGRAM header are pairwise distinct (documented
           deviation F4 of the pinned code: the repaired generator reports them).
  Deviations from a naive reading, each forced by what gen.cpp does:
    * `Source` keeps `decVal` of a literal where gen.cpp uses `strtol` (saturating at 2^63-1);
      the verdict `≥ 2^31-1` is the same for both (`Static.rangeBad_strtol`), nothing is lost;
    * a LOOP count is an identifier in the grammar, hence no literal rule for it;
    * repeated labels in one body are accepted (no rule), and so is a label that is only
      defined inside a LOOP / WHILE body while the jump is outside (`findLabel` finds it);
    * `__INC__` / `__DEC__` with the built-in argument shape need no definition (`valueOf` maps
      them to `inc` / `dec`); with any other argument shape they are ordinary program names.
-/
import Theo.Spec.Semantics

namespace Theo
open Sem

namespace Static

mutual
/-- rules RUN and LIT for one value occurring in routine `r` -/
def valueOK (src : Source) (r : Nat) : Value → Bool
  | .var _ => true
  | .num n => !genRangeBad n
  | .inc _ c => !genRangeBad c
  | .dec _ c => !genRangeBad c
  | .call f args =>
    valuesOK src r args &&
      (match lookupProg src f r with
       | some (_, pd) => pd.params.length == args.length
       | none => false)
def valuesOK (src : Source) (r : Nat) : Values → Bool
  | .nil => true
  | .cons v vs => valueOK src r v && valuesOK src r vs
end

mutual
/-- all rules for one statement of routine `r` whose whole body is `body` -/
def stmtOK (src : Source) (r : Nat) (body : Stmts) : Stmt → Bool
  | .assign _ v _ => valueOK src r v
  | .mark _ _ => true
  | .loop _ _ b _ => stmtsOK src r body b
  | .while_ _ b _ => stmtsOK src r body b
  | .goto m _ => (findLabel m body .done).isSome
  | .ifGoto _ c m _ => !genRangeBad c && (findLabel m body .done).isSome
  | .stop _ => true
def stmtsOK (src : Source) (r : Nat) (body : Stmts) : Stmts → Bool
  | .nil => true
  | .cons s ss => stmtOK src r body s && stmtsOK src r body ss
end

def routineOK (src : Source) (r : Nat) : Bool := stmtsOK src r (bodyOf src r) (bodyOf src r)

end Static

/-- the static rules: every routine (the definitions and the main body) obeys RUN / JUMP / LIT,
    and every header obeys PARAM -/
def staticOK (src : Source) : Bool :=
  (List.range (src.progs.length + 1)).all (Static.routineOK src) &&
  src.progs.all (fun pd => decide pd.params.Nodup)

/-! ### the shape of parser-built trees, as far as the generator and `toSource` rely on it

  Deliberately liberal: an absent child (`nil`) is accepted everywhere (gen.cpp skips it), SPLIT
  nodes may nest in any way inside statement lists and argument lists, nodes that are only read
  for their token (names of assignments, marks, jumps, programs, parameters, OUT) may be anything. -/

/-- a value (`args = false`) or an argument list (`args = true`, SPLIT nodes flattened):
    a NAME or NUMBER without a left child, or a CALL with a NAME on the left whose right child is
    an argument list.  (The two side conditions keep the generator's test for the built-in
    `__INC__`/`__DEC__` shape — "two arguments, the first a NAME, the left child of the second
    argument position a NUMBER" — from looking at a node that is not an argument.) -/
def valShape : Bool → Node → Bool
  | _, .nil => true
  | args, .mk t _ _ _ l r =>
    if args ∧ t = NodeT.SPLIT then valShape true l && valShape true r
    else ((t = NodeT.NAME ∨ t = NodeT.NUMBER) ∧ l = .nil) ∨
         (t = NodeT.CALL ∧ l.ty = NodeT.NAME ∧ valShape true r)

/-- absent, or a node of type `t` (its children are never looked at) -/
def nilOr (t : Nat) : Node → Bool
  | .nil => true
  | n => n.ty = t

/-- a statement list without program definitions -/
def stmtShape : Node → Bool
  | .nil => true
  | .mk t _ _ _ l r =>
    if t = NodeT.SPLIT then stmtShape l && stmtShape r
    else if t = NodeT.ASSIGN then valShape false r
    else if t = NodeT.LOOP ∨ t = NodeT.WHILE then nilOr NodeT.NAME l && stmtShape r
    else if t = NodeT.IF then nilOr NodeT.NAME l.left && nilOr NodeT.NUMBER l.right
    else t = NodeT.MARK ∨ t = NodeT.GOTO ∨ t = NodeT.STOP

/-- the whole tree: `SPLIT (PROGRAM hdr body) rest` for every definition, then the main
    statement list (program definitions occur nowhere else) -/
def AstShape : Node → Bool
  | .nil => true
  | .mk t tok f ln l r =>
    if t = NodeT.SPLIT ∧ l.ty = NodeT.PROGRAM then stmtShape l.right && AstShape r
    else stmtShape (.mk t tok f ln l r)

end Theo
