import Theo.Generated.Tokens
import Theo.Generated.NodeTypes
import Theo.Generated.Errors
import Theo.Generated.Ops
import Theo.Generated.LexRules
import Theo.Generated.DetectorGrammar
import Theo.Generated.Consts
