/-
  C16 — programs cannot recurse; the call stack is bounded.
  (The VM-level part: for certified bytecode.  The source-level part — a RUN of a name without
  a complete earlier definition is rejected — is in the generator theorems below.)
-/
import Theo.Proofs.WFProofs

namespace Theo

/-- every EXEC of a certified program enters a routine with a strictly smaller id than the
    routine it is executed in: the call graph is acyclic -/
theorem C16_calls_go_down (p : Program) (c : Cert) (h : checkCert p c = true)
    (pc : Nat) (I : PcInfo) (e : Int) (hi : c.info pc = some I) (hx : p.code[pc]? = some (Instr.exec e)) :
    ∃ cf j, I.pend = some (cf, j) ∧ j < I.rid ∧ c.info e = some ⟨cf, j, none⟩ :=
  WF.calls_go_down h hi hx

/-- the activation stack never grows beyond the number of routines plus one (the root) -/
theorem C16_stack_bounded (p : Program) (c : Cert) (h : checkCert p c = true)
    (vm : VM) (hr : Reach p vm) : vm.stack.length ≤ numRoutines p + 1 :=
  WF.stack_bounded h hr

theorem C16_stack_bounded_wf (p : Program) (h : wfCheck p = true)
    (vm : VM) (hr : Reach p vm) : vm.stack.length ≤ numRoutines p + 1 :=
  WF.stack_bounded (c := inferCert p) h hr

end Theo
