/-
  C15 — include resolution terminates, detects cycles, reports what is missing.
  (Also the scan-level clause of C14: exactly one end-of-file token, last.)
-/
import Theo.Proofs.ScanProofs

namespace Theo

/-- Scanning terminates for every include graph: the depth budget `#files + 1` of the model's
    recursion over the include tree is never exhausted (the scanner stack holds pairwise
    different supplied files). -/
theorem C15_terminates (files : Files) (main : Bytes) : (scan files main).fuelOut = false :=
  scan_fuelOut files main

/-- decision logic of one include directive followed by a quoted name, stated outright:
    absent → FILE_NOT_FOUND with the name as request; present and currently being included →
    RECURSIVE_INCLUDE and skipped; otherwise spliced in place -/
theorem C15_include_cases (files : Files) (d : Nat) (active : List Bytes) (f : Bytes)
    (inc n : RawTok) (rest : List RawTok) (hi : inc.kind = Tok.INCLUDE) (hn : n.kind = Tok.FNAME) :
    scanToks files d active f (inc :: n :: rest) =
      (match files.get? (unquote n.text) with
       | none => (ScanOut.mk [] [⟨PErrT.FILE_NOT_FOUND, f, n.line, unquote n.text⟩] false)
       | some content =>
         if active.contains (unquote n.text) then
           (ScanOut.mk [] [⟨PErrT.RECURSIVE_INCLUDE, f, n.line, []⟩] false)
         else scanFile d files active (unquote n.text) content).append
      (scanToks files d active f rest) :=
  scanToks_include files d active f inc n rest hi hn

/-- an include not followed by a quoted name is reported, and the offending token dropped -/
theorem C15_expected_filename (files : Files) (d : Nat) (active : List Bytes) (f : Bytes)
    (inc n : RawTok) (rest : List RawTok) (hi : inc.kind = Tok.INCLUDE) (hn : n.kind ≠ Tok.FNAME) :
    scanToks files d active f (inc :: n :: rest) =
      (ScanOut.mk [] [⟨PErrT.EXPECTED_FILENAME, f, n.line, []⟩] false).append
        (scanToks files d active f rest) ∧
    scanToks files d active f [inc] = ⟨[], [⟨PErrT.EXPECTED_FILENAME, f, inc.line, []⟩], false⟩ :=
  scanToks_expected_filename files d active f inc n rest hi hn

/-- the main file is reported missing exactly when it is absent, with its name as the request -/
theorem C15_main_missing (files : Files) (main : Bytes) :
    (files.get? main = none →
      (scan files main).errs = [⟨PErrT.MAIN_FILE_NOT_FOUND, bDash, -1, main⟩]) ∧
    (files.get? main ≠ none →
      ∀ e ∈ (scan files main).errs, e.kind ≠ PErrT.MAIN_FILE_NOT_FOUND) :=
  scan_main_missing files main

/-- every file reported as not found is indeed absent, and is named as the request -/
theorem C15_missing_are_absent (files : Files) (main : Bytes) (e : PErr)
    (he : e ∈ (scan files main).errs) (hk : e.kind = PErrT.FILE_NOT_FOUND) :
    files.get? e.req = none :=
  scan_missing_absent files main e he hk

/-- the file requests of a compilation are exactly the names carried by the FILE_NOT_FOUND and
    MAIN_FILE_NOT_FOUND errors of the scan, in order -/
theorem C15_file_requests (files : Files) (main : Bytes) :
    ∃ files' : Files, (compile files main).requests =
      ((scan files' main).errs.filter (fun e =>
          e.kind = PErrT.FILE_NOT_FOUND ∨ e.kind = PErrT.MAIN_FILE_NOT_FOUND)).map (·.req) :=
  compile_requests files main

/-- including the same file several times one after another is allowed; including a file that
    is being included is recursive (closed instances on concrete graphs) -/
example :
    let files : Files := [([109], [105,110,99,108,117,100,101,32,34,97,34,32,105,110,99,108,117,100,101,32,34,97,34]),
                          ([97], [120])]      -- m: include "a" include "a"   a: x
    ((scan files [109]).toks.map (·.text) = [[120], [120], bEOF]) ∧ (scan files [109]).errs = [] := by
  decide +kernel

example :
    let files : Files := [([109], [105,110,99,108,117,100,101,32,34,97,34]),
                          ([97], [105,110,99,108,117,100,101,32,34,109,34,32,121])]   -- m: include "a"  a: include "m" y
    (scan files [109]).errs = [⟨PErrT.RECURSIVE_INCLUDE, [97], 1, []⟩] ∧
    (scan files [109]).toks.map (·.text) = [[121], bEOF] := by
  decide +kernel

/-- C14 (stream level): the stream ends with exactly one end-of-file token, which carries the
    position of the last real token -/
theorem C14_one_eof (files : Files) (main : Bytes) :
    ∃ body eof, (scan files main).toks = body ++ [eof] ∧ eof.kind = Tok.T_EOF ∧
      (∀ t ∈ body, t.kind ≠ Tok.T_EOF) ∧
      (∀ l, body.getLast? = some l → eof.file = l.file ∧ eof.line = l.line) :=
  scan_one_eof files main

/-- every token is labelled with the file it came from: a supplied file -/
theorem C14_token_files (files : Files) (main : Bytes) (t : Token)
    (ht : t ∈ (scan files main).toks) (hk : t.kind ≠ Tok.T_EOF) : files.has t.file = true :=
  scan_token_files files main t ht hk

end Theo
