/-
  C02 — every error of a compilation has a location: it names a supplied file (or the hidden
  standard-macro file, or the "-" placeholder) and a line inside that file.

  `Located files file line` is specified in `Theo/Spec/Located.lean`.  `Files` is an association
  list: when a name occurs twice, the first entry counts (`Files.get?`, the lookup used by every
  stage).  When the user supplies a file with the standard file's name, that content is what is
  scanned under the name, and its line count is the bound.

  The proof follows the token stream: every token of the scan is located (its line is between 1
  and 1 + the number of newlines of its buffer; the final EOF token takes the position of the last
  token, or (main, 1), or ("-", -1)); extraction, application (replacement tokens come from the
  stream or from bodies), the descent (errors at the current token or at the synthetic
  end-of-input ("-", -1); nodes copy token positions) and the generator (errors at the file
  context, which is ("-", -1) or the position of a visited node) only move positions around.
-/
import Theo.Proofs.LocatedProofs1
import Theo.Proofs.LocatedProofs4

namespace Theo
open Loc

theorem located_dash (files : Files) : Located files bDash (-1) := Or.inl ⟨rfl, rfl⟩

/-- the scan performed by `parseFiles` (standard file added unless supplied, include phrase in
    front of the main file): every token and every scanner error is located -/
theorem C02_scan_located (files : Files) (main : Bytes) :
    (∀ t ∈ (scan (scanFiles files main) main).toks, Located files t.file t.line) ∧
    (∀ e ∈ (scan (scanFiles files main) main).errs, Located files e.file e.line) :=
  scan_located files main

/-- a plain scan of the supplied files (no standard file): tokens and errors are at the
    placeholder or on a line of a supplied file -/
theorem C02_plain_scan_located (files : Files) (main : Bytes) :
    (∀ t ∈ (scan files main).toks, Located files t.file t.line) ∧
    (∀ e ∈ (scan files main).errs, Located files e.file e.line) := by
  have key : ∀ f l, PLoc files f l → Located files f l := by
    intro f l h
    rcases h with h | ⟨c, hc, hl⟩
    · exact Or.inl h
    · right; rw [hc]; exact hl
  exact ⟨fun t ht => key _ _ ((scan_loc files main).1 t ht),
         fun e he => key _ _ ((scan_loc files main).2 e he)⟩

/-- the stages of `parseFiles`, named -/
abbrev frontScan (files : Files) (main : Bytes) : ScanOut := scan (scanFiles files main) main
abbrev frontExtract (files : Files) (main : Bytes) : ExtractOut := extractMacros (frontScan files main).toks
abbrev frontApply (files : Files) (main : Bytes) (passes : Nat) : ApplyOut :=
  applyMacros (frontExtract files main).toks (frontExtract files main).macros passes

theorem parseFiles_stages (files : Files) (main : Bytes) (passes : Nat) :
    (parseFiles files main passes).ast.errs =
      (parseTokens (frontApply files main passes).toks).2 ++
        ((frontScan files main).errs ++ (frontExtract files main).errs ++
          (frontApply files main passes).errs).map
            (fun e => (⟨.forwarded e.kind, e.file, e.line⟩ : SynErr)) ∧
    (parseFiles files main passes).ast.root = (parseTokens (frontApply files main passes).toks).1 := by
  simp only [parseFiles, frontApply, frontExtract, frontScan, scanFiles, stdFiles]
  exact ⟨trivial, trivial⟩

/-- the token stream handed to the descent is located, and so are the errors of the stages
    before it -/
theorem parse_stream_located (files : Files) (main : Bytes) (passes : Nat) :
    ToksP (Located files) (frontApply files main passes).toks ∧
    ErrsP (Located files) (frontScan files main).errs ∧
    ErrsP (Located files) (frontExtract files main).errs ∧
    ErrsP (Located files) (frontApply files main passes).errs := by
  have hs := scan_located files main
  have he := extractMacros_inv (P := Located files) (frontScan files main).toks
    (scan_toks_ne_nil _ _) hs.1
  have ha := applyMacros_inv (P := Located files) (frontExtract files main).toks
    (frontExtract files main).macros passes (located_dash files) he.2.1 he.2.2
  exact ⟨ha.1, hs.2, he.1, ha.2⟩

/-- every error of the front end (scanner, macro stages, descent) is located -/
theorem C02_parse_errors_located (files : Files) (main : Bytes) (passes : Nat) :
    ∀ e ∈ (parseFiles files main passes).ast.errs, Located files e.file e.line := by
  obtain ⟨htoks, h1, h2, h3⟩ := parse_stream_located files main passes
  rw [(parseFiles_stages files main passes).1]
  intro e he
  rcases List.mem_append.1 he with h | h
  · exact parseTokens_errs _ (located_dash files) htoks e h
  · obtain ⟨x, hx, rfl⟩ := List.mem_map.1 h
    simp only [List.mem_append] at hx
    rcases hx with (hx | hx) | hx
    · exact h1 x hx
    · exact h2 x hx
    · exact h3 x hx

/-- every node of the tree of a correct parse is located -/
theorem C02_tree_located (files : Files) (main : Bytes) (passes : Nat)
    (hok : (parseFiles files main passes).ast.ok = true) :
    NodeP (Located files) (parseFiles files main passes).ast.root := by
  obtain ⟨htoks, _, _, _⟩ := parse_stream_located files main passes
  have hnil : (parseFiles files main passes).ast.errs = [] := by
    rw [parseFiles_ok_eq] at hok
    exact List.isEmpty_iff.1 hok
  rw [(parseFiles_stages files main passes).1] at hnil
  rw [(parseFiles_stages files main passes).2]
  exact parseTokens_root _ (located_dash files) htoks (List.append_eq_nil_iff.1 hnil).1

/-- the generator: given located parse errors and a located tree, every error is located -/
theorem C02_gen_located (files : Files) (a : AST)
    (he : ∀ e ∈ a.errs, Located files e.file e.line)
    (hn : a.ok = true → NodeP (Located files) a.root) :
    ∀ e ∈ (gen a).errors, Located files e.file e.line :=
  gen_errors_P a (Or.inl ⟨rfl, rfl⟩) he hn

/-- every error of every compilation is located in a supplied file (or the standard file, or "-")
    on a line inside it -/
theorem C02_errors_located (files : Files) (main : Bytes) :
    ∀ e ∈ (compile files main).errors, Located files e.file e.line := by
  have h : (compile files main).errors = (gen (parseFiles files main).ast).errors := by
    simp only [compile]
  rw [h]
  exact C02_gen_located files _ (C02_parse_errors_located files main _)
    (C02_tree_located files main _)

/-! ### the statement is not vacuous and the specification is not trivially true -/

-- m: "x0 := 1;\n\nGOTO a\n"   (jump to an undefined mark: UNKNOWN_MARK at m:3)
example :
    let files : Files := [([109], [120,48,32,58,61,32,49,59,10,10,71,79,84,79,32,97,10])]
    (compile files [109]).errors = [⟨GErrT.UNKNOWN_MARK, [109], 3⟩, ⟨GErrT.UNKNOWN_MARK, [109], 3⟩] ∧
    Located files [109] 3 ∧ Located files [109] 4 ∧ ¬ Located files [109] 5 ∧ ¬ Located files [109] 0 ∧
    ¬ Located files [113] 1 ∧ Located files ConstGen.stdFileName 3 ∧ ¬ Located files ConstGen.stdFileName 4 := by
  decide +kernel

-- the main file is missing: the placeholder
example :
    let files : Files := [([109], [120])]
    (scan files [113]).errs = [⟨PErrT.MAIN_FILE_NOT_FOUND, bDash, -1, [113]⟩] ∧
    Located files bDash (-1) ∧ ¬ Located files bDash 1 := by
  decide +kernel

-- an empty main file: the syntax error is reported in the hidden standard file, line 2 (the
-- last token of the stream is the END DEFINE of its second line)
example :
    let files : Files := [([109], [])]
    (parseFiles files [109] 4).ast.errs = [⟨.expectedComponent, ConstGen.stdFileName, 2⟩] := by
  decide +kernel

-- a user file with the standard file's name replaces the hidden text: its lines count
example :
    let files : Files := [(ConstGen.stdFileName, [10, 10, 10, 10, 59])]    -- "\n\n\n\n;"
    (parseFiles files ConstGen.stdFileName 4).ast.errs.map (fun e => (e.file, e.line)) =
      [(ConstGen.stdFileName, 5), (ConstGen.stdFileName, 5), (ConstGen.stdFileName, 5),
       (ConstGen.stdFileName, 1)] ∧
    Located files ConstGen.stdFileName 5 := by
  decide +kernel

end Theo
