/-
  C20 — machine arithmetic is always defined; values stay natural numbers.
-/
import Theo.Proofs.VMInvA

namespace Theo

/-- every stored word lies in `[0, 2^31-1]`, at every point of every history -/
theorem C20_values_in_range (p : Program) (h : ConstOK p.code) (vm : VM) (hr : Reach p vm) :
    ∀ w ∈ vm.data, InRange w :=
  reach_range h vm hr

/-- subtraction truncates at zero -/
theorem C20_sub_truncates (v c : Int) (h : v + c < 0) : addClamp v c = 0 :=
  addClamp_neg v c h

/-- an addition whose mathematical result exceeds the word range yields a defined value -/
theorem C20_add_saturates (v c : Int) (h : INT_MAX < v + c) : addClamp v c = INT_MAX :=
  addClamp_sat v c h

/-- inside the range the addition is exact -/
theorem C20_add_exact (v c : Int) (h0 : 0 ≤ v + c) (h1 : v + c ≤ INT_MAX) : addClamp v c = v + c :=
  addClamp_exact v c h0 h1

example : addClamp 2147483646 5 = INT_MAX ∧ addClamp 3 (-5) = 0 ∧ addClamp 3 4 = 7 := by decide

end Theo
