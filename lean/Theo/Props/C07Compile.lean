/-
  C07 for the generator model and end to end — stepping through a compiled program visits exactly
  the lines the reference semantics visits.

  Until now C07 was established per program: `siteCheck` (sound by Props/C07.lean) is run on every
  program the compiler emits for generated one-statement-per-line sources.  Here the validator's
  verdict is PROVED for the generator model (`C07_gen_sites`): for every tree of the parser's shape
  that obeys the static rules, the identifier conditions of C01 (`NamesOK`) and the layout
  predicate `OneStmtPerLine` (Spec/Layout.lean), the code of `gen` passes `siteCheck`.  The proof
  (Proofs/GenSites*.lean) extends the statement-by-statement correspondence of C01_gen_shape by the
  site bookkeeping: the generator's file context against the validator's "previous statement", one
  site exactly when the line changes, the line table naming that line, labels holding the
  position of their own site, loop exits and back-edges landing exactly.

  With C01 (an accepted compilation has a tree of the parser's shape, obeys the static rules, and
  its identifiers are user identifiers) and C03 (its code passes the bytecode verifier) this gives
  `C07_compile_step_trace`: for EVERY accepted compilation of a source in that layout, without
  doubly defined jump targets, the sites a run passes are the lines the reference semantics
  visits, in order, with the source-level variable values in every live activation at every stop;
  and the bytecode passes no other site.

  THE LAYOUT PREDICATE is stated on the tree (positions are those of the tokens the nodes were
  built from) and is as weak as the proof allows; see Spec/Layout.lean for the six clauses.  Each
  clause is needed — for each there is below an accepted source (kernel-checked: error-free parse,
  parser shape, static rules, `NamesOK`) that violates only that clause and whose code `siteCheck`
  refuses (evaluated by `#guard`; `toSource` does not reduce in the kernel as soon as a value is
  needed).  In every such case the refusal is right: the stepping trace of the bytecode differs
  from the visit sequence of the source (one site stands for two statements, or a statement has
  none).  Layouts a user would call one statement per line and that are ACCEPTED: a label on the
  line of its statement or alone on a line; `END; next` on one line (END is a label); a PROGRAM
  header spanning lines, or sharing its line with the END of the previous definition (the header's
  own site is removed by `removeTopPotBreak`, the validator expects none); the built-in `x + c`
  (its inserted tokens lie in the hidden standard file, which `advanceLine` ignores).
  No discrepancy between generator and validator was found: for every tree satisfying the
  predicate the statement holds.
-/
import Theo.Proofs.GenSitesGen
import Theo.Props.C07
import Theo.Props.C01Compile

namespace Theo
open Sem

/-! ### the generator model -/

/-- the generator-level completeness of `siteCheck`: for a tree of the parser's shape that obeys
    the static rules, the identifier conditions and the one-statement-per-line layout, every site
    of the generated code is where that layout puts it and names that statement's line, there is
    no other site, and loop exits / back-edges / gotos land exactly -/
theorem C07_gen_sites (root : Node) (h : AstShape root = true) (hs : staticOK (toSource root) = true)
    (hn : NamesOK root = true) (hl : OneStmtPerLine root = true) :
    siteCheck (toSource root) (gen ⟨true, [], root⟩).code = true :=
  GenSites.gen_sites root h hs hn hl

/-- … for parsed sources: error-free parse, identifiers as a user can write them, the static
    rules, no repeated jump target, the layout -/
theorem C07_gen_sites_parsed (ts : List Token) (he : (parseTokens ts).2 = [])
    (hid : ∀ t ∈ ts, t.kind = Tok.ID → identShape t.text = true ∨ t.text.head? = some 35)
    (hs : staticOK (toSource (parseTokens ts).1) = true) (hlab : LabelsOK (parseTokens ts).1 = true)
    (hl : OneStmtPerLine (parseTokens ts).1 = true) :
    siteCheck (toSource (parseTokens ts).1) (gen ⟨true, [], (parseTokens ts).1⟩).code = true := by
  refine C07_gen_sites _ (Static.parser_shape ts he) hs ?_ hl
  rw [C01_parser_names ts he]
  · exact hlab
  · intro t ht hk
    rcases hid t ht hk with h | h
    · exact varOK_of_identShape _ h
    · exact varOK_of_hash _ h

/-! ### end to end -/

/-- the code of an accepted compilation of a source in the one-statement-per-line layout passes
    `siteCheck`: the validator's verdict, proved instead of computed -/
theorem C07_compile_sites (files : Files) (main : Bytes)
    (hok : (compile files main).ok = true)
    (hlab : LabelsOK (parseFiles files main).ast.root = true)
    (hl : OneStmtPerLine (parseFiles files main).ast.root = true) :
    siteCheck (toSource (parseFiles files main).ast.root) (compile files main).code = true := by
  obtain ⟨he, _, hroot, hcode, hs⟩ := C01_accepted_parts files main hok
  rw [hroot] at hlab hl ⊢
  rw [hcode]
  exact C07_gen_sites_parsed _ he (C01_front_end_identifiers files main) hs hlab hl

/-- for every accepted compilation of a source laid out one statement per line (and without
    doubly defined jump targets), stepping through the compiled program visits exactly the lines
    the reference semantics visits:
     * every finite prefix of the source-level visit sequence is the site sequence of some
       bytecode prefix, with the source-level variable values in every live activation at every
       stop;
     * the bytecode passes no site the source does not visit;
     * with stepping mode on, the VM stops at every site it executes. -/
theorem C07_compile_step_trace (files : Files) (main : Bytes)
    (hok : (compile files main).ok = true)
    (hlab : LabelsOK (parseFiles files main).ast.root = true)
    (hl : OneStmtPerLine (parseFiles files main).ast.root = true) :
    let src := toSource (parseFiles files main).ast.root
    let p := (compile files main).code
    (∀ n, ∃ m, (sitesPassed p m (VM.mk' p)).map (fun x => posOfBp x.1) = visits src n (initial src) ∧
        StopsAgree p (visitConfigs src n (initial src)) (sitesPassed p m (VM.mk' p))) ∧
    (∀ m, ∃ n, (sitesPassed p m (VM.mk' p)).map (fun x => posOfBp x.1) <+: visits src n (initial src)) ∧
    (∀ (vm vm' : VM) (r : Bool), step vm = .ok (vm', r) → vm.stepping = true →
        fetch vm.code vm.ip = .ok Instr.potBreak → r = true) := by
  intro src p
  have hs : siteCheck src p = true := C07_compile_sites files main hok hlab hl
  have hw : wfCheck p = true := C03_compile_wf files main hok
  exact ⟨C07_step_trace src p hs hw, C07_no_extra_stops src p hs hw,
    fun vm vm' r h hst hf => C07_stepping_stops_at_sites vm vm' r h hst hf⟩

/-- … the first part alone -/
theorem C07_compile_visits (files : Files) (main : Bytes)
    (hok : (compile files main).ok = true)
    (hlab : LabelsOK (parseFiles files main).ast.root = true)
    (hl : OneStmtPerLine (parseFiles files main).ast.root = true) (n : Nat) :
    ∃ m, (sitesPassed (compile files main).code m (VM.mk' (compile files main).code)).map (fun x => posOfBp x.1) =
        visits (toSource (parseFiles files main).ast.root) n (initial (toSource (parseFiles files main).ast.root)) ∧
      StopsAgree (compile files main).code
        (visitConfigs (toSource (parseFiles files main).ast.root) n (initial (toSource (parseFiles files main).ast.root)))
        (sitesPassed (compile files main).code m (VM.mk' (compile files main).code)) :=
  (C07_compile_step_trace files main hok hlab hl).1 n

/-! ### non-vacuity -/

namespace C07Demo

def fm : Bytes := [109]
def tk (k : Nat) (s : Bytes) (ln : Int) : Token := ⟨k, s, fm, ln⟩
def std (k : Nat) (s : Bytes) : Token := ⟨k, s, ConstGen.genStdFileName, 1⟩
def eof (ln : Int) : Token := tk Tok.T_EOF [69, 79, 70] ln
def X : Bytes := [120]
def Y : Bytes := [121]
def Z : Bytes := [122]
def asg (v : Bytes) (n : UInt8) (ln : Int) : List Token := [tk Tok.ID v ln, tk Tok.ASSIGN [58, 61] ln, tk Tok.INT [n] ln]
def semi (ln : Int) : Token := tk Tok.PROGSEP [59] ln
def loopHdr (ln : Int) : List Token := [tk Tok.LOOP [76] ln, tk Tok.ID X ln, tk Tok.DO [68] ln]
def endT (ln : Int) : Token := tk Tok.END [69] ln
def lbl (n : Bytes) (ln : Int) : List Token := [tk Tok.ID n ln, tk Tok.LABELDEC [58] ln]
def progHdr (ln : Int) : List Token := [tk Tok.PROGRAM [80] ln, tk Tok.ID [102] ln, tk Tok.DO [68] ln]

/-- twelve lines: a PROGRAM with a built-in `a + 1` (tokens of the hidden standard file), a call,
    a LOOP, a label alone on its line, the built-in `x - 1`, a conditional GOTO, a GOTO, a labelled STOP
```
 1  PROGRAM f IN a OUT r DO
 2  r := a + 1
 3  END
 4  x := RUN f WITH 2 END;
 5  LOOP x DO
 6  y := y + 1
 7  END;
 8  l:
 9  x := x - 1;
10  IF x = 0 THEN GOTO e;
11  GOTO l;
12  e: STOP
``` -/
def demo : List Token :=
  [tk Tok.PROGRAM [80] 1, tk Tok.ID [102] 1, tk Tok.IN [73] 1, tk Tok.ID [97] 1, tk Tok.OUT [79] 1, tk Tok.ID [114] 1, tk Tok.DO [68] 1,
   tk Tok.ID [114] 2, tk Tok.ASSIGN [58, 61] 2, std Tok.RUN [82], std Tok.ID bINC, std Tok.WITH [87], tk Tok.ID [97] 2,
     std Tok.ARGSEP [44], tk Tok.INT [49] 2, std Tok.END [69],
   endT 3,
   tk Tok.ID X 4, tk Tok.ASSIGN [58, 61] 4, tk Tok.RUN [82] 4, tk Tok.ID [102] 4, tk Tok.WITH [87] 4, tk Tok.INT [50] 4, endT 4, semi 4,
   tk Tok.LOOP [76] 5, tk Tok.ID X 5, tk Tok.DO [68] 5,
   tk Tok.ID Y 6, tk Tok.ASSIGN [58, 61] 6, std Tok.RUN [82], std Tok.ID bINC, std Tok.WITH [87], tk Tok.ID Y 6,
     std Tok.ARGSEP [44], tk Tok.INT [49] 6, std Tok.END [69],
   endT 7, semi 7,
   tk Tok.ID [108] 8, tk Tok.LABELDEC [58] 8,
   tk Tok.ID X 9, tk Tok.ASSIGN [58, 61] 9, std Tok.RUN [82], std Tok.ID bDEC, std Tok.WITH [87], tk Tok.ID X 9,
     std Tok.ARGSEP [44], tk Tok.INT [49] 9, std Tok.END [69], semi 9,
   tk Tok.IF [73] 10, tk Tok.ID X 10, tk Tok.EQ [61] 10, tk Tok.INT [48] 10, tk Tok.THEN [84] 10, tk Tok.GOTO [71] 10, tk Tok.ID [101] 10, semi 10,
   tk Tok.GOTO [71] 11, tk Tok.ID [108] 11, semi 11,
   tk Tok.ID [101] 12, tk Tok.LABELDEC [58] 12, tk Tok.STOP [83] 12,
   eof 12]

/-- all hypotheses hold for the parser's tree (kernel-checked) … -/
theorem demo_hyps : (parseTokens demo).2 = [] ∧ AstShape (parseTokens demo).1 = true ∧
    staticOK (toSource (parseTokens demo).1) = true ∧ NamesOK (parseTokens demo).1 = true ∧
    OneStmtPerLine (parseTokens demo).1 = true := by
  refine ⟨by decide +kernel, by decide +kernel, ?_, by decide +kernel, by decide +kernel⟩
  rw [← Static.topOK_static _ (by decide +kernel)]
  decide +kernel

/-- … hence its code passes `siteCheck`, without running the validator -/
theorem demo_sites :
    siteCheck (toSource (parseTokens demo).1) (gen ⟨true, [], (parseTokens demo).1⟩).code = true :=
  C07_gen_sites _ demo_hyps.2.1 demo_hyps.2.2.1 demo_hyps.2.2.2.1 demo_hyps.2.2.2.2

-- (and running it agrees)
#guard siteCheck (toSource (parseTokens demo).1) (gen ⟨true, [], (parseTokens demo).1⟩).code

/-! ### the same program from source text, through every stage of `compile` -/

/-- the text of the main file `m` (twelve lines, see `demo`) -/
def text : Bytes :=
  [80, 82, 79, 71, 82, 65, 77, 32, 102, 32, 73, 78, 32, 97, 32, 79, 85, 84, 32, 114, 32, 68, 79, 10, 114, 32, 58, 61, 32,
   97, 32, 43, 32, 49, 10, 69, 78, 68, 10, 120, 32, 58, 61, 32, 82, 85, 78, 32, 102, 32, 87, 73, 84, 72, 32, 50, 32, 69,
   78, 68, 59, 10, 76, 79, 79, 80, 32, 120, 32, 68, 79, 10, 121, 32, 58, 61, 32, 121, 32, 43, 32, 49, 10, 69, 78, 68, 59,
   10, 108, 58, 10, 120, 32, 58, 61, 32, 120, 32, 45, 32, 49, 59, 10, 73, 70, 32, 120, 32, 61, 32, 48, 32, 84, 72, 69, 78,
   32, 71, 79, 84, 79, 32, 101, 59, 10, 71, 79, 84, 79, 32, 108, 59, 10, 101, 58, 32, 83, 84, 79, 80]

#guard text == "PROGRAM f IN a OUT r DO\nr := a + 1\nEND\nx := RUN f WITH 2 END;\nLOOP x DO\ny := y + 1\nEND;\nl:\nx := x - 1;\nIF x = 0 THEN GOTO e;\nGOTO l;\ne: STOP".toUTF8.toList

def files : Files := [(fm, text)]

/-- kernel-checked, by evaluating the whole model: the compilation is accepted, no jump target is
    defined twice, the tree is laid out one statement per line -/
theorem text_facts : (compile files fm).ok = true ∧ LabelsOK (parseFiles files fm).ast.root = true ∧
    OneStmtPerLine (parseFiles files fm).ast.root = true := by
  decide +kernel

/-- hence, without running validator, verifier or VM: the stepping trace of the compiled program is
    the visit sequence of the source -/
theorem text_step_trace :
    let src := toSource (parseFiles files fm).ast.root
    let p := (compile files fm).code
    (∀ n, ∃ m, (sitesPassed p m (VM.mk' p)).map (fun x => posOfBp x.1) = visits src n (initial src) ∧
        StopsAgree p (visitConfigs src n (initial src)) (sitesPassed p m (VM.mk' p))) ∧
    (∀ m, ∃ n, (sitesPassed p m (VM.mk' p)).map (fun x => posOfBp x.1) <+: visits src n (initial src)) ∧
    (∀ (vm vm' : VM) (r : Bool), step vm = .ok (vm', r) → vm.stepping = true →
        fetch vm.code vm.ip = .ok Instr.potBreak → r = true) :=
  C07_compile_step_trace files fm text_facts.1 text_facts.2.1 text_facts.2.2

/-! The concrete runs are evaluated: the reference execution visits the lines
    4 (the call) 2 3 (the body of `f`) 5 6 6 6 7 (three turns of the loop) 8 9 10 11 8 9 10 11 8 9 10 12,
    and so does the bytecode. -/
#guard (visits (toSource (parseFiles files fm).ast.root) 200 (initial (toSource (parseFiles files fm).ast.root))).map (·.2)
  == [4, 2, 3, 5, 6, 6, 6, 7, 8, 9, 10, 11, 8, 9, 10, 11, 8, 9, 10, 12]
#guard (sitesPassed (compile files fm).code 400 (VM.mk' (compile files fm).code)).map (fun x => (posOfBp x.1).2)
  == [4, 2, 3, 5, 6, 6, 6, 7, 8, 9, 10, 11, 8, 9, 10, 11, 8, 9, 10, 12]
#guard siteCheck (toSource (parseFiles files fm).ast.root) (compile files fm).code

/-! ### each clause of `OneStmtPerLine` is needed

  accepted sources (error-free parse, parser shape, static rules, `NamesOK`: kernel-checked) that
  violate the layout in one way, and whose code `siteCheck` refuses (evaluated) -/

def accepted (root : Node) : Prop := AstShape root = true ∧ staticOK (toSource root) = true ∧ NamesOK root = true
def refused (root : Node) : Bool := !siteCheck (toSource root) (gen ⟨true, [], root⟩).code

theorem accepted_of (root : Node) (h : AstShape root = true) (ht : Static.topOK (fun _ => none) root = true)
    (hn : NamesOK root = true) : accepted root :=
  ⟨h, by rw [← Static.topOK_static _ h]; exact ht, hn⟩

/-- clause 1, two statements on one line: `x := 1; y := 2` -/
def twoOnLine := asg X 49 1 ++ [semi 1] ++ asg Y 50 1 ++ [eof 1]
example : (parseTokens twoOnLine).2 = [] ∧ accepted (parseTokens twoOnLine).1 ∧ OneStmtPerLine (parseTokens twoOnLine).1 = false :=
  ⟨by decide, accepted_of _ (by decide) (by decide) (by decide), by decide⟩
#guard refused (parseTokens twoOnLine).1

/-- clause 1, the first statement of a body on the header's line: `LOOP x DO y := 1 ⏎ END` -/
def bodyOnHeader := loopHdr 1 ++ asg Y 49 1 ++ [endT 2, eof 2]
example : (parseTokens bodyOnHeader).2 = [] ∧ accepted (parseTokens bodyOnHeader).1 ∧ OneStmtPerLine (parseTokens bodyOnHeader).1 = false :=
  ⟨by decide, accepted_of _ (by decide) (by decide) (by decide), by decide⟩
#guard refused (parseTokens bodyOnHeader).1

/-- clauses 1/2, END on the line of the last statement of the body: `LOOP x DO ⏎ y := 1 END` -/
def endOnLast := loopHdr 1 ++ asg Y 49 2 ++ [endT 2, eof 2]
example : (parseTokens endOnLast).2 = [] ∧ accepted (parseTokens endOnLast).1 ∧ OneStmtPerLine (parseTokens endOnLast).1 = false :=
  ⟨by decide, accepted_of _ (by decide) (by decide) (by decide), by decide⟩
#guard refused (parseTokens endOnLast).1

/-- clause 1, a statement directly behind a loop (no END mark: not a parser tree) on the line where
    the body ended -/
def afterLoopNode : Node :=
  .mk NodeT.SPLIT [] fm 1
    (.mk NodeT.LOOP [] fm 1 (.mk NodeT.NAME X fm 1 .nil .nil)
      (.mk NodeT.ASSIGN [] fm 2 (.mk NodeT.NAME Y fm 2 .nil .nil) (.mk NodeT.NUMBER [49] fm 2 .nil .nil)))
    (.mk NodeT.ASSIGN [] fm 2 (.mk NodeT.NAME Z fm 2 .nil .nil) (.mk NodeT.NUMBER [50] fm 2 .nil .nil))
example : accepted afterLoopNode ∧ OneStmtPerLine afterLoopNode = false :=
  ⟨accepted_of _ (by decide) (by decide) (by decide), by decide⟩
#guard refused afterLoopNode

/-- clause 2, a label on the line of the statement before it: `x := 1; l: ⏎ y := 2` -/
def labelAfterStmt := asg X 49 1 ++ [semi 1] ++ lbl [108] 1 ++ asg Y 50 2 ++ [eof 2]
example : (parseTokens labelAfterStmt).2 = [] ∧ accepted (parseTokens labelAfterStmt).1 ∧ OneStmtPerLine (parseTokens labelAfterStmt).1 = false :=
  ⟨by decide, accepted_of _ (by decide) (by decide) (by decide), by decide⟩
#guard refused (parseTokens labelAfterStmt).1

/-- clause 2, two labels on one line: `a: b: x := 1` -/
def twoLabels := lbl [97] 1 ++ lbl [98] 1 ++ asg X 49 1 ++ [eof 1]
example : (parseTokens twoLabels).2 = [] ∧ accepted (parseTokens twoLabels).1 ∧ OneStmtPerLine (parseTokens twoLabels).1 = false :=
  ⟨by decide, accepted_of _ (by decide) (by decide) (by decide), by decide⟩
#guard refused (parseTokens twoLabels).1

/-- clause 3, the first statement of a PROGRAM body on the header's line: `PROGRAM f DO x0 := 1 ⏎ END ⏎ y := 2` -/
def headerLine := progHdr 1 ++ asg [120, 48] 49 1 ++ [endT 2] ++ asg Y 50 3 ++ [eof 3]
example : (parseTokens headerLine).2 = [] ∧ accepted (parseTokens headerLine).1 ∧ OneStmtPerLine (parseTokens headerLine).1 = false :=
  ⟨by decide, accepted_of _ (by decide) (by decide) (by decide), by decide⟩
#guard refused (parseTokens headerLine).1

/-- clause 3, the first main statement on the line of the END of the last definition:
    `PROGRAM f DO ⏎ x0 := 1 ⏎ END y := 2` -/
def afterProgEnd := progHdr 1 ++ asg [120, 48] 49 2 ++ [endT 3] ++ asg Y 50 3 ++ [eof 3]
example : (parseTokens afterProgEnd).2 = [] ∧ accepted (parseTokens afterProgEnd).1 ∧ OneStmtPerLine (parseTokens afterProgEnd).1 = false :=
  ⟨by decide, accepted_of _ (by decide) (by decide) (by decide), by decide⟩
#guard refused (parseTokens afterProgEnd).1

/-- clause 3, a first statement at the generator's initial pseudo-position `- : -1` -/
def rootPos : List Token :=
  [⟨Tok.ID, X, ConstGen.rootFsName, ConstGen.rootFsLine⟩, ⟨Tok.ASSIGN, [58, 61], ConstGen.rootFsName, ConstGen.rootFsLine⟩,
   ⟨Tok.INT, [49], ConstGen.rootFsName, ConstGen.rootFsLine⟩, eof 1]
example : (parseTokens rootPos).2 = [] ∧ accepted (parseTokens rootPos).1 ∧ OneStmtPerLine (parseTokens rootPos).1 = false :=
  ⟨by decide, accepted_of _ (by decide) (by decide) (by decide), by decide⟩
#guard refused (parseTokens rootPos).1

/-- clause 4, a call whose arguments span lines: `x := RUN f WITH 1, ⏎ 2 END` -/
def argsSpan : List Token :=
  [tk Tok.PROGRAM [80] 1, tk Tok.ID [102] 1, tk Tok.IN [73] 1, tk Tok.ID [97] 1, tk Tok.ARGSEP [44] 1, tk Tok.ID [98] 1, tk Tok.DO [68] 1,
   tk Tok.ID [120, 48] 2, tk Tok.ASSIGN [58, 61] 2, tk Tok.ID [97] 2, endT 3,
   tk Tok.ID X 4, tk Tok.ASSIGN [58, 61] 4, tk Tok.RUN [82] 4, tk Tok.ID [102] 4, tk Tok.WITH [87] 4, tk Tok.INT [49] 4, tk Tok.ARGSEP [44] 4,
   tk Tok.INT [50] 5, endT 5, eof 5]
example : (parseTokens argsSpan).2 = [] ∧ accepted (parseTokens argsSpan).1 ∧ OneStmtPerLine (parseTokens argsSpan).1 = false :=
  ⟨by decide, accepted_of _ (by decide) (by decide) (by decide), by decide⟩
#guard refused (parseTokens argsSpan).1

/-- clause 5, a statement whose tokens lie in the standard file (a user-supplied `__standards__`) -/
def stdStmt : List Token := [std Tok.ID X, std Tok.ASSIGN [58, 61], std Tok.INT [49], eof 1]
example : (parseTokens stdStmt).2 = [] ∧ accepted (parseTokens stdStmt).1 ∧ OneStmtPerLine (parseTokens stdStmt).1 = false :=
  ⟨by decide, accepted_of _ (by decide) (by decide) (by decide), by decide⟩
#guard refused (parseTokens stdStmt).1

/-- clause 6, a sequencing node on a line of its own (not a parser tree) -/
def splitNode : Node :=
  .mk NodeT.SPLIT [] fm 2 .nil (.mk NodeT.ASSIGN [] fm 3 (.mk NodeT.NAME X fm 3 .nil .nil) (.mk NodeT.NUMBER [49] fm 3 .nil .nil))
example : accepted splitNode ∧ OneStmtPerLine splitNode = false :=
  ⟨accepted_of _ (by decide) (by decide) (by decide), by decide⟩
#guard refused splitNode

/-! ### … and what the predicate accepts -/

/-- `l: x := 1` on one line; a label alone on its line -/
def labelLine := lbl [108] 1 ++ asg X 49 1 ++ [semi 1] ++ lbl [97] 2 ++ asg Y 50 3 ++ [eof 3]
/-- `LOOP x DO ⏎ y := 1 ⏎ END; z := 2`: END is a label -/
def afterEnd := loopHdr 1 ++ asg Y 49 2 ++ [endT 3, semi 3] ++ asg Z 50 3 ++ [eof 3]
/-- a header spanning five lines, the next header on the line of the previous END -/
def headers : List Token :=
  [tk Tok.PROGRAM [80] 1, tk Tok.ID [102] 2, tk Tok.IN [73] 2, tk Tok.ID [97] 3, tk Tok.ARGSEP [44] 3, tk Tok.ID [98] 4, tk Tok.DO [68] 5,
   tk Tok.ID [120, 48] 6, tk Tok.ASSIGN [58, 61] 6, tk Tok.ID [97] 6, endT 7,
   tk Tok.PROGRAM [80] 7, tk Tok.ID [103] 7, tk Tok.DO [68] 7] ++ asg [120, 48] 50 8 ++ [endT 9] ++ asg Y 50 10 ++ [eof 10]

example : OneStmtPerLine (parseTokens labelLine).1 = true ∧ OneStmtPerLine (parseTokens afterEnd).1 = true ∧
    OneStmtPerLine (parseTokens headers).1 = true := by decide
#guard !refused (parseTokens labelLine).1 && !refused (parseTokens afterEnd).1 && !refused (parseTokens headers).1

end C07Demo

end Theo
