/-
  C14 — identifiers: a word is lexed as ONE identifier token exactly when it is identifier-shaped
  (`[a-zA-Z_][a-zA-Z0-9_]*`) and is not a documented keyword spelling.
  The rule table and the keyword table are regenerated from lexer.l on every run; the proofs use
  them only through closed facts re-checked by kernel evaluation (see `Theo/Proofs/LexIdent.lean`)
  and through `C14_keywords` / `C14_keywords_documented`.
-/
import Theo.Props.C14
import Theo.Proofs.LexIdent

namespace Theo

/-- the regenerated keyword table and the pinned documented table have the same entries -/
theorem C14_mem_keywords_iff (e : Bytes × Nat) : e ∈ LexGen.keywords ↔ e ∈ documentedKeywords := by
  have h := C14_keywords_documented
  simp only [Bool.and_eq_true, List.all_eq_true, List.contains_iff_mem] at h
  exact ⟨h.1 e, h.2 e⟩

/-- the identifier rule of the regenerated table: the first rule with action `ID` carries the
    identifier pattern (a start-class followed by a starred character-class, whose byte sets are
    exactly `isIdStart` / `isIdChar`), and its language is exactly the identifier-shaped words -/
theorem C14_identifier_rule :
    ∃ r, LexGen.rules[idIdx]? = some (r, some Tok.ID) ∧ ∀ w, r.Matches w ↔ identShape w = true := by
  obtain ⟨r, hr, hi⟩ := idRule_get
  exact ⟨r, hr, Rx.isIdentRx_matches hi⟩

/-- every rule with action `ID` matches identifier-shaped words only -/
theorem C14_identifier_rules_only (i : Nat) (r : Rx) (w : Bytes)
    (hr : LexGen.rules[i]? = some (r, some Tok.ID)) (hm : r.Matches w) : identShape w = true := by
  have := List.all_eq_true.1 idRules_ident _ (List.mem_of_getElem? hr)
  simp only [bne_self_eq_false, Bool.false_or] at this
  exact (Rx.isIdentRx_matches this w).1 hm

/-- a rule standing before the identifier rule matches an identifier-shaped word only if that
    word is a keyword spelling (so: integers, quoted names, `$n`, `#n`, whitespace, operators,
    `END DEFINE`, `!= 0` never take an identifier-shaped word; keyword rules take only their
    listed spellings) -/
theorem C14_earlier_rules (j : Nat) (r : Rx) (w : Bytes) (hj : j < idIdx)
    (hr : (LexGen.rules.map (·.1))[j]? = some r) (hm : r.Matches w) (hw : identShape w = true) :
    ∃ k, (w, k) ∈ documentedKeywords := by
  obtain ⟨k, hk⟩ := earlier_rule_keyword hj hr hm hw
  exact ⟨k, (C14_mem_keywords_iff _).1 hk⟩

/-- every identifier-shaped word that is not a documented keyword spelling is ONE identifier
    token (no keyword rule, no other rule takes it or a longer/equal prefix of it first) -/
theorem C14_identifier_words (w : Bytes) (h : identShape w = true)
    (hn : ∀ e ∈ documentedKeywords, e.1 ≠ w) : lexBuffer w = [⟨Tok.ID, w, 1⟩] :=
  ident_lexBuffer w h (fun e he => hn e ((C14_mem_keywords_iff e).1 he))

/-- conversely, a word that lexes as one identifier token is identifier-shaped and not a keyword
    spelling -/
theorem C14_identifier_only (w : Bytes) (h : lexBuffer w = [⟨Tok.ID, w, 1⟩]) :
    identShape w = true ∧ ∀ e ∈ documentedKeywords, e.1 ≠ w := by
  obtain ⟨h1, h2⟩ := ident_only w h
  exact ⟨h1, fun e he => h2 e ((C14_mem_keywords_iff e).2 he)⟩

theorem C14_identifier_iff (w : Bytes) :
    lexBuffer w = [⟨Tok.ID, w, 1⟩] ↔
      (identShape w = true ∧ ∀ e ∈ documentedKeywords, e.1 ≠ w) :=
  ⟨C14_identifier_only w, fun h => C14_identifier_words w h.1 h.2⟩

/-- an identifier-shaped word is one token: its keyword kind if it is a documented spelling,
    `ID` otherwise -/
theorem C14_word_one_token (w : Bytes) (h : identShape w = true) :
    (∃ k, (w, k) ∈ documentedKeywords ∧ lexBuffer w = [⟨k, w, 1⟩]) ∨
    ((∀ e ∈ documentedKeywords, e.1 ≠ w) ∧ lexBuffer w = [⟨Tok.ID, w, 1⟩]) := by
  by_cases hk : ∃ e ∈ documentedKeywords, e.1 = w
  · obtain ⟨⟨s, k⟩, he, rfl⟩ := hk
    left
    have := List.all_eq_true.1 C14_keywords _ ((C14_mem_keywords_iff _).2 he)
    exact ⟨k, he, by simpa using this⟩
  · right
    have hn : ∀ e ∈ documentedKeywords, e.1 ≠ w := fun e he hw => hk ⟨e, he, hw⟩
    exact ⟨hn, C14_identifier_words w h hn⟩

/-! ### non-vacuity: `DEF` is not a documented spelling (`DEFINE`, `Define`, `Def`, `define`,
    `def` are), so it is an identifier; `Def` is a keyword, `x_1` an identifier, `1x` is not
    identifier-shaped -/

example : lexBuffer [68, 69, 70] = [⟨Tok.ID, [68, 69, 70], 1⟩] :=
  C14_identifier_words [68, 69, 70] (by decide) (by decide +kernel)

example : lexBuffer [120, 95, 49] = [⟨Tok.ID, [120, 95, 49], 1⟩] :=
  C14_identifier_words [120, 95, 49] (by decide) (by decide +kernel)

example : ¬ (∀ e ∈ documentedKeywords, e.1 ≠ [68, 101, 102]) := by decide +kernel

example : lexBuffer [68, 101, 102] ≠ [⟨Tok.ID, [68, 101, 102], 1⟩] := fun h =>
  absurd (C14_identifier_only _ h).2 (by decide +kernel)

example : lexBuffer [49, 120] ≠ [⟨Tok.ID, [49, 120], 1⟩] := fun h =>
  absurd (C14_identifier_only _ h).1 (by decide)

end Theo
