/-
  C08 — breakpoint tables are consistent and name real source lines.
  Statements are about the generator model `gen` for *every* tree (any layout, any file split,
  macro bodies included: the tree is whatever the front end produced).
-/
import Theo.Proofs.GenTables

namespace Theo

/-- all nodes of a tree -/
def Node.nodes : Node → List Node
  | .nil => []
  | .mk t tok f l a b => Node.mk t tok f l a b :: (a.nodes ++ b.nodes)

/-- the two tables are exact inverses; the listed sites are exactly the break instructions -/
theorem C08_tables_inverse (a : AST) : TablesInverse (gen a).code :=
  gen_tablesInverse a

/-- no site is listed twice, no location twice, and no location has an empty site list -/
theorem C08_no_duplicates (a : AST) :
    (∀ e ∈ (gen a).code.potBreaks, e.2.Nodup ∧ e.2 ≠ []) ∧
    ((gen a).code.potBreaks.map (·.1)).Nodup ∧ ((gen a).code.lineInfo.map (·.1)).Nodup :=
  gen_noDuplicates a

/-- the loaded program contains no enabled breakpoint (`BREAK`) -/
theorem C08_no_break_opcode (a : AST) : Instr.brk ∉ (gen a).code.code :=
  gen_noBreak a

/-- hence the hypotheses of the debugger theorems (C05, C06, C17) hold for every compiled program -/
theorem C08_sitesOK (a : AST) : SitesOK (gen a).code :=
  gen_sitesOK a

/-- the hidden standard-macro file is never an available location -/
theorem C08_no_std_lines (a : AST) :
    ∀ bp ∈ (gen a).code.available, bp.file ≠ ConstGen.genStdFileName :=
  gen_noStd a

/-- every available location is the position of a node of the tree (node positions are copied
    from token positions by the parser) -/
theorem C08_real_lines (a : AST) (h : a.ok = true) :
    ∀ bp ∈ (gen a).code.available, ∃ n ∈ a.root.nodes, n.file = bp.file ∧ n.line = bp.line :=
  gen_realLines Node.nodes (fun _ _ _ _ _ _ => rfl) a h

/-- a location can be enabled if and only if stepping can report it -/
theorem C08_enable_iff_reportable (a : AST) (bp : BreakPoint) :
    bp ∈ (gen a).code.available ↔ ∃ i, (gen a).code.lineAt i = some bp :=
  gen_enableIff a bp

end Theo
