/-
  C10 — macro temporaries are hygienic.
-/
import Theo.Proofs.MacroProofs

namespace Theo

/-- temporaries of different rewriting steps (different pass numbers) never share a name,
    whatever the file names, line numbers and temporary numbers are -/
theorem C10_fresh_across_steps (t t' f f' : Bytes) (l l' : Int) (p p' : Nat) (h : p ≠ p') :
    tempName t f l p ≠ tempName t' f' l' p' := by
  exact fun heq => h (tempName_pass_inj t t' f f' l l' p p' heq)

/-- within one step, a body token is renamed iff it is a temporary, and two temporaries get
    the same name iff they have the same text (`#n`) -/
theorem C10_same_within_step (m : MacroDef) (r : Response) (pass : Nat) (a b : Token)
    (ha : a ∈ m.body) (hb : b ∈ m.body) (hka : a.kind = Tok.TEMP_VAL) (hkb : b.kind = Tok.TEMP_VAL) :
    let first := m.body.head?.getD default
    (tempName a.text first.file first.line pass = tempName b.text first.file first.line pass ↔ a.text = b.text) := by
  exact tempName_text_inj a.text b.text _ _ pass

/-- after instantiation no temporary designator is left: every `#n` of the body has become an
    identifier (slot fillers come from the input stream, where the detector grammar admits no
    temporary designator) -/
theorem C10_replacement_temps (m : MacroDef) (r : Response) (pass : Nat)
    (hm : ∀ ts ∈ r.matched, ∀ t ∈ ts, t.kind ≠ Tok.TEMP_VAL) :
    ∀ tok ∈ replacement m r pass, tok.kind ≠ Tok.TEMP_VAL := by
  exact replacement_no_temp m r pass hm

/-- exactly one rewriting step per pass, instantiated with that pass's own number; the next pass
    gets the next number — so the pass number identifies the expansion step -/
theorem C10_one_rewrite_per_pass (bs : List (List Detector)) (left pass : Nat) (inp : List Token) (n : Nat) :
    passLoop bs (left + 1) pass inp n =
      (match applyStep bs inp pass with
       | some (_, _, inp') => passLoop bs left (pass + 1) inp' (n + 1)
       | none => (inp, n, false)) := by
  exact passLoop_succ bs left pass inp n

/-- the tokens produced by a step from temporaries carry `tempName … pass` of *that* pass -/
theorem C10_step_uses_pass (m : MacroDef) (r : Response) (pass : Nat) (cand : Token)
    (hc : cand ∈ m.body) (hk : cand.kind = Tok.TEMP_VAL) :
    let first := m.body.head?.getD default
    { cand with kind := Tok.ID, text := tempName cand.text first.file first.line pass } ∈ replacement m r pass := by
  exact replacement_temp_mem m r pass cand hc hk

/-- no name given to a temporary can be written by a user as an identifier: such a name
    contains ':' , which no identifier lexeme contains -/
theorem C10_not_user_writable (t f : Bytes) (l : Int) (p : Nat) :
    (58 : UInt8) ∈ tempName t f l p ∧
    ∀ s : Bytes, (Rx.seq (Rx.cls [(97, 122), (65, 90), (95, 95)]) (Rx.star (Rx.cls [(97, 122), (65, 90), (48, 57), (95, 95)]))).Matches s →
      (58 : UInt8) ∉ s := by
  exact ⟨colon_mem_tempName t f l p, ident_no_colon⟩

end Theo
