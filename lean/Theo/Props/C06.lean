/-
  C06 — the debugger stops exactly where it was asked to.
-/
import Theo.Proofs.VMInvB

namespace Theo

/-- should the machine stop after executing the instruction at `ip`? -/
def StopHere (p : Program) (vm : VM) (ip : Int) : Prop :=
  fetch p.code ip = .ok Instr.halt ∨
  ∃ bp, p.lineAt ip = some bp ∧ (vm.stepping = true ∨ bp ∈ vm.enabled)

/-- a single step reports a stop exactly at HALT, at a site of an enabled line, or at any
    site while stepping -/
theorem C06_single_stops_iff (p : Program) (hs : SitesOK p) (ht : TablesInverse p)
    (vm vm' : VM) (r : Bool) (hr : Reach p vm) (h : step vm = .ok (vm', r)) :
    r = true ↔ StopHere p vm vm.ip :=
  InvB.stops_iff ht (InvB.CodeInv.reach hs hr) (InvB.BreakInv.reach hs ht hr) h

/-- `execute` returns at the *first* stop position of the uninterrupted path, having run
    exactly the path up to and including it, and leaves the debugger state untouched -/
theorem C06_execute_stops (p : Program) (hs : SitesOK p) (ht : TablesInverse p)
    (vm vm' : VM) (hr : Reach p vm) (h : ExecTo vm vm') :
    ∃ k : Nat, ∃ c : Core,
      coreIter p k vm.core = .ok c ∧ StopHere p vm c.ip ∧
      (∀ j, j < k → ∀ cj, coreIter p j vm.core = .ok cj → ¬ StopHere p vm cj.ip) ∧
      coreStep p c = .ok vm'.core ∧
      vm'.code = vm.code ∧ vm'.enabled = vm.enabled ∧ vm'.stepping = vm.stepping :=
  InvB.execute_stops ht (InvB.CodeInv.reach hs hr) (InvB.BreakInv.reach hs ht hr) h

/-- the location reported after stopping at a site is that site's file and line -/
theorem C06_current_break (p : Program) (vm vm' : VM) (h : step vm = .ok (vm', true))
    (hn : fetch vm.code vm.ip ≠ .ok Instr.halt) :
    vm'.currentBreak p = p.lineAt vm.ip :=
  InvB.current_break h hn

/-- before execution starts, and after a reset, no location is reported -/
theorem C06_initial_none (p : Program) (ht : TablesInverse p) :
    (VM.mk' p).currentBreak p = none :=
  InvB.initial_none ht

/-- an enable/disable request succeeds exactly for available locations -/
theorem C06_enable_iff (p : Program) (vm vm' : VM) (b : BreakPoint) (v r : Bool)
    (h : VM.setBreakPoint p vm b v = .ok (vm', r)) : r = true ↔ b ∈ p.available :=
  InvB.enable_iff h

/-- the enabled set is the successful enables minus the disables, emptied by clear / reset -/
theorem C06_enabled_set (p : Program) (vm vm' : VM) (c : Call) (h : CallRel p vm c vm') :
    vm'.enabled = bookkeeping p vm.enabled c :=
  InvB.enabled_set h

end Theo
