/-
  C04 — the compiler accepts exactly the programs of the language (static part).

  "A source compiles successfully iff it is a sentence of the grammar AND obeys the static
  rules": every RUN names a program whose definition is complete earlier in the text and passes as
  many arguments as it has parameters, every jump target is a label of the same program body,
  every integer literal is below 2^31-1, and (documented deviation at the pinned code, F4) the
  parameter names of one PROGRAM header are pairwise distinct.  The rules are `staticOK`
  (Spec/Static.lean), stated on the typed source with `lookupProg` and `findLabel` — the notions
  the reference semantics resolves names with.  The syntactic half is Props/C04.lean.

  Hypotheses added: none beyond the tree shape.  In particular repeated labels in one body need
  no hypothesis: the generator does not report them and `findLabel` takes the first.
-/
import Theo.Proofs.StaticProofs
import Theo.Props.C04

namespace Theo

/-- for trees of the parser's shape, the generator records no error iff the static rules hold -/
theorem C04_static_iff (root : Node) (h : AstShape root = true) :
    (gen ⟨true, [], root⟩).errors = [] ↔ staticOK (toSource root) = true :=
  Static.static_iff [] root h

/-- … equivalently: it reports success -/
theorem C04_static_ok_iff (root : Node) (h : AstShape root = true) :
    (gen ⟨true, [], root⟩).ok = true ↔ staticOK (toSource root) = true := by
  rw [Static.gen_ok_eq, List.isEmpty_iff]
  exact C04_static_iff root h

/-- an error-free parse produces a tree of that shape -/
theorem C04_parser_shape (ts : List Token) (h : EndMarked ts) (he : (parseTokens ts).2 = []) :
    AstShape (parseTokens ts).1 = true :=
  have _ := h   -- holds for every token list; the end marker is not needed
  Static.parser_shape ts he

/-- the AST value `Theo::parse` hands to the generator for the parser's output on `ts`, when the
    earlier stages (scanner, macro extraction, macro application) forwarded the errors `fwd` -/
def astOf (ts : List Token) (fwd : List SynErr) : AST :=
  ⟨((parseTokens ts).2 ++ fwd).isEmpty, (parseTokens ts).2 ++ fwd, (parseTokens ts).1⟩

/-- the two halves together: generation succeeds iff no earlier stage reported an error, the token
    stream is a sentence of the grammar, and the static rules hold -/
theorem C04_accepts_iff' (ts : List Token) (h : EndMarked ts) (fwd : List SynErr) :
    (gen (astOf ts fwd)).ok = true ↔
      (fwd = [] ∧ Derives langGrammar (.n LangNT.S) (bodyKinds ts) ∧
        staticOK (toSource (parseTokens ts).1) = true) := by
  rw [Static.gen_ok_eq, List.isEmpty_iff]
  unfold astOf
  by_cases he : (parseTokens ts).2 ++ fwd = []
  · obtain ⟨he1, he2⟩ := List.append_eq_nil_iff.1 he
    have hsh := C04_parser_shape ts h he1
    have hd := (C04_parse_iff ts h).1 he1
    rw [he]
    rw [show ([] : List SynErr).isEmpty = true from rfl, Static.static_iff [] _ hsh]
    exact ⟨fun hs => ⟨he2, hd, hs⟩, fun hs => hs.2.2⟩
  · have hemp : ((parseTokens ts).2 ++ fwd).isEmpty = false := by
      cases hx : (parseTokens ts).2 ++ fwd with
      | nil => exact absurd hx he
      | cons a as => rfl
    rw [hemp]
    constructor
    · intro hg; exact absurd (Static.gen_rejects_bad _ _ hg) he
    · rintro ⟨h1, h2, _⟩
      exact absurd (by rw [h1, (C04_parse_iff ts h).2 h2]; rfl) he

theorem C04_accepts_iff (ts : List Token) (h : EndMarked ts) :
    (gen ⟨(parseTokens ts).2.isEmpty, (parseTokens ts).2, (parseTokens ts).1⟩).ok = true ↔
      (Derives langGrammar (.n LangNT.S) (bodyKinds ts) ∧
        staticOK (toSource (parseTokens ts).1) = true) := by
  have := C04_accepts_iff' ts h []
  unfold astOf at this
  rw [List.append_nil] at this
  rw [this]
  exact ⟨fun hh => hh.2, fun hh => ⟨rfl, hh⟩⟩

/-! ### … and for `Theo::compile` itself -/

/-- the stages in front of the parser, exactly as `parseFiles` runs them: the token stream that
    reaches the recursive descent, and the errors of scanner, macro extraction and application -/
def frontEnd (files : Files) (main : Bytes) : List Token × List PErr :=
  let files1 : Files :=
    if files.has ConstGen.stdFileName then files else files ++ [(ConstGen.stdFileName, ConstGen.stdMacroText)]
  let files2 : Files :=
    files1.map (fun e => if e.1 = main then (e.1, ConstGen.includePhrase ++ e.2) else e)
  let sr := scan files2 main
  let mer := extractMacros sr.toks
  let mar := applyMacros mer.toks mer.macros ConstGen.macroPasses
  (mar.toks, sr.errs ++ mer.errs ++ mar.errs)

theorem parseFiles_ast (files : Files) (main : Bytes) :
    (parseFiles files main).ast =
      astOf (frontEnd files main).1
        ((frontEnd files main).2.map (fun e => (⟨.forwarded e.kind, e.file, e.line⟩ : SynErr))) := by
  simp only [parseFiles, frontEnd, astOf]

/-- `compile` succeeds iff no front-end stage reported an error, the token stream after macro
    application is a sentence of the grammar, and the parsed program obeys the static rules -/
theorem C04_compile_iff (files : Files) (main : Bytes) (h : EndMarked (frontEnd files main).1) :
    (compile files main).ok = true ↔
      ((frontEnd files main).2 = [] ∧
        Derives langGrammar (.n LangNT.S) (bodyKinds (frontEnd files main).1) ∧
        staticOK (toSource (parseTokens (frontEnd files main).1).1) = true) := by
  have hc : (compile files main).ok = (gen (parseFiles files main).ast).ok := by simp only [compile]
  rw [hc, parseFiles_ast, C04_accepts_iff' _ h, List.map_eq_nil_iff]

/-- the literal rule in plain words -/
theorem C04_literal_rule (n : Nat) : genRangeBad n = false ↔ n < 2147483647 := Static.rangeOK_iff n

/-! ### non-vacuity -/

namespace C04Demo
def tk (k : Nat) (s : Bytes) : Token := ⟨k, s, [109], 1⟩

/-- `PROGRAM f IN a, b DO l: GOTO l END  LOOP x DO IF x = 5 THEN GOTO m END; m: STOP` -/
def jumps : List Token :=
  [tk Tok.PROGRAM [80], tk Tok.ID [102], tk Tok.IN [73], tk Tok.ID [97], tk Tok.ARGSEP [44], tk Tok.ID [98], tk Tok.DO [68],
   tk Tok.ID [108], tk Tok.LABELDEC [58], tk Tok.GOTO [71], tk Tok.ID [108], tk Tok.END [69],
   tk Tok.LOOP [76], tk Tok.ID [120], tk Tok.DO [68],
     tk Tok.IF [73], tk Tok.ID [120], tk Tok.EQ [61], tk Tok.INT [53], tk Tok.THEN [84], tk Tok.GOTO [71], tk Tok.ID [109],
   tk Tok.END [69], tk Tok.PROGSEP [59], tk Tok.ID [109], tk Tok.LABELDEC [58], tk Tok.STOP [83],
   tk Tok.T_EOF [69, 79, 70]]

example : (parseTokens jumps).2 = [] ∧ AstShape (parseTokens jumps).1 = true ∧
    staticOK (toSource (parseTokens jumps).1) = true := by decide

/-- the same with the last label misspelt: the static rules (and hence the generator) reject it -/
def jumpsBad : List Token := jumps.take 24 ++ [tk Tok.ID [110], tk Tok.LABELDEC [58], tk Tok.STOP [83], tk Tok.T_EOF [69, 79, 70]]

example : (parseTokens jumpsBad).2 = [] ∧ AstShape (parseTokens jumpsBad).1 = true ∧
    staticOK (toSource (parseTokens jumpsBad).1) = false := by decide

/-- `PROGRAM f IN a DO x0 := a END  x0 := RUN f WITH 7 END ; l : GOTO l` -/
def calls : List Token :=
  [tk Tok.PROGRAM [80], tk Tok.ID [102], tk Tok.IN [73], tk Tok.ID [97], tk Tok.DO [68],
   tk Tok.ID [120, 48], tk Tok.ASSIGN [58, 61], tk Tok.ID [97], tk Tok.END [69],
   tk Tok.ID [120, 48], tk Tok.ASSIGN [58, 61], tk Tok.RUN [82], tk Tok.ID [102], tk Tok.WITH [87], tk Tok.INT [55], tk Tok.END [69],
   tk Tok.PROGSEP [59], tk Tok.ID [108], tk Tok.LABELDEC [58], tk Tok.GOTO [71], tk Tok.ID [108],
   tk Tok.T_EOF [69, 79, 70]]

/-- (`valueOf` is defined by well-founded recursion and does not reduce in `decide`; the rules
    are evaluated on the tree, which `Static.topOK_static` proves equal) -/
example : (parseTokens calls).2 = [] ∧ AstShape (parseTokens calls).1 = true ∧
    staticOK (toSource (parseTokens calls).1) = true := by
  refine ⟨by decide, by decide, ?_⟩
  rw [← Static.topOK_static _ (by decide)]
  decide

/-- and the generator indeed accepts it -/
example : (gen ⟨(parseTokens calls).2.isEmpty, (parseTokens calls).2, (parseTokens calls).1⟩).ok = true := by
  have hem : EndMarked calls := ⟨calls.dropLast, tk Tok.T_EOF [69, 79, 70], by decide, rfl, by decide⟩
  have hp : (parseTokens calls).2 = [] := by decide
  refine (C04_accepts_iff calls hem).2 ⟨(C04_parse_iff calls hem).1 hp, ?_⟩
  rw [← Static.topOK_static _ (by decide)]
  decide
end C04Demo

end Theo
