/-
  C03 — emitted bytecode is well-formed, so the VM never leaves its own memory.
  `wfCheck` is a proved-sound validator: it is run on every program the compiler emits (by the
  correspondence check, on the implementation's output and on the model's), so for each of those
  programs the theorems below apply — a translation-validation argument with a verified checker.
-/
import Theo.Proofs.WFProofs

namespace Theo

/-- no execution and no debugger history of a certified program ever reads or writes outside
    the data, code, activation or stack-map arrays: every API call is defined in every
    reachable state -/
theorem C03_checker_sound (p : Program) (c : Cert) (h : checkCert p c = true)
    (vm : VM) (hr : Reach p vm) :
    (∃ r, step vm = .ok r) ∧
    (∃ b, vm.isDone = .ok b) ∧
    (∀ a ∈ vm.stack, ∃ v, activationVariables p vm a = .ok v) ∧
    (∀ b v, ∃ r, VM.setBreakPoint p vm b v = .ok r) ∧
    (∃ vm', VM.clearBreakpoints p vm = .ok vm') ∧
    (∃ vm', VM.reset p vm = .ok vm') :=
  WF.checker_sound h hr

theorem C03_wfCheck_sound (p : Program) (h : wfCheck p = true) (vm : VM) (hr : Reach p vm) :
    (∃ r, step vm = .ok r) ∧ (∃ b, vm.isDone = .ok b) ∧
    (∀ a ∈ vm.stack, ∃ v, activationVariables p vm a = .ok v) := by
  have := WF.checker_sound (c := inferCert p) h hr
  exact ⟨this.1, this.2.1, this.2.2.1⟩

/-- what the certificate says about the structure (the clauses of the property, read off the
    checker): root frame first, HALT last, jumps stay inside their routine with the same frame,
    register operands below the frame size, ARG targets inside the callee frame -/
theorem C03_structure (p : Program) (c : Cert) (h : checkCert p c = true) :
    (∃ fr mi t, p.code.head? = some (Instr.prepare fr mi t) ∧ 0 ≤ fr) ∧
    p.code.getLast? = some Instr.halt ∧
    (∀ (pc : Nat) (I : PcInfo) off, c.info pc = some I → p.code[pc]? = some (Instr.jmp off) →
        c.info ((pc : Int) + off) = some I) ∧
    (∀ (pc : Nat) (I : PcInfo) off s, c.info pc = some I → p.code[pc]? = some (Instr.jmpc off s) →
        c.info ((pc : Int) + off) = some I ∧ 0 ≤ s ∧ s < I.frame) ∧
    (∀ (pc : Nat) (I : PcInfo) t s k, c.info pc = some I → p.code[pc]? = some (Instr.add t s k) →
        0 ≤ t ∧ t < I.frame ∧ 0 ≤ s ∧ s < I.frame) ∧
    (∀ (pc : Nat) (I : PcInfo) t s, c.info pc = some I → p.code[pc]? = some (Instr.arg t s) →
        ∃ cf j, I.pend = some (cf, j) ∧ 0 ≤ t ∧ t < cf ∧ 0 ≤ s ∧ s < I.frame) :=
  WF.structure_ok h

end Theo
