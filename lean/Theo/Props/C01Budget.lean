/-
  C01, quantitative clause — "a source that has not finished within a step budget has not
  finished on the VM within the proportional budget either", and its converse.

  THE GUESS IS FALSE.  `C01_budget_statement` of C01.lean (`n ≤ 4 * m + 4`) does not hold, and no
  other pair of universal constants does (`C01_budget_no_universal_constants`): a mark (a label;
  the `END` keyword of a loop) is a step of the reference machine and compiles to no instruction
  at all, so `N` marks in a row cost `N` reference steps and zero VM instructions.  The factor
  necessarily depends on the source.  In the other direction no universal constants exist either:
  breakpoint sites (`POTENTIAL_BREAK`) are instructions of the VM, and the validator accepts any
  placement of them (`C01BudgetDemo.sites_*`: one reference step, 101 instructions).

  WHAT IS PROVED, for every `p` with `shapeCheck src p` and `wfCheck p` (n = steps of the reference
  machine, m = instructions of the VM):

    C01_budget        vmRun p m done  ⟹  the reference execution halts within  κ·m + κ  steps,
                      κ = stutterFactor src = srcStutter src + 1
    C01_budget_upper  the reference execution halts after n steps  ⟹  the VM is done, with
                      agreeing variables, within  C·n + D  instructions,
                      C = 4·(S + 1),  D = (S + 1)·(L + 2),
                      S = maxSiteRun p.code (longest run of consecutive sites), L = #routines
    (+ C01_budget_width: the first statement with the cruder factor srcWidth src + 1, obtained
     from the existing step lemma alone; C01_compile_budget / C01_compile_budget_upper: the same
     for every accepted compilation of the model)

  WHERE THE CONSTANTS COME FROM (Proofs/SimCountStep.lean: `sim_step_c`, the step lemma of the
  simulation with the number of instructions: a step of the reference machine from a matched
  state is matched by exactly `cost cfg` real instructions, each preceded by at most S sites).
   * cost = 0 for: entering `x := v`, a mark, descending into the first argument of a call,
     moving on to the next argument, storing a value in its variable.  `stut cfg` = how many such
     steps come next; each of them decreases it by one and on reachable configurations it is
     `≤ srcStutter src` = 1 + (longest run of marks, followed or not by `x :=` and the chain of
     first arguments of the value) (Proofs/SimCountStutter.lean).  So one instruction pays for
     itself and `srcStutter` free steps: κ = srcStutter src + 1.  The additive κ: the free steps
     before the first instruction and the last step into `halted` (`HALT` is not executed).
     Tight: `C01BudgetDemo.tight_*` (blocks `x := 1; M: M: M:`: 6 steps per instruction, κ = 6).
   * cost ≤ 4 (`IF x = c THEN GOTO`: ADD, CONST, TEST, JMPC) except for the step performing a call
     with k arguments: k + 2 (PREPARE, k × ARG, EXEC) — but k - 1 free steps moved from one
     argument to the next before, so with a credit of one per computed argument the amortised
     cost is ≤ 4 (`Sim.cost_credit`): C = 4·(S + 1), independent of arities.  D: the prologue
     `PREPARE; JMP` over each of the L routine bodies (L + 1 instructions) and the sites before
     the final `HALT`.
  Both directions use determinism of the VM (`Steps.run`) and that no state before the matched
  `HALT` is done.
-/
import Theo.Proofs.SimCountStutter
import Theo.Proofs.SimCountUpper
import Theo.Props.C01
import Theo.Props.C01Compile

namespace Theo
open Sem

/-! ### the constants -/

/-- κ: one more than the stutter bound of the source (`Sim.srcStutter`): 1 + the largest number
    of instruction-free steps a statement list of the source (or an argument position of a
    value) can start with, + 1 for the step that executes -/
def stutterFactor (src : Source) : Nat := Sim.srcStutter src + 1

/-- the cruder factor: one more than the width of the source, the largest `fsize`
    (Proofs/SimStep.lean) of a statement list occurring in it — a routine body, the main
    program, the body of a loop, not counting nested bodies: 2 per statement, and for `x := v`
    additionally 2 + the number of nodes and of argument positions of `v` -/
def budgetFactor (src : Source) : Nat := Sim.srcWidth src + 1

/-- C: four real instructions per reference step (amortised), each after at most
    `maxSiteRun p.code` sites -/
def vmFactor (p : Program) : Nat := 4 * (Sim.maxSiteRun p.code + 1)

/-- D: the prologue (`PREPARE`, one `JMP` per routine) and the sites before the final `HALT` -/
def vmOffset (src : Source) (p : Program) : Nat := (Sim.maxSiteRun p.code + 1) * (src.progs.length + 2)

/-! ### the VM cannot finish early -/

/-- if the bytecode is done after `m` instructions, the reference execution halts within
    `κ * m + κ` steps, `κ = stutterFactor src` -/
theorem C01_budget (src : Source) (p : Program)
    (hs : shapeCheck src p = true) (hw : wfCheck p = true)
    (m : Nat) (vm : VM) (h : vmRun p m = .ok vm) (hd : vm.isDone = .ok true) :
    ∃ n, n ≤ stutterFactor src * m + stutterFactor src ∧
      (Sem.run src n (initial src) 0).1.status = .halted := by
  obtain ⟨V, hV⟩ := Sim.valid_of_shapeCheck hs
  obtain ⟨R, hc⟩ := WF.certOK_of_check hw
  rw [vmRun_eq_runFrom] at h
  obtain ⟨n, hn, hh⟩ := Sim.budget_sim_stut (Sim.siteBound_maxSiteRun p.code) hc hV
    (Sim.stut_le_bound src) h hd
  refine ⟨n, ?_, by rw [Sim.run_fst]; exact hh⟩
  rw [Nat.mul_succ] at hn
  exact hn

/-- contrapositive, in the words of the property: a source that has not finished within
    `κ * m + κ` steps has not finished on the VM within `m` instructions -/
theorem C01_budget_not_finished (src : Source) (p : Program)
    (hs : shapeCheck src p = true) (hw : wfCheck p = true) (m : Nat)
    (hr : ∀ n, n ≤ stutterFactor src * m + stutterFactor src →
      (Sem.run src n (initial src) 0).1.status = .running)
    (vm : VM) (h : vmRun p m = .ok vm) : vm.isDone ≠ .ok true := by
  intro hd
  obtain ⟨n, hn, hh⟩ := C01_budget src p hs hw m vm h hd
  rw [hr n hn] at hh
  cases hh

/-- the same with the width of the source: needs only the step lemma `Sim.sim_step` as it
    stands (every instruction-free step decreases `cmeasure ≤ srcWidth src`) -/
theorem C01_budget_width (src : Source) (p : Program)
    (hs : shapeCheck src p = true) (hw : wfCheck p = true)
    (m : Nat) (vm : VM) (h : vmRun p m = .ok vm) (hd : vm.isDone = .ok true) :
    ∃ n, n ≤ budgetFactor src * m + budgetFactor src ∧
      (Sem.run src n (initial src) 0).1.status = .halted := by
  obtain ⟨V, hV⟩ := Sim.valid_of_shapeCheck hs
  obtain ⟨R, hc⟩ := WF.certOK_of_check hw
  rw [vmRun_eq_runFrom] at h
  obtain ⟨n, hn, hh⟩ := Sim.budget_sim hc hV (Sim.cmeasure_le_width src) h hd
  refine ⟨n, ?_, by rw [Sim.run_fst]; exact hh⟩
  rw [Nat.mul_succ] at hn
  exact hn

/-! ### the VM is not unboundedly slower -/

/-- if the reference execution halts after `n` steps, the bytecode is done, with agreeing
    variables, within `(S + 1) * (4 * n + L + 2)` instructions — for every bound `S` of the runs
    of consecutive sites (`S = 0` for code without sites) -/
theorem C01_budget_upper_of_bound (src : Source) (p : Program)
    (hs : shapeCheck src p = true) (hw : wfCheck p = true)
    (S : Nat) (hS : Sim.SiteBound p.code S)
    (n : Nat) (hh : (Sem.run src n (initial src) 0).1.status = .halted) :
    ∃ m vm, m ≤ (S + 1) * (4 * n + (src.progs.length + 2)) ∧ vmRun p m = .ok vm ∧
      vm.isDone = .ok true ∧ ViewsAgree p (Sem.run src n (initial src) 0).1 vm := by
  obtain ⟨V, hV, hsk⟩ := Sim.valid_of_shapeCheck_skipsN hs
  obtain ⟨R, hc⟩ := WF.certOK_of_check hw
  rw [Sim.run_fst] at hh ⊢
  obtain ⟨m, vm, hle, h1, h2, h3⟩ := Sim.halts_sim_upper hS hc hV hsk hh
  exact ⟨m, vm, hle, (vmRun_eq_runFrom p m).trans h1, h2, stacksAgree_of p vm _ _ h3⟩

/-- … with the computed constants: `m ≤ C * n + D`, `C = vmFactor p`, `D = vmOffset src p` -/
theorem C01_budget_upper (src : Source) (p : Program)
    (hs : shapeCheck src p = true) (hw : wfCheck p = true)
    (n : Nat) (hh : (Sem.run src n (initial src) 0).1.status = .halted) :
    ∃ m vm, m ≤ vmFactor p * n + vmOffset src p ∧ vmRun p m = .ok vm ∧ vm.isDone = .ok true ∧
      ViewsAgree p (Sem.run src n (initial src) 0).1 vm := by
  obtain ⟨m, vm, hle, h⟩ := C01_budget_upper_of_bound src p hs hw _
    (Sim.siteBound_maxSiteRun p.code) n hh
  refine ⟨m, vm, ?_, h⟩
  unfold vmFactor vmOffset
  rw [Nat.mul_add, ← Nat.mul_assoc, Nat.mul_comm _ 4] at hle
  exact hle

/-! ### accepted compilations of the model -/

theorem C01_compile_budget (files : Files) (main : Bytes)
    (hok : (compile files main).ok = true)
    (hl : LabelsOK (parseFiles files main).ast.root = true) :
    let src := toSource (parseFiles files main).ast.root
    let p := (compile files main).code
    ∀ m vm, vmRun p m = .ok vm → vm.isDone = .ok true →
      ∃ n, n ≤ stutterFactor src * m + stutterFactor src ∧
        (Sem.run src n (initial src) 0).1.status = .halted := by
  intro src p
  exact C01_budget src p (C01_compile_shape files main hok hl) (C03_compile_wf files main hok)

theorem C01_compile_budget_upper (files : Files) (main : Bytes)
    (hok : (compile files main).ok = true)
    (hl : LabelsOK (parseFiles files main).ast.root = true) :
    let src := toSource (parseFiles files main).ast.root
    let p := (compile files main).code
    ∀ n, (Sem.run src n (initial src) 0).1.status = .halted →
      ∃ m vm, m ≤ vmFactor p * n + vmOffset src p ∧ vmRun p m = .ok vm ∧ vm.isDone = .ok true ∧
        ViewsAgree p (Sem.run src n (initial src) 0).1 vm := by
  intro src p
  exact C01_budget_upper src p (C01_compile_shape files main hok hl) (C03_compile_wf files main hok)

/-! ### no universal constants: marks are free on the VM -/

namespace C01BudgetDemo

/-- `N` marks `L:` in a row -/
def marks : Nat → Stmts
  | 0 => .nil
  | N + 1 => .cons (.mark [76] ([], 0)) (marks N)

def marksSrc (N : Nat) : Source := ⟨[], marks N⟩

/-- the code of every `marksSrc N`: `PREPARE; HALT` -/
def marksProg : Program := ⟨[.prepare 0 0 0, .halt], [⟨[], []⟩], [], []⟩

theorem marks_check (e : VEnv) : ∀ (N : Nat) (w : Walk),
    ∃ w', checkStmts e (marks N) w = some w' ∧ w'.pc = w.pc ∧ w'.gotos = w.gotos := by
  intro N
  induction N with
  | zero => intro w; exact ⟨w, by simp only [marks, checkStmts], rfl, rfl⟩
  | succ N ih =>
    intro w
    obtain ⟨w', h1, h2, h3⟩ := ih { w with marks := w.marks ++ [([76], w.pc)] }
    exact ⟨w', by simp only [marks, checkStmts, checkStmt]; exact h1, h2, h3⟩

theorem marks_shape (N : Nat) : shapeCheck (marksSrc N) marksProg = true := by
  obtain ⟨w', h1, h2, h3⟩ := marks_check
    ⟨marksProg.code, marksSrc N, ⟨0, 0, []⟩, 0, []⟩ N ⟨1, [], []⟩
  have h2' : w'.pc = 1 := h2
  have h3' : w'.gotos = [] := h3
  have hres : resolveOK marksProg.code w' = true := by
    unfold resolveOK
    rw [h3']
    rfl
  unfold shapeCheck
  simp only [marksProg, marksSrc, checkProgs, List.length_nil] at h1 hres ⊢
  simp only [List.getElem?_cons_zero]
  rw [h1]
  simp only [hres, h2']
  rfl

theorem marks_wf : wfCheck marksProg = true := by decide

/-- the VM is done after the one instruction `PREPARE` -/
theorem marks_vm : ∃ vm, vmRun marksProg 1 = .ok vm ∧ vm.isDone = .ok true := ⟨_, rfl, rfl⟩

theorem marks_iter (src : Source) (r : Nat) : ∀ (n k : Nat),
    Sim.iter src n ⟨[⟨r, [], [], marks (n + k), .done, .run⟩], .running⟩ =
      ⟨[⟨r, [], [], marks k, .done, .run⟩], .running⟩ := by
  intro n
  induction n with
  | zero => intro k; rw [Nat.zero_add]; rfl
  | succ n ih =>
    intro k
    rw [Sim.iter_succ', show n + 1 + k = (n + k) + 1 by omega]
    exact ih k

/-- the reference execution of `marksSrc N` is still running after `N` steps -/
theorem marks_running (N n : Nat) (h : n ≤ N) :
    (Sem.run (marksSrc N) n (initial (marksSrc N)) 0).1.status = .running := by
  rw [Sim.run_fst]
  obtain ⟨k, rfl⟩ : ∃ k, N = n + k := ⟨N - n, by omega⟩
  show (Sim.iter (marksSrc (n + k)) n ⟨[⟨0, [], [], marks (n + k), .done, .run⟩], .running⟩).status = _
  rw [marks_iter]

end C01BudgetDemo

/-- whatever the constants `A`, `B`: a validated program that is done after one instruction while
    its source has not halted within `A * 1 + B` steps -/
theorem C01_budget_no_universal_constants (A B : Nat) :
    ∃ (src : Source) (p : Program), shapeCheck src p = true ∧ wfCheck p = true ∧
      ∃ m vm, vmRun p m = .ok vm ∧ vm.isDone = .ok true ∧
        ∀ n, n ≤ A * m + B → (Sem.run src n (initial src) 0).1.status ≠ .halted := by
  obtain ⟨vm, h1, h2⟩ := C01BudgetDemo.marks_vm
  refine ⟨C01BudgetDemo.marksSrc (A * 1 + B), C01BudgetDemo.marksProg,
    C01BudgetDemo.marks_shape _, C01BudgetDemo.marks_wf, 1, vm, h1, h2, fun n hn hh => ?_⟩
  rw [C01BudgetDemo.marks_running _ n hn] at hh
  cases hh

/-- in particular the statement guessed in C01.lean does not hold -/
theorem C01_budget_statement_false : ¬ C01_budget_statement := by
  intro hst
  obtain ⟨src, p, hs, hw, m, vm, h1, h2, h3⟩ := C01_budget_no_universal_constants 4 4
  obtain ⟨n, hn, hh⟩ := hst src p hs hw m vm h1 h2
  exact h3 n hn hh

/-! ### non-vacuity: concrete programs -/

namespace C01BudgetDemo

/-- is the VM done after `m` instructions? (for evaluation by `decide`) -/
def doneAt (p : Program) (m : Nat) : Option Bool :=
  match vmRun p m with
  | .ok vm => (match vm.isDone with | .ok b => some b | .error _ => none)
  | .error _ => none

theorem doneAt_spec {p : Program} {m : Nat} {b : Bool} (h : doneAt p m = some b) :
    ∃ vm, vmRun p m = .ok vm ∧ vm.isDone = .ok b := by
  unfold doneAt at h
  split at h
  · rename_i vm hvm
    split at h
    · rename_i b' hb
      cases h
      exact ⟨vm, hvm, hb⟩
    · cases h
  · cases h

/-- `x := 2; LOOP x DO y := y + 1 END; L:` (the loop's `END` and `L:` are marks) -/
def demoSrc : Source :=
  ⟨[], .cons (.assign [120] (.num 2) ([109], 1))
      (.cons (.loop 1 [120]
          (.cons (.assign [121] (.inc [121] 1) ([109], 1)) (.cons (.mark [69, 78, 68] ([109], 1)) .nil))
          ([109], 1))
        (.cons (.mark [76] ([109], 1)) .nil))⟩

/-- its code as the compilation scheme lays it out: registers x = 0, y = 1, the loop counter = 2,
    temporaries 3 and 4 -/
def demoProg : Program :=
  ⟨[.prepare 5 0 0, .const 0 2, .add 2 0 0, .jmpc 6 2, .add 3 1 0, .const 4 1, .add 1 3 1,
    .add 2 2 (-1), .jmp (-5), .halt],
   [⟨[], [(0, [120]), (1, [121]), (2, bLoopVar ++ [109, 58, 49, 91, 49, 93])]⟩], [], []⟩

theorem demo_valid : shapeCheck demoSrc demoProg = true ∧ wfCheck demoProg = true := by
  decide +kernel

/-- κ = 3 (at most 2 free steps in a row: after `y := y + 1` is computed, the store and `END`),
    the width-based factor is 9; no sites, no routines: C = 4, D = 2 -/
theorem demo_constants : stutterFactor demoSrc = 3 ∧ budgetFactor demoSrc = 9 ∧
    vmFactor demoProg = 4 ∧ vmOffset demoSrc demoProg = 2 := by decide

/-- the bytecode is done after 16 instructions (and not before) … -/
theorem demo_vm : (∃ vm, vmRun demoProg 16 = .ok vm ∧ vm.isDone = .ok true) ∧
    (∃ vm, vmRun demoProg 15 = .ok vm ∧ vm.isDone = .ok false) :=
  ⟨doneAt_spec (by decide +kernel), doneAt_spec (by decide +kernel)⟩

/-- … hence (C01_budget) its source halts within 3 * 16 + 3 steps -/
theorem demo_budget : ∃ n, n ≤ 3 * 16 + 3 ∧
    (Sem.run demoSrc n (initial demoSrc) 0).1.status = .halted := by
  obtain ⟨vm, h1, h2⟩ := demo_vm.1
  have := C01_budget demoSrc demoProg demo_valid.1 demo_valid.2 16 vm h1 h2
  rwa [demo_constants.1] at this

/-- the reference execution halts after 16 steps (and not before): 3 for `x := 2`, 1 to enter
    the loop, 5 per iteration — of which 3 are free, at most 2 in a row —, 1 for `L:`, 1 into `halted` … -/
theorem demo_ref : (Sem.run demoSrc 16 (initial demoSrc) 0).1.status = .halted ∧
    (Sem.run demoSrc 15 (initial demoSrc) 0).1.status = .running := by decide +kernel

/-- … hence (C01_budget_upper) the bytecode is done within 4 * 16 + 2 instructions -/
theorem demo_budget_upper : ∃ m vm, m ≤ 4 * 16 + 2 ∧ vmRun demoProg m = .ok vm ∧
    vm.isDone = .ok true ∧ ViewsAgree demoProg (Sem.run demoSrc 16 (initial demoSrc) 0).1 vm := by
  have := C01_budget_upper demoSrc demoProg demo_valid.1 demo_valid.2 16 demo_ref.1
  rwa [demo_constants.2.2.1, demo_constants.2.2.2] at this

#guard (Sem.run demoSrc 100 (initial demoSrc) 0).2 == 16

/-! κ is the right factor: `K` blocks `x := 1; M: M: M:` take 6 steps each — entering the
    assignment, the value (the only instruction: `CONST`), the store, three marks — so
    `n = 6 * K + 1` against `m = K + 1`, and κ = 6. -/

def block (rest : Stmts) : Stmts :=
  .cons (.assign [120] (.num 1) ([], 0))
    (.cons (.mark [77] ([], 0)) (.cons (.mark [77] ([], 0)) (.cons (.mark [77] ([], 0)) rest)))

def blocks : Nat → Stmts
  | 0 => .nil
  | K + 1 => block (blocks K)

def tightSrc : Source := ⟨[], blocks 10⟩
def tightProg : Program :=
  ⟨.prepare 1 0 0 :: List.replicate 10 (.const 0 1) ++ [.halt], [⟨[], [(0, [120])]⟩], [], []⟩

theorem tight_valid : shapeCheck tightSrc tightProg = true ∧ wfCheck tightProg = true := by
  decide +kernel

theorem tight_factor : stutterFactor tightSrc = 6 := by decide +kernel

/-- done after 11 instructions; the source needs 61 steps (bound: 6 * 11 + 6 = 72) -/
theorem tight_vm : (∃ vm, vmRun tightProg 11 = .ok vm ∧ vm.isDone = .ok true) ∧
    (∃ vm, vmRun tightProg 10 = .ok vm ∧ vm.isDone = .ok false) :=
  ⟨doneAt_spec (by decide +kernel), doneAt_spec (by decide +kernel)⟩

theorem tight_ref : (Sem.run tightSrc 61 (initial tightSrc) 0).1.status = .halted ∧
    (Sem.run tightSrc 60 (initial tightSrc) 0).1.status = .running := by decide +kernel

/-! C depends on the sites: two `IF x = 1 THEN GOTO E` (not taken) and `E:`, with a site before
    every real instruction (S = 1): 4 reference steps, 18 instructions; bound 2 * (4 * 4 + 2). -/

def ifSrc : Source :=
  ⟨[], .cons (.ifGoto [120] 1 [69] ([], 0)) (.cons (.ifGoto [120] 1 [69] ([], 0))
    (.cons (.mark [69] ([], 0)) .nil))⟩

def ifProg : Program :=
  ⟨[.prepare 4 0 0,
    .potBreak, .add 1 0 0, .potBreak, .const 2 1, .potBreak, .test 3 1 2, .potBreak, .jmpc 9 3,
    .potBreak, .add 1 0 0, .potBreak, .const 2 1, .potBreak, .test 3 1 2, .potBreak, .jmpc 1 3,
    .potBreak, .halt],
   [⟨[], [(0, [120])]⟩], [], []⟩

theorem if_valid : shapeCheck ifSrc ifProg = true ∧ wfCheck ifProg = true := by decide +kernel

theorem if_constants : Sim.maxSiteRun ifProg.code = 1 ∧ vmFactor ifProg = 8 ∧
    vmOffset ifSrc ifProg = 4 := by decide

theorem if_ref : (Sem.run ifSrc 4 (initial ifSrc) 0).1.status = .halted ∧
    (Sem.run ifSrc 3 (initial ifSrc) 0).1.status = .running := by decide +kernel

theorem if_vm : (∃ vm, vmRun ifProg 18 = .ok vm ∧ vm.isDone = .ok true) ∧
    (∃ vm, vmRun ifProg 17 = .ok vm ∧ vm.isDone = .ok false) :=
  ⟨doneAt_spec (by decide +kernel), doneAt_spec (by decide +kernel)⟩

theorem if_budget_upper : ∃ m vm, m ≤ 8 * 4 + 4 ∧ vmRun ifProg m = .ok vm ∧
    vm.isDone = .ok true ∧ ViewsAgree ifProg (Sem.run ifSrc 4 (initial ifSrc) 0).1 vm := by
  have := C01_budget_upper ifSrc ifProg if_valid.1 if_valid.2 4 if_ref.1
  rwa [if_constants.2.1, if_constants.2.2] at this

/-! … and without a bound on the sites there is no bound at all: the empty program behind 100
    sites — one reference step (into `halted`), 101 instructions. -/

def sitesSrc : Source := ⟨[], .nil⟩
def sitesProg : Program :=
  ⟨.prepare 0 0 0 :: List.replicate 100 .potBreak ++ [.halt], [⟨[], []⟩], [], []⟩

theorem sites_valid : shapeCheck sitesSrc sitesProg = true ∧ wfCheck sitesProg = true := by
  decide +kernel

theorem sites_ref : (Sem.run sitesSrc 1 (initial sitesSrc) 0).1.status = .halted := by decide

theorem sites_vm : (∃ vm, vmRun sitesProg 101 = .ok vm ∧ vm.isDone = .ok true) ∧
    (∃ vm, vmRun sitesProg 100 = .ok vm ∧ vm.isDone = .ok false) :=
  ⟨doneAt_spec (by decide +kernel), doneAt_spec (by decide +kernel)⟩

/-! The compiled program of `C01CompileDemo` (a macro, a PROGRAM, a call, a LOOP): both bounds hold
    by `C01_compile_budget` / `C01_compile_budget_upper`; its constants (evaluated: `toSource`
    does not reduce in the kernel) are κ = 4 (width-based: 27), no run of sites, C = 4, D = 3;
    the reference execution halts after 45 steps, the bytecode is done after 46 instructions. -/

theorem compile_demo_budget :
    ∀ m vm, vmRun (compile C01CompileDemo.files C01CompileDemo.main).code m = .ok vm →
      vm.isDone = .ok true →
      ∃ n, n ≤ stutterFactor (toSource (parseFiles C01CompileDemo.files C01CompileDemo.main).ast.root) * m +
            stutterFactor (toSource (parseFiles C01CompileDemo.files C01CompileDemo.main).ast.root) ∧
        (Sem.run (toSource (parseFiles C01CompileDemo.files C01CompileDemo.main).ast.root) n
          (initial (toSource (parseFiles C01CompileDemo.files C01CompileDemo.main).ast.root)) 0).1.status =
            .halted :=
  C01_compile_budget _ _ C01CompileDemo.demo_ok C01CompileDemo.demo_labels

#guard stutterFactor (toSource (parseFiles C01CompileDemo.files C01CompileDemo.main).ast.root) == 4
#guard budgetFactor (toSource (parseFiles C01CompileDemo.files C01CompileDemo.main).ast.root) == 27
#guard vmFactor (compile C01CompileDemo.files C01CompileDemo.main).code == 4
#guard vmOffset (toSource (parseFiles C01CompileDemo.files C01CompileDemo.main).ast.root)
  (compile C01CompileDemo.files C01CompileDemo.main).code == 3
#guard doneAt (compile C01CompileDemo.files C01CompileDemo.main).code 46 == some true
#guard doneAt (compile C01CompileDemo.files C01CompileDemo.main).code 45 == some false

end C01BudgetDemo

end Theo
