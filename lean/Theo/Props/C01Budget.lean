/-
  C01, quantitative clause — "a source that has not finished within a step budget has not
  finished on the VM within the proportional budget either".

  The guess `C01_budget_statement` of C01.lean (`n ≤ 4 * m + 4`, universal constants) is FALSE,
  and so is every other choice of universal constants (`C01_budget_no_universal_constants`):
  a mark (a label, the `END` keyword of a loop) is a step of the reference machine and compiles
  to no instruction at all, so `N` marks in a row cost `N` reference steps and zero VM
  instructions.  The proportionality factor necessarily depends on the source.  What is proved:

      C01_budget :   vmRun p m = ok vm, vm done   ⟹   the reference execution halts within
                     κ·m + κ steps,   κ = budgetFactor src = srcWidth src + 1

  Where the constants come from.  The simulation (Proofs/SimStep.lean) matches a reference step
  either by at least one VM instruction or by none — a stutter: entering `x := v`, a mark,
  descending into the first argument of a call, moving to the next argument, storing the value
  in `x` — and every stutter decreases the measure `cmeasure`: the size of the rest of the
  statement list in focus plus that of the value under evaluation.  The focus is a suffix of a
  statement list of the source, so `cmeasure ≤ srcWidth src` in every reachable configuration
  (Proofs/SimCountWidth.lean), i.e. at most `srcWidth src` stutters separate two VM instructions:
      · the factor  κ = srcWidth src + 1  of `m`: one reference step that executes, plus the
        stutters that may follow it, per VM instruction;
      · the additive κ: the stutters before the first matched instruction, plus the final
        step into `halted` (which executes no instruction: `HALT` is not executed).
  (Proofs/SimCount.lean keeps `n + cmeasure ≤ κ·m + srcWidth src` along the execution; the VM
  is deterministic and no state before the matched `HALT` is done, so the VM's `m` is at
  least the simulation's.)
-/
import Theo.Proofs.SimCount
import Theo.Props.C01
import Theo.Props.C01Compile

namespace Theo
open Sem

/-- the proportionality factor of the budget: one more than the width of the source, the largest
    `fsize` (Proofs/SimStep.lean) of a statement list occurring in it — a routine body, the main
    program, the body of a loop, not counting nested bodies: 2 per statement, and for `x := v`
    additionally 2 + the number of nodes and of argument positions of `v` -/
def budgetFactor (src : Source) : Nat := Sim.srcWidth src + 1

/-- the VM cannot finish early: if the bytecode is done after `m` instructions, the reference
    execution halts within `κ * m + κ` steps, `κ = budgetFactor src` -/
theorem C01_budget (src : Source) (p : Program)
    (hs : shapeCheck src p = true) (hw : wfCheck p = true)
    (m : Nat) (vm : VM) (h : vmRun p m = .ok vm) (hd : vm.isDone = .ok true) :
    ∃ n, n ≤ budgetFactor src * m + budgetFactor src ∧
      (Sem.run src n (initial src) 0).1.status = .halted := by
  obtain ⟨V, hV⟩ := Sim.valid_of_shapeCheck hs
  obtain ⟨R, hc⟩ := WF.certOK_of_check hw
  rw [vmRun_eq_runFrom] at h
  obtain ⟨n, hn, hh⟩ := Sim.budget_sim hc hV (Sim.cmeasure_le_width src) h hd
  refine ⟨n, ?_, by rw [Sim.run_fst]; exact hh⟩
  rw [Nat.mul_succ] at hn
  exact hn

/-- contrapositive, in the words of the property: a source that has not finished within
    `κ * m + κ` steps has not finished on the VM within `m` instructions -/
theorem C01_budget_not_finished (src : Source) (p : Program)
    (hs : shapeCheck src p = true) (hw : wfCheck p = true) (m : Nat)
    (hr : ∀ n, n ≤ budgetFactor src * m + budgetFactor src →
      (Sem.run src n (initial src) 0).1.status = .running)
    (vm : VM) (h : vmRun p m = .ok vm) : vm.isDone ≠ .ok true := by
  intro hd
  obtain ⟨n, hn, hh⟩ := C01_budget src p hs hw m vm h hd
  rw [hr n hn] at hh
  cases hh

/-- the same for every accepted compilation of the model -/
theorem C01_compile_budget (files : Files) (main : Bytes)
    (hok : (compile files main).ok = true)
    (hl : LabelsOK (parseFiles files main).ast.root = true) :
    let src := toSource (parseFiles files main).ast.root
    let p := (compile files main).code
    ∀ m vm, vmRun p m = .ok vm → vm.isDone = .ok true →
      ∃ n, n ≤ budgetFactor src * m + budgetFactor src ∧
        (Sem.run src n (initial src) 0).1.status = .halted := by
  intro src p
  exact C01_budget src p (C01_compile_shape files main hok hl) (C03_compile_wf files main hok)

/-! ### no universal constants: marks are free on the VM -/

namespace C01BudgetDemo

/-- `N` marks `L:` in a row -/
def marks : Nat → Stmts
  | 0 => .nil
  | N + 1 => .cons (.mark [76] ([], 0)) (marks N)

def marksSrc (N : Nat) : Source := ⟨[], marks N⟩

/-- the code of every `marksSrc N`: `PREPARE; HALT` -/
def marksProg : Program := ⟨[.prepare 0 0 0, .halt], [⟨[], []⟩], [], []⟩

theorem marks_check (e : VEnv) : ∀ (N : Nat) (w : Walk),
    ∃ w', checkStmts e (marks N) w = some w' ∧ w'.pc = w.pc ∧ w'.gotos = w.gotos := by
  intro N
  induction N with
  | zero => intro w; exact ⟨w, by simp only [marks, checkStmts], rfl, rfl⟩
  | succ N ih =>
    intro w
    obtain ⟨w', h1, h2, h3⟩ := ih { w with marks := w.marks ++ [([76], w.pc)] }
    exact ⟨w', by simp only [marks, checkStmts, checkStmt]; exact h1, h2, h3⟩

theorem marks_shape (N : Nat) : shapeCheck (marksSrc N) marksProg = true := by
  obtain ⟨w', h1, h2, h3⟩ := marks_check
    ⟨marksProg.code, marksSrc N, ⟨0, 0, []⟩, 0, []⟩ N ⟨1, [], []⟩
  have h2' : w'.pc = 1 := h2
  have h3' : w'.gotos = [] := h3
  have hres : resolveOK marksProg.code w' = true := by
    unfold resolveOK
    rw [h3']
    rfl
  unfold shapeCheck
  simp only [marksProg, marksSrc, checkProgs, List.length_nil] at h1 hres ⊢
  simp only [List.getElem?_cons_zero]
  rw [h1]
  simp only [hres, h2']
  rfl

theorem marks_wf : wfCheck marksProg = true := by decide

/-- the VM is done after the one instruction `PREPARE` -/
theorem marks_vm : ∃ vm, vmRun marksProg 1 = .ok vm ∧ vm.isDone = .ok true := ⟨_, rfl, rfl⟩

theorem marks_iter (src : Source) (r : Nat) : ∀ (n k : Nat),
    Sim.iter src n ⟨[⟨r, [], [], marks (n + k), .done, .run⟩], .running⟩ =
      ⟨[⟨r, [], [], marks k, .done, .run⟩], .running⟩ := by
  intro n
  induction n with
  | zero => intro k; rw [Nat.zero_add]; rfl
  | succ n ih =>
    intro k
    rw [Sim.iter_succ', show n + 1 + k = (n + k) + 1 by omega]
    exact ih k

/-- the reference execution of `marksSrc N` is still running after `N` steps -/
theorem marks_running (N n : Nat) (h : n ≤ N) :
    (Sem.run (marksSrc N) n (initial (marksSrc N)) 0).1.status = .running := by
  rw [Sim.run_fst]
  obtain ⟨k, rfl⟩ : ∃ k, N = n + k := ⟨N - n, by omega⟩
  show (Sim.iter (marksSrc (n + k)) n ⟨[⟨0, [], [], marks (n + k), .done, .run⟩], .running⟩).status = _
  rw [marks_iter]

end C01BudgetDemo

/-- whatever the constants `A`, `B`: a validated program that is done after one instruction while
    its source has not halted within `A * 1 + B` steps -/
theorem C01_budget_no_universal_constants (A B : Nat) :
    ∃ (src : Source) (p : Program), shapeCheck src p = true ∧ wfCheck p = true ∧
      ∃ m vm, vmRun p m = .ok vm ∧ vm.isDone = .ok true ∧
        ∀ n, n ≤ A * m + B → (Sem.run src n (initial src) 0).1.status ≠ .halted := by
  obtain ⟨vm, h1, h2⟩ := C01BudgetDemo.marks_vm
  refine ⟨C01BudgetDemo.marksSrc (A * 1 + B), C01BudgetDemo.marksProg,
    C01BudgetDemo.marks_shape _, C01BudgetDemo.marks_wf, 1, vm, h1, h2, fun n hn hh => ?_⟩
  rw [C01BudgetDemo.marks_running _ n hn] at hh
  cases hh

/-- in particular the statement guessed in C01.lean does not hold -/
theorem C01_budget_statement_false : ¬ C01_budget_statement := by
  intro hst
  obtain ⟨src, p, hs, hw, m, vm, h1, h2, h3⟩ := C01_budget_no_universal_constants 4 4
  obtain ⟨n, hn, hh⟩ := hst src p hs hw m vm h1 h2
  exact h3 n hn hh

/-! ### non-vacuity: a concrete program -/

namespace C01BudgetDemo

/-- `x := 2; LOOP x DO y := y + 1 END; L:` (the loop's `END` and `L:` are marks) -/
def demoSrc : Source :=
  ⟨[], .cons (.assign [120] (.num 2) ([109], 1))
      (.cons (.loop 1 [120]
          (.cons (.assign [121] (.inc [121] 1) ([109], 1)) (.cons (.mark [69, 78, 68] ([109], 1)) .nil))
          ([109], 1))
        (.cons (.mark [76] ([109], 1)) .nil))⟩

/-- its code as the compilation scheme lays it out: registers x = 0, y = 1, the loop counter = 2,
    temporaries 3 and 4 -/
def demoProg : Program :=
  ⟨[.prepare 5 0 0, .const 0 2, .add 2 0 0, .jmpc 6 2, .add 3 1 0, .const 4 1, .add 1 3 1,
    .add 2 2 (-1), .jmp (-5), .halt],
   [⟨[], [(0, [120]), (1, [121]), (2, bLoopVar ++ [109, 58, 49, 91, 49, 93])]⟩], [], []⟩

theorem demo_valid : shapeCheck demoSrc demoProg = true ∧ wfCheck demoProg = true := by
  decide +kernel

theorem demo_factor : budgetFactor demoSrc = 9 := by decide

/-- the bytecode is done after 16 instructions (and not before) … -/
theorem demo_vm : (∃ vm, vmRun demoProg 16 = .ok vm ∧ vm.isDone = .ok true) ∧
    (∃ vm, vmRun demoProg 15 = .ok vm ∧ vm.isDone = .ok false) := ⟨⟨_, rfl, rfl⟩, ⟨_, rfl, rfl⟩⟩

/-- … hence (C01_budget) its source halts within 9 * 16 + 9 steps -/
theorem demo_budget : ∃ n, n ≤ 9 * 16 + 9 ∧
    (Sem.run demoSrc n (initial demoSrc) 0).1.status = .halted := by
  obtain ⟨vm, h1, h2⟩ := demo_vm.1
  have := C01_budget demoSrc demoProg demo_valid.1 demo_valid.2 16 vm h1 h2
  rwa [demo_factor] at this

-- evaluated: the reference execution halts after exactly 16 steps (3 for `x := 2`, 1 to enter the
-- loop, 5 per iteration — of which 4 stutter —, 1 for `L:`, 1 into `halted`)
#guard (Sem.run demoSrc 100 (initial demoSrc) 0).2 == 16
#guard (Sem.run demoSrc 100 (initial demoSrc) 0).1.status == .halted
#guard (Sem.run demoSrc 15 (initial demoSrc) 0).1.status == .running

end C01BudgetDemo

end Theo
