/-
  C18 — compilation and execution are deterministic and share no state (model level).
  Every Lean function is deterministic, so what can be *proved* is modest: in a process whose
  state is a finite collection of VM instances and nothing else, a compilation's response does
  not depend on the history, and the calls on one instance neither see nor change another.
  That "nothing else" describes the C++ process (no hidden static state, no data race) is runtime
  behaviour: it is checked by the symbol audit, history-permuted runs and ThreadSanitizer.
-/
import Theo.Proofs.ProcProofs

namespace Theo

/-- a compilation changes nothing and answers `compile files main`, whatever happened before -/
theorem C18_compile_pure (s : Proc) (files : Files) (main : Bytes) :
    procStep s (.compile files main) = (s, .compiled (compile files main)) := by
  rfl

/-- an operation on instance `i` leaves every other instance untouched -/
theorem C18_other_instances_untouched (s : Proc) (op : POp) (i j : Nat) (h : op.instance? = some i) (hne : j ≠ i) :
    (procStep s op).1.lookup j = s.lookup j := by
  exact procStep_lookup_ne s op i j h hne

/-- the state of instance `i` and the responses to its operations in any interleaved history are
    those of its own sub-history run alone -/
theorem C18_noninterference (ops : List POp) (i : Nat) :
    (procRun [] ops).1.lookup i = (procRun [] (ops.filter (fun o => o.instance? = some i))).1.lookup i ∧
    ((ops.zip (procRun [] ops).2).filter (fun x => x.1.instance? = some i)).map (·.2) =
      (procRun [] (ops.filter (fun o => o.instance? = some i))).2 := by
  exact procRun_noninterference ops i [] [] rfl

end Theo
