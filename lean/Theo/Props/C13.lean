/-
  C13 — generated LR(1) parsers recognise exactly their grammar.
  Proved so far: FIRST sets equal their textbook definition; soundness of the table-driven
  driver in full and prefix mode, unconditionally (with or without conflicts), including the
  returned value being the fold of a derivation tree of the accepted (prefix of the) input.
  Completeness for conflict-free tables is stated (`C13_complete_statement`) and not yet proved.
-/
import Theo.Proofs.FirstProofs
import Theo.Proofs.LRSound

namespace Theo

/-- FIRST sets equal their textbook definition (terminals and ε) -/
theorem C13_first_correct (g : Grammar) (hg : g.Closed) (n a : Nat) (hn : n < g.numNT) :
    a ∈ (firstSets g).firstOf n ↔ First g n a :=
  FirstProofs.first_correct g hg n a

theorem C13_nullable_correct (g : Grammar) (hg : g.Closed) (n : Nat) (hn : n < g.numNT) :
    (firstSets g).nullOf n = true ↔ Nullable g n :=
  FirstProofs.nullable_correct g hg n

/-- the tables of `genTables` with a generous state budget: `fuel` only bounds how many states
    are expanded; soundness holds for every `fuel` -/
def tablesOf (g : Grammar) (start eof : Nat) (prefixMode : Bool) (fuel : Nat) : Tables :=
  (genTables g start eof prefixMode fuel).1

/-- Soundness, full mode: an accepted end-marked input belongs to the language, and the value
    is a valid derivation tree of exactly that input rooted in the start symbol.
    Side conditions as in the property: `eof` does not occur in the rules. -/
theorem C13_sound_full (g : Grammar) (start eof : Nat) (sfuel fuel : Nat) (w : List Nat) (v : Tree)
    (hg : g.Closed) (hs : start < g.numNT) (he : eof ∉ g.terminals) (hw : eof ∉ w)
    (h : lrParseTree (tablesOf g start eof false sfuel) fuel (w ++ [eof]) = .accept v) :
    v.Valid g ∧ v.root = .n start ∧ v.yield = w :=
  LRSound.sound_full g start eof sfuel fuel w v hg hs hw h

/-- Soundness, prefix mode: the accepted value is a valid tree whose yield is a prefix of the input -/
theorem C13_sound_prefix (g : Grammar) (start eof : Nat) (sfuel fuel : Nat) (inp : List Nat) (v : Tree)
    (hg : g.Closed) (hs : start < g.numNT) (he : eof ∉ g.terminals)
    (h : lrParseTree (tablesOf g start eof true sfuel) fuel inp = .accept v) :
    v.Valid g ∧ v.root = .n start ∧ v.yield <+: inp :=
  LRSound.sound_prefix g start eof sfuel fuel inp v hg hs h

/-- the value returned for arbitrary semantic actions is the fold of that tree
    (rule actions applied to the values of the right-hand side, last symbol first) -/
theorem C13_value_is_fold {V : Type} (T : Tables) (leaf : Nat → V) (act : Nat → Nat → List V → V)
    (fuel : Nat) (inp : List Nat) :
    lrParse T (fun (t : Nat) => t) leaf act fuel inp [0] [] =
      (match lrParseTree T fuel inp with
       | .accept t => .accept (t.fold leaf act)
       | .reject => .reject
       | .stuck => .stuck
       | .fuelOut => .fuelOut) :=
  LRSound.value_is_fold T leaf act fuel inp

/-- hence: what is not in the language is never accepted -/
theorem C13_reject (g : Grammar) (start eof : Nat) (sfuel fuel : Nat) (w : List Nat)
    (hg : g.Closed) (hs : start < g.numNT) (he : eof ∉ g.terminals) (hw : eof ∉ w)
    (hn : ¬ Derives g (.n start) w) :
    ∀ v, lrParseTree (tablesOf g start eof false sfuel) fuel (w ++ [eof]) ≠ .accept v := by
  intro v h
  exact hn ⟨v, LRSound.sound_full g start eof sfuel fuel w v hg hs hw h⟩

/-- Completeness for conflict-free tables (not yet proved; kept visible at full strength) -/
def C13_complete_statement : Prop :=
  ∀ (g : Grammar) (start eof : Nat) (sfuel : Nat) (t : Tree),
    g.Closed → start < g.numNT → eof ∉ g.terminals → t.Valid g → t.root = .n start → eof ∉ t.yield →
    (tablesOf g start eof false sfuel).conflicts = [] →
    (genTables g start eof false sfuel).2 < sfuel →
    ∃ fuel, lrParseTree (tablesOf g start eof false sfuel) fuel (t.yield ++ [eof]) = .accept t

end Theo
