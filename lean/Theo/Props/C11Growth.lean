/-
  C11, growth clause — "growth of the token stream is bounded by budget times body length".

  Made precise: with *linear* bodies (every slot inserted at most once, `MacroDef.linearBody`)
  the stream returned by `applyMacros` is at most `rewrites × maxBody defs` tokens longer than the
  input, hence at most `passes × maxBody defs` longer; `maxBody defs` is the maximal body length
  among *all* definitions of the list (a variant with the usable ones only is given too).
  No hypothesis on the responses is needed: "the slot fillers fit into the matched range" is the
  C09 semantic link (`DetectorProofs.match_derives`: the split flattens to the matched range).

  Without linearity the clause is false (`C11_growth_statement_false`): a body that inserts a slot
  twice doubles the matched range at every pass.  What holds for arbitrary bodies is the
  multiplicative step bound `C11_growth_step_general` and the exponential bound `C11_growth_general`.
-/
import Theo.Proofs.GrowthProofsGeneral
import Theo.Props.C11

namespace Theo

/-- one rewriting step of a macro with a linear body grows the stream by at most its body length
    (exactly: the matched range, which contains all slot fillers, is replaced by the body with each
    mentioned filler inserted at most once) -/
theorem C11_growth_step_linear (defs : List MacroDef) (inp : List Token) (p : Nat)
    (d : Detector) (r : Response) (out : List Token)
    (h : applyStep (usableBins defs) inp p = some (d, r, out)) (hl : d.md.linearBody) :
    d.md ∈ defs ∧ out.length ≤ inp.length + d.md.body.length := by
  obtain ⟨m, hm, rfl, _⟩ := step_detector defs inp p d r out h
  exact ⟨hm, step_growth_linear _ inp p m r out h hl⟩

/-- one rewriting step of any macro: the new length is at most
    old length × (number of inserting `$n` tokens of the body, at least 1) + body length -/
theorem C11_growth_step_general (defs : List MacroDef) (inp : List Token) (p : Nat)
    (d : Detector) (r : Response) (out : List Token)
    (h : applyStep (usableBins defs) inp p = some (d, r, out)) :
    out.length ≤ inp.length * max 1 d.md.insertions + d.md.body.length := by
  obtain ⟨m, _, rfl, _⟩ := step_detector defs inp p d r out h
  exact step_growth_general _ inp p m r out h

/-- growth clause, linear bodies: at most `maxBody defs` new tokens per rewrite -/
theorem C11_growth_linear (inp : List Token) (defs : List MacroDef) (passes : Nat)
    (h : ∀ m ∈ defs, m.linearBody) :
    (applyMacros inp defs passes).toks.length ≤
      inp.length + (applyMacros inp defs passes).rewrites * maxBody defs :=
  applyMacros_growth inp defs passes (maxBody defs)
    (fun m hm _ => ⟨h m hm, body_le_maxBody hm⟩)

/-- growth clause, linear bodies: at most budget × maximal body length new tokens -/
theorem C11_growth_linear_budget (inp : List Token) (defs : List MacroDef) (passes : Nat)
    (h : ∀ m ∈ defs, m.linearBody) :
    (applyMacros inp defs passes).toks.length ≤ inp.length + passes * maxBody defs :=
  Nat.le_trans (C11_growth_linear inp defs passes h)
    (Nat.add_le_add_left (Nat.mul_le_mul_right _ (C11_rewrites_le_budget inp defs passes)) _)

/-- the same with the usable (accepted, conflict-free) definitions only: rejected definitions need
    not be linear and do not count for the maximal body length -/
theorem C11_growth_linear_usable (inp : List Token) (defs : List MacroDef) (passes : Nat)
    (h : ∀ m ∈ defs, (mkDetector m).usable = true → m.linearBody) :
    (applyMacros inp defs passes).toks.length ≤
      inp.length + (applyMacros inp defs passes).rewrites *
        maxBody (defs.filter (fun m => (mkDetector m).usable)) ∧
    (applyMacros inp defs passes).toks.length ≤
      inp.length + passes * maxBody (defs.filter (fun m => (mkDetector m).usable)) := by
  have h1 := applyMacros_growth inp defs passes
    (maxBody (defs.filter (fun m => (mkDetector m).usable)))
    (fun m hm hu => ⟨h m hm hu, body_le_maxBody (List.mem_filter.mpr ⟨hm, hu⟩)⟩)
  refine ⟨h1, Nat.le_trans h1 ?_⟩
  exact Nat.add_le_add_left (Nat.mul_le_mul_right _ (C11_rewrites_le_budget inp defs passes)) _

/-- arbitrary bodies: the stream grows at most exponentially in the number of rewrites, with base
    `growthFactor defs` = the maximal number of inserting `$n` tokens in a body (at least 2) -/
theorem C11_growth_general (inp : List Token) (defs : List MacroDef) (passes : Nat) :
    (applyMacros inp defs passes).toks.length + maxBody defs ≤
      (inp.length + maxBody defs) * growthFactor defs ^ (applyMacros inp defs passes).rewrites :=
  applyMacros_growth_general inp defs passes

theorem C11_growth_general_budget (inp : List Token) (defs : List MacroDef) (passes : Nat) :
    (applyMacros inp defs passes).toks.length + maxBody defs ≤
      (inp.length + maxBody defs) * growthFactor defs ^ passes :=
  Nat.le_trans (C11_growth_general inp defs passes)
    (Nat.mul_le_mul_left _ (Nat.pow_le_pow_right
      (Nat.le_trans (by decide) (two_le_growthFactor defs)) (C11_rewrites_le_budget inp defs passes)))

/-- linearity can be checked on the slot numbers as written: no `$n` number occurs twice (the
    slot table of an extracted definition lists increasing rule positions, so it has no repeats) -/
theorem C11_linear_of_numbers (m : MacroDef) (htt : m.tt.Nodup) (hn : m.slotNumbers.Nodup) :
    m.linearBody :=
  linearBody_of_numbers m htt hn

/-! ### the clause is false without linearity -/

namespace C11GrowthExample

def tk (k : Nat) (t : Bytes) : Token := ⟨k, t, [109], 1⟩

/-- `DEFINE ( <A> ) AS ( $0 , $0 ) END DEFINE` -/
def dupMacro : MacroDef :=
  ⟨0, [tk Tok.PAREN_OPEN [40], tk Tok.ARGS_TEMP [60, 65, 62], tk Tok.PAREN_CLOSE [41]], [], [1],
    [tk Tok.PAREN_OPEN [40], tk Tok.INSERTION [36, 48], tk Tok.ARGSEP [44],
     tk Tok.INSERTION [36, 48], tk Tok.PAREN_CLOSE [41]]⟩

/-- `x := ( a )` (with the end-of-stream token every scanned stream carries) -/
def assignInp : List Token :=
  [tk Tok.ID [120], tk Tok.ASSIGN [58, 61], tk Tok.PAREN_OPEN [40], tk Tok.ID [97],
   tk Tok.PAREN_CLOSE [41], tk Tok.T_EOF []]

/-- `( a , a , a )` -/
def argsInp : List Token :=
  [tk Tok.PAREN_OPEN [40], tk Tok.ID [97], tk Tok.ARGSEP [44], tk Tok.ID [97], tk Tok.ARGSEP [44],
   tk Tok.ID [97], tk Tok.PAREN_CLOSE [41], tk Tok.T_EOF []]

/-- the macro is what `extractMacros` produces from its source text -/
theorem dupMacro_extracted :
    (extractMacros ([tk Tok.DEFINE [], tk Tok.PAREN_OPEN [40], tk Tok.ARGS_TEMP [60, 65, 62],
      tk Tok.PAREN_CLOSE [41], tk Tok.AS [], tk Tok.PAREN_OPEN [40], tk Tok.INSERTION [36, 48],
      tk Tok.ARGSEP [44], tk Tok.INSERTION [36, 48], tk Tok.PAREN_CLOSE [41],
      tk Tok.END_DEFINE []] ++ assignInp)).macros = [dupMacro] ∧
    (extractMacros ([tk Tok.DEFINE [], tk Tok.PAREN_OPEN [40], tk Tok.ARGS_TEMP [60, 65, 62],
      tk Tok.PAREN_CLOSE [41], tk Tok.AS [], tk Tok.PAREN_OPEN [40], tk Tok.INSERTION [36, 48],
      tk Tok.ARGSEP [44], tk Tok.INSERTION [36, 48], tk Tok.PAREN_CLOSE [41],
      tk Tok.END_DEFINE []] ++ assignInp)).toks = assignInp := by
  decide +kernel

/-- it is accepted, and its body is not linear: slot 0 is inserted twice -/
theorem dupMacro_facts : (mkDetector dupMacro).usable = true ∧ ¬ dupMacro.linearBody ∧
    dupMacro.slotRefs = [1, 1] ∧ maxBody [dupMacro] = 5 := by
  decide +kernel

/-- the stream doubles at every pass: 6, 8, 12, 20, 36 tokens -/
theorem dupMacro_lengths :
    (List.range 5).map (fun p => (applyMacros assignInp [dupMacro] p).toks.length) =
      [6, 8, 12, 20, 36] := by
  decide +kernel

/-- four passes on `x := ( a )`: 36 tokens > 6 + 4 × 5 -/
theorem dupMacro_exceeds :
    (applyMacros assignInp [dupMacro] 4).toks.length > assignInp.length + 4 * maxBody [dupMacro] := by
  decide +kernel

/-- already one pass on `( a , a , a )`: 14 tokens > 8 + 1 × 5 -/
theorem dupMacro_exceeds_one :
    (applyMacros argsInp [dupMacro] 1).toks.length > argsInp.length + 1 * maxBody [dupMacro] := by
  decide +kernel

/-- the general bound for this macro: factor 2 per pass (and the stream does double) -/
example : growthFactor [dupMacro] = 2 ∧
    (applyMacros assignInp [dupMacro] 4).toks.length + 5 ≤ (assignInp.length + 5) * 2 ^ 4 := by
  decide +kernel

end C11GrowthExample

/-- the growth clause as literally stated (no linearity hypothesis) is false -/
theorem C11_growth_statement_false :
    ∃ (inp : List Token) (defs : List MacroDef) (passes : Nat),
      (applyMacros inp defs passes).toks.length > inp.length + passes * maxBody defs :=
  ⟨C11GrowthExample.assignInp, [C11GrowthExample.dupMacro], 4, C11GrowthExample.dupMacro_exceeds⟩

/-- … even with the number of rewrites in place of the budget, and for a single pass -/
theorem C11_growth_statement_false_rewrites :
    ∃ (inp : List Token) (defs : List MacroDef) (passes : Nat),
      (applyMacros inp defs passes).toks.length >
        inp.length + (applyMacros inp defs passes).rewrites * maxBody defs :=
  ⟨C11GrowthExample.argsInp, [C11GrowthExample.dupMacro], 1, by decide +kernel⟩

/-! ### non-vacuity: linear macro sets for which the bound is (nearly) attained -/

namespace C11GrowthExample

/-- `DEFINE foo AS foo ; x := 1 END DEFINE` -/
def fooMacro : MacroDef :=
  ⟨0, [tk Tok.ID [102, 111, 111]], [0], [],
    [tk Tok.ID [102, 111, 111], tk Tok.PROGSEP [59], tk Tok.ID [120], tk Tok.ASSIGN [58, 61],
     tk Tok.INT [49]]⟩

def fooInp : List Token := [tk Tok.ID [102, 111, 111], tk Tok.T_EOF []]

theorem fooMacro_linear : ∀ m ∈ [fooMacro], m.linearBody := by decide +kernel

/-- every pass rewrites and adds body length − 1 = 4 tokens (the matched `foo` is consumed):
    after 3 passes 2 + 3 × 4 = 14 tokens, the bound being 2 + 3 × 5 = 17 -/
example : (mkDetector fooMacro).usable = true ∧ maxBody [fooMacro] = 5 ∧
    (applyMacros fooInp [fooMacro] 3).rewrites = 3 ∧
    (applyMacros fooInp [fooMacro] 3).toks.length = fooInp.length + 3 * (maxBody [fooMacro] - 1) := by
  decide +kernel

example : (applyMacros fooInp [fooMacro] 3).toks.length ≤ fooInp.length + 3 * maxBody [fooMacro] :=
  C11_growth_linear_budget fooInp [fooMacro] 3 fooMacro_linear

/-- a linear macro that does use a slot: `DEFINE ( <A> ) AS ( $0 , b ) END DEFINE`; each pass
    adds 2 tokens (body length 5, minus the 3 pattern tokens, the filler being copied once) -/
def appMacro : MacroDef :=
  ⟨0, [tk Tok.PAREN_OPEN [40], tk Tok.ARGS_TEMP [60, 65, 62], tk Tok.PAREN_CLOSE [41]], [], [1],
    [tk Tok.PAREN_OPEN [40], tk Tok.INSERTION [36, 48], tk Tok.ARGSEP [44],
     tk Tok.ID [98], tk Tok.PAREN_CLOSE [41]]⟩

example : appMacro.linearBody ∧ appMacro.slotRefs = [1] ∧
    (List.range 5).map (fun p => (applyMacros assignInp [appMacro] p).toks.length) =
      [6, 8, 10, 12, 14] := by
  decide +kernel

/-- the model-level bound is attained exactly by a definition with an empty pattern (the model
    accepts it, `extractMacros` never produces one): nothing is consumed, the whole body is added
    at every pass -/
def emptyMacro : MacroDef := ⟨0, [], [], [], [tk Tok.ID [120], tk Tok.PROGSEP [59]]⟩

example : (∀ m ∈ [emptyMacro], m.linearBody) ∧
    (applyMacros fooInp [emptyMacro] 4).toks.length = fooInp.length + 4 * maxBody [emptyMacro] := by
  decide +kernel

end C11GrowthExample

end Theo
