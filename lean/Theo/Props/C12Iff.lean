/-
  C12 / C13 — acceptance characterised exactly: the detector construction reports no conflict
  iff the (augmented, prefix-mode) detector grammar is LR(1) in Knuth's sense.

  This file adds the classical direction "conflict-free canonical LR(1) tables ⇒ LR(1)"
  (`Theo/Proofs/LRIff*.lean`) to the converse of `Theo/Props/C12Converse.lean`:
  * every right sentential form `α A w` has a *spine* (the chain of rules from `S'` to its last
    non-terminal, everything to the right already derived) — `LRIff.rd_spine`;
  * with conflict-free tables and an unexhausted state budget the collection is complete along
    spines: the state of `α` contains `[A → . μ, FIRST₁(w·eof)]`, and the dot can be moved along
    any right-hand side inside the collection — `LRIff.spine_items`, `LRIff.walk`;
  * for the two derivations of Knuth's condition the state of `αβ` (or of `γρ`, if that is
    shorter) then holds two decisions for one column; conflict-free tables contain every action
    (`LRComplete.RowComplete`), so both are the same reduction — `LRIff.no_conflict_lr1`.
  Here the budget condition is needed (completeness of the collection); `RuleOK`, `NoDupAlts`
  and `Productive` are not.
-/
import Theo.Proofs.LRIffMain
import Theo.Props.C12Converse

namespace Theo

/-- conflict-free tables (budget not exhausted) ⇒ LR(1), any grammar, full or prefix mode -/
theorem C13_no_conflict_lr1 (g : Grammar) (start eof : Nat) (pm : Bool) (sfuel : Nat)
    (hg : g.Closed) (hs : start < g.numNT)
    (hc : (tablesOf g start eof pm sfuel).conflicts = [])
    (hf : (genTables g start eof pm sfuel).2 < sfuel) :
    KnuthLR1 (g.augment start eof) g.numNT eof pm :=
  LRIff.no_conflict_lr1 g start eof pm sfuel hg hs hc hf

/-- the characterisation, any grammar: for a closed, reduced grammar without duplicate
    productions whose rules do not mention the end marker, and a sufficient state budget,
    "no conflict" is exactly Knuth's LR(1) condition -/
theorem C13_no_conflict_iff_lr1 (g : Grammar) (start eof : Nat) (pm : Bool) (sfuel : Nat)
    (hg : g.Closed) (hs : start < g.numNT) (he : eof ∉ g.terminals)
    (hnd : g.NoDupAlts) (hp : g.Productive)
    (hf : (genTables g start eof pm sfuel).2 < sfuel) :
    (tablesOf g start eof pm sfuel).conflicts = [] ↔ KnuthLR1 (g.augment start eof) g.numNT eof pm :=
  ⟨fun hc => C13_no_conflict_lr1 g start eof pm sfuel hg hs hc hf,
   fun h => C13_lr1_no_conflict g start eof pm sfuel hg hs he hnd hp h⟩

/-- an accepted pattern is LR(1) (`RuleOK` is not needed for this direction) -/
theorem C12_accepted_lr1 (m : MacroDef) (_hr : RuleOK m) (hf : DetectorComplete m)
    (hc : (mkDetector m).tables.conflicts = []) : DetectorLR1 m :=
  LRIff.no_conflict_lr1 (detectorGrammar m) DetGen.macroNT Tok.T_EOF true detectorStateFuel
    (DetectorProofs.det_closed m) (DetectorProofs.det_start_lt m) hc hf

/-- a pattern is accepted iff its detector grammar is LR(1) -/
theorem C12_accepted_iff_lr1 (m : MacroDef) (hr : RuleOK m) (hf : DetectorComplete m) :
    (mkDetector m).tables.conflicts = [] ↔ DetectorLR1 m :=
  ⟨C12_accepted_lr1 m hr hf, C12_lr1_accepted m hr hf⟩

/-- a pattern is rejected iff its detector grammar is not LR(1) -/
theorem C12_rejected_iff_not_lr1 (m : MacroDef) (hr : RuleOK m) (hf : DetectorComplete m) :
    (mkDetector m).tables.conflicts ≠ [] ↔ ¬ DetectorLR1 m :=
  not_congr (C12_accepted_iff_lr1 m hr hf)

/-! ### concrete instances -/

namespace C12ConverseExample

/-- `<ID> := <V> ;` is LR(1) in Knuth's sense (prefix mode): a fact about all rightmost
    derivations of its detector grammar, obtained from the evaluated tables -/
theorem assignMacro_lr1 : DetectorLR1 assignMacro :=
  C12_accepted_lr1 assignMacro (by decide +kernel) (by decide +kernel) (by decide +kernel)

/-- and `LOOP <P>` is not (from `C12Converse`) -/
example : DetectorLR1 assignMacro ∧ ¬ DetectorLR1 loopMacro := ⟨assignMacro_lr1, loopMacro_not_lr1⟩

end C12ConverseExample

end Theo
