/-
  C01 — compiled programs compute the LOOP/WHILE/GOTO reference semantics.

  The theorems are stated for every program `p` that passes the two proved-sound validators
  `shapeCheck src p` (Spec/Shape.lean: the code has the shape of the compilation scheme for the
  typed source `src`, for some register assignment and site placement) and `wfCheck p`
  (Spec/WellFormed.lean).  The correspondence check runs both validators on every program the
  real compiler emits (and on the model's), so each of those programs is covered: translation
  validation with verified validators.  Values are compared with the *saturating* reference
  semantics (Spec/Semantics.lean); for executions whose values stay below 2^31-1 (the property's
  restriction) that is the natural-number semantics (`Sem.addSat_exact`).
-/
import Theo.Proofs.Simulation

namespace Theo
open Sem

/-- `m` instructions from the freshly constructed machine -/
def vmRun (p : Program) : Nat → Except Fault VM
  | 0 => .ok (VM.mk' p)
  | m + 1 => (vmRun p m).bind (fun vm => (step vm).map (·.1))

def isCounterName (n : Bytes) : Bool := bLoopVar.isPrefixOf n

/-- the variable views agree: the same activations are live (same routines, same order), and in
    each of them every user-named variable of the routine holds the value the reference
    semantics gives it (hidden loop counters are not user variables) -/
def FrameAgrees (p : Program) (vm : VM) (fr : Frame) (a : Act) : Prop :=
  a.dbg = (fr.routine : Int) ∧
  ∀ sm, p.stackMaps[fr.routine]? = some sm → ∀ e ∈ sm.map, isCounterName e.2 = false →
    0 ≤ e.1 ∧ vm.data[a.dataStart + e.1.toNat]? = some ((fr.env.get e.2 : Nat) : Int)

def StacksAgree (p : Program) (vm : VM) : List Frame → List Act → Prop
  | [], [] => True
  | fr :: frs, a :: as => FrameAgrees p vm fr a ∧ StacksAgree p vm frs as
  | _, _ => False

def ViewsAgree (p : Program) (c : Config) (vm : VM) : Prop := StacksAgree p vm c.stack vm.stack

/-- `vmRun` is the iteration used in the simulation proof -/
theorem vmRun_eq_runFrom (p : Program) (m : Nat) : vmRun p m = Sim.runFrom (VM.mk' p) m := by
  induction m with
  | zero => rfl
  | succ m ih => show (vmRun p m).bind _ = (Sim.runFrom (VM.mk' p) m).bind _; rw [ih]

/-- the agreement established by the simulation is `StacksAgree` -/
theorem stacksAgree_of (p : Program) (vm : VM) : ∀ (frs : List Frame) (as : List Act),
    Sim.StacksAgree' p vm.data frs as → StacksAgree p vm frs as
  | [], [], _ => trivial
  | _ :: frs, _ :: as, h => ⟨h.1, stacksAgree_of p vm frs as h.2⟩
  | [], _ :: _, h => h
  | _ :: _, [], h => h

/-- the reference execution of a validated program never gets stuck (every callee and every
    jump target exists) -/
theorem C01_never_stuck (src : Source) (p : Program) (hs : shapeCheck src p = true) (n : Nat) :
    (Sem.run src n (initial src) 0).1.status ≠ .stuck := by
  obtain ⟨V, hV⟩ := Sim.valid_of_shapeCheck hs
  rw [Sim.run_fst]
  exact (Sim.pinv_iter hV n).1

/-- if the reference execution halts (end of the program, or STOP anywhere), the bytecode run
    reaches HALT with the same live activations and the same value of every user variable -/
theorem C01_halts_same_values (src : Source) (p : Program)
    (hs : shapeCheck src p = true) (hw : wfCheck p = true)
    (n : Nat) (hh : (Sem.run src n (initial src) 0).1.status = .halted) :
    ∃ m vm, vmRun p m = .ok vm ∧ vm.isDone = .ok true ∧
      ViewsAgree p (Sem.run src n (initial src) 0).1 vm := by
  obtain ⟨V, hV⟩ := Sim.valid_of_shapeCheck hs
  obtain ⟨R, hc⟩ := WF.certOK_of_check hw
  rw [Sim.run_fst] at hh ⊢
  obtain ⟨m, vm, h1, h2, h3⟩ := Sim.halts_sim hc hV hh
  exact ⟨m, vm, (vmRun_eq_runFrom p m).trans h1, h2, stacksAgree_of p vm _ _ h3⟩

/-- if the reference execution runs forever, so does the bytecode -/
theorem C01_diverges (src : Source) (p : Program)
    (hs : shapeCheck src p = true) (hw : wfCheck p = true)
    (hd : ∀ n, (Sem.run src n (initial src) 0).1.status = .running) :
    ∀ m vm, vmRun p m = .ok vm → vm.isDone = .ok false := by
  obtain ⟨V, hV⟩ := Sim.valid_of_shapeCheck hs
  obtain ⟨R, hc⟩ := WF.certOK_of_check hw
  intro m vm hvm
  obtain ⟨vt, h1, h2⟩ := Sim.diverges_sim hc hV
    (fun n => by rw [← Sim.run_fst src n (initial src) 0]; exact hd n) m
  rw [vmRun_eq_runFrom, h1] at hvm
  cases hvm
  exact h2

/-- the bytecode needs at least as many instructions as the reference needs steps of kind
    "execute a statement": a source that has not finished within a budget has not finished on the
    VM within that budget either (lower bound of the proportional budget) -/
def C01_budget_statement : Prop :=
  ∀ (src : Source) (p : Program), shapeCheck src p = true → wfCheck p = true →
    ∀ m vm, vmRun p m = .ok vm → vm.isDone = .ok true →
      ∃ n, n ≤ 4 * m + 4 ∧ (Sem.run src n (initial src) 0).1.status = .halted

end Theo
