/-
  C05 — debugging is transparent.
-/
import Theo.Proofs.VMInvB

namespace Theo

/-- after any history of debugger calls the computation state (ip, data, activations) is a
    point of the uninterrupted run of the loaded program -/
theorem C05_on_path (p : Program) (hs : SitesOK p) (vm : VM) (hr : Reach p vm) :
    OnPath p vm.core :=
  InvB.reach_onPath hs hr

/-- the live code differs from the loaded program only by `POTENTIAL_BREAK ↦ BREAK` -/
theorem C05_code_only_breaks (p : Program) (hs : SitesOK p) (vm : VM) (hr : Reach p vm) :
    vm.code.length = p.code.length ∧
    ∀ i : Nat, vm.code[i]? ≠ p.code[i]? →
      p.code[i]? = some Instr.potBreak ∧ vm.code[i]? = some Instr.brk :=
  InvB.code_only_breaks (InvB.CodeInv.reach hs hr)

/-- a debugged run that reaches the end ends in the same state as the uninterrupted run -/
theorem C05_same_end (p : Program) (hs : SitesOK p) (vm : VM) (hr : Reach p vm)
    (hd : vm.isDone = .ok true) (m : Nat) (c : Core)
    (hc : coreIter p m coreInit = .ok c) (hh : fetch p.code c.ip = .ok Instr.halt) :
    vm.core = c :=
  InvB.same_end hs hr hd hc hh

end Theo
