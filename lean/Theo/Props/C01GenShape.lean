/-
  C01 for the generator model — the code `gen` emits for an accepted source has the shape of the
  compilation scheme for that source: `shapeCheck (toSource root) (gen ⟨true, [], root⟩).code`.

  Until now C01 was established per program: the validator `shapeCheck` (proved sound in
  Props/C01.lean) is run on every compiled program (translation validation).  Here the validator's
  verdict is PROVED for the generator model, once and for all trees of the parser's shape that
  obey the static rules — the traversal of `shapeCheck` is mirrored by an induction over the
  generator's dispatch functions (Proofs/GenShape*.lean: values and argument lists with their
  temporaries, statements with labels and backpatched jumps, PROGRAM definitions, the root frame).

  Side condition `NamesOK` (decidable, on the tree).  It has three parts; each is needed — a
  concrete accepted tree violating only that part is rejected by `shapeCheck` (witnesses below) —
  and each holds for every tree the parser builds from an error-free parse of a source a user
  can write, except the third, where the language documentation leaves the treatment open:

  1. USER VARIABLES (`varOK`): every token used as a variable — target of an assignment, NAME
     operand of a value or argument, count of LOOP, condition of WHILE, operand of IF, parameter
     and OUT of a PROGRAM header — neither starts with "Loop Variable " nor is "Temporary Variable".
       * prefix "Loop Variable ": `RInfo.regOf` refuses such names as user variables (they are the
         names of the hidden loop counters), so the validator cannot even look the register up;
         necessary at every one of these positions (witnesses `ctrVar`, `ctrParam`).
       * "Temporary Variable" is the name the generator gives its temporaries, and
         `fetchVariableRegister` looks registers up by name among ALL registers: a user variable of
         that name used after a temporary exists is ALIASED to the temporary (witness `tmpVar`;
         the generator's code is then wrong, not just unvalidated: the "variable" is clobbered by
         the next value computed into that temporary).  The condition is stated for every variable
         position; it is needed where a temporary may already exist.
     Identifier tokens are `[a-zA-Z_][a-zA-Z0-9_]*` (C14) or macro temporaries `#n:file:line_(Mk)`;
     both satisfy `varOK` (`varOK_of_identShape`, `varOK_of_hash`): neither contains the blank of
     the two reserved spellings at the position where it matters.
  2. PRESENT OPERANDS: the nodes the compilation scheme reads a value from are present — the
     right side of an assignment, the variable of LOOP / WHILE, both operands of IF.  `AstShape`
     (deliberately liberal) admits an absent child there; the generator then emits nothing while
     `toSource` reads the constant 0 / the empty name (witnesses `absentValue`, `absentCount`).  An
     error-free parse always builds these nodes (`matchmk` / `pVALUE` return `nil` only with an
     error recorded).
  3. JUMP TARGETS ARE UNIQUE (`labelsOK`): a label that some GOTO / IF … THEN GOTO of a routine
     body jumps to is defined at most once in that body.  Duplicate labels are legal for the
     compiler; the reference semantics (`findLabel`) takes the FIRST definition, the generator's
     label table keeps the LAST (`setLabel` overwrites) — so with a repeated target the emitted
     code does in general NOT compute the reference semantics, and `resolveOK` rejects it
     (witness `dupLabel`).  Labels that are never jumped to (in particular the END keywords of
     loops and programs, which the parser also turns into marks) may repeat freely.
  No condition on program names, on label spellings, on file names, on the hidden counters of
  different routines: the proofs need none.

  Parts 1 and 2 are PROVED for the parser (`C01_parser_names`, Proofs/GenShapeParse.lean): for an
  error-free parse of a token stream whose ID tokens are identifier-shaped or macro temporaries,
  `NamesOK` is exactly part 3 (`LabelsOK`).  `C01_gen_shape_parsed` is the property in that form.

  The statement was not found false for any other reason: for every tree of `AstShape` that obeys
  `staticOK` and `NamesOK`, the generated code validates.
-/
import Theo.Proofs.GenShapeGen
import Theo.Proofs.GenShapeParse
import Theo.Props.C01
import Theo.Props.C04Static
import Theo.Spec.Identifier

namespace Theo
open Sem GenShape

/-- side condition on the identifier tokens of a tree (see the header): user variables are not
    spelt like hidden counters or temporaries, value operands are present, and jump targets are
    defined at most once per routine body -/
def NamesOK (root : Node) : Bool := astNames root

/-! ### the definition, unfolded (the components live in Proofs/GenShape*.lean) -/

theorem NamesOK_varOK (x : Bytes) : varOK x = (!bLoopVar.isPrefixOf x && x != bTempName) := rfl

/-- values and argument lists: every NAME operand is a user variable -/
theorem NamesOK_value (t : Nat) (tok file : Bytes) (line : Int) (l r : Node) :
    valNames (.mk t tok file line l r) =
      if t = NodeT.SPLIT then valNames l && valNames r
      else if t = NodeT.NAME then varOK tok
      else if t = NodeT.CALL then valNames r
      else true := valNames_mk t tok file line l r

/-- statements -/
theorem NamesOK_stmt (t : Nat) (tok file : Bytes) (line : Int) (l r : Node) :
    stmtNames (.mk t tok file line l r) =
      if t = NodeT.SPLIT then stmtNames l && stmtNames r
      else if t = NodeT.ASSIGN then varOK l.tok && !isNil r && valNames r
      else if t = NodeT.LOOP ∨ t = NodeT.WHILE then !isNil l && varOK l.tok && stmtNames r
      else if t = NodeT.IF then !isNil l.left && !isNil l.right && varOK l.left.tok
      else true := stmtNames_mk t tok file line l r

/-- jump targets of a routine body are defined at most once in it -/
theorem NamesOK_labels (b : Node) :
    labelsOK b = (Static.refsOf b).all (fun m => decide ((Static.defsOf b).count m ≤ 1)) := rfl

/-- header of a definition: parameters and OUT are user variables -/
theorem NamesOK_header (hdr : Node) :
    progNames hdr = ((namesOf hdr.right.left).all varOK && varOK (Static.outNameOf hdr.right.right)) := rfl

/-- the whole tree: every definition `SPLIT (PROGRAM hdr body) rest`, then the main statements -/
theorem NamesOK_tree (t : Nat) (tok file : Bytes) (line : Int) (l r : Node) :
    NamesOK (.mk t tok file line l r) =
      if t = NodeT.SPLIT ∧ l.ty = NodeT.PROGRAM then
        progNames l.left && stmtNames l.right && labelsOK l.right && NamesOK r
      else stmtNames (.mk t tok file line l r) && labelsOK (.mk t tok file line l r) := by
  unfold NamesOK; rw [astNames]

/-! ### the property -/

/-- the code the generator model emits for an accepted source has the shape of the compilation
    scheme for that source -/
theorem C01_gen_shape (root : Node) (h : AstShape root = true)
    (hs : staticOK (toSource root) = true) (hn : NamesOK root = true) :
    shapeCheck (toSource root) (gen ⟨true, [], root⟩).code = true :=
  gen_shape root h hs hn

/-- … in terms of the generator's own verdict (C04): an accepted tree -/
theorem C01_gen_shape_of_ok (root : Node) (h : AstShape root = true)
    (hok : (gen ⟨true, [], root⟩).ok = true) (hn : NamesOK root = true) :
    shapeCheck (toSource root) (gen ⟨true, [], root⟩).code = true :=
  C01_gen_shape root h ((C04_static_ok_iff root h).1 hok) hn

/-- combined with C01: the model's code for an accepted source computes the reference semantics
    (`wfCheck`, the bytecode verifier, is the subject of Proofs/GenWF*.lean) -/
theorem C01_gen_halts_same_values (root : Node) (h : AstShape root = true)
    (hs : staticOK (toSource root) = true) (hn : NamesOK root = true)
    (hw : wfCheck (gen ⟨true, [], root⟩).code = true)
    (n : Nat) (hh : (Sem.run (toSource root) n (initial (toSource root)) 0).1.status = .halted) :
    ∃ m vm, vmRun (gen ⟨true, [], root⟩).code m = .ok vm ∧ vm.isDone = .ok true ∧
      ViewsAgree (gen ⟨true, [], root⟩).code (Sem.run (toSource root) n (initial (toSource root)) 0).1 vm :=
  C01_halts_same_values _ _ (C01_gen_shape root h hs hn) hw n hh

theorem C01_gen_diverges (root : Node) (h : AstShape root = true)
    (hs : staticOK (toSource root) = true) (hn : NamesOK root = true)
    (hw : wfCheck (gen ⟨true, [], root⟩).code = true)
    (hd : ∀ n, (Sem.run (toSource root) n (initial (toSource root)) 0).1.status = .running) :
    ∀ m vm, vmRun (gen ⟨true, [], root⟩).code m = .ok vm → vm.isDone = .ok false :=
  C01_diverges _ _ (C01_gen_shape root h hs hn) hw hd

/-- the reference execution of an accepted source never gets stuck -/
theorem C01_gen_never_stuck (root : Node) (h : AstShape root = true)
    (hs : staticOK (toSource root) = true) (hn : NamesOK root = true) (n : Nat) :
    (Sem.run (toSource root) n (initial (toSource root)) 0).1.status ≠ .stuck :=
  C01_never_stuck _ _ (C01_gen_shape root h hs hn) n

/-! ### identifiers a user can write satisfy part 1 -/

theorem varOK_of_no_blank (x : Bytes) (h : (32 : UInt8) ∉ x) : varOK x = true := by
  unfold varOK
  rw [Bool.and_eq_true]
  constructor
  · cases hp : bLoopVar.isPrefixOf x with
    | false => rfl
    | true =>
      exfalso
      obtain ⟨t, rfl⟩ := List.isPrefixOf_iff_prefix.1 hp
      exact h (List.mem_append_left _ (by decide))
  · simp only [bne_iff_ne, ne_eq]
    intro he
    exact h (he ▸ by decide)

/-- identifiers `[a-zA-Z_][a-zA-Z0-9_]*` -/
theorem varOK_of_identShape (x : Bytes) (h : identShape x = true) : varOK x = true := by
  apply varOK_of_no_blank
  intro hin
  cases x with
  | nil => cases hin
  | cons c cs =>
    simp only [identShape, Bool.and_eq_true, List.all_eq_true] at h
    rcases List.mem_cons.1 hin with h1 | h1
    · rw [← h1] at h; exact absurd h.1 (by decide)
    · exact absurd (h.2 _ h1) (by decide)

/-- macro temporaries `#n:file:line_(Mk)` -/
theorem varOK_of_hash (x : Bytes) (h : x.head? = some 35) : varOK x = true := by
  unfold varOK
  cases x with
  | nil => cases h
  | cons c cs =>
    have hc : c = 35 := by simpa using h
    subst hc
    simp [bLoopVar, bTempName, List.isPrefixOf]

/-! ### … and the parser's trees satisfy parts 1 and 2: for parsed sources only part 3 remains -/

/-- part 3 alone: in every routine body, the jump targets are defined at most once -/
def LabelsOK (root : Node) : Bool := astLabels root

theorem LabelsOK_tree (t : Nat) (tok file : Bytes) (line : Int) (l r : Node) :
    LabelsOK (.mk t tok file line l r) =
      if t = NodeT.SPLIT ∧ l.ty = NodeT.PROGRAM then labelsOK l.right && LabelsOK r
      else labelsOK (.mk t tok file line l r) := by
  unfold LabelsOK; rw [astLabels]

/-- for an error-free parse of a token stream whose ID tokens are user variables, `NamesOK` IS the
    uniqueness of jump targets -/
theorem C01_parser_names (ts : List Token) (he : (parseTokens ts).2 = [])
    (hid : ∀ t ∈ ts, t.kind = Tok.ID → varOK t.text = true) :
    NamesOK (parseTokens ts).1 = LabelsOK (parseTokens ts).1 := by
  unfold NamesOK LabelsOK
  rw [astNames_eq, parser_idents ts he hid]; rfl

/-- the property for parsed sources: error-free parse, identifiers as a user can write them
    (identifier-shaped, or macro temporaries starting with `#`), the static rules, and no
    repeated jump target -/
theorem C01_gen_shape_parsed (ts : List Token) (he : (parseTokens ts).2 = [])
    (hid : ∀ t ∈ ts, t.kind = Tok.ID → identShape t.text = true ∨ t.text.head? = some 35)
    (hs : staticOK (toSource (parseTokens ts).1) = true) (hl : LabelsOK (parseTokens ts).1 = true) :
    shapeCheck (toSource (parseTokens ts).1) (gen ⟨true, [], (parseTokens ts).1⟩).code = true := by
  refine C01_gen_shape _ (Static.parser_shape ts he) hs ?_
  rw [C01_parser_names ts he]
  · exact hl
  · intro t ht hk
    rcases hid t ht hk with h | h
    · exact varOK_of_identShape _ h
    · exact varOK_of_hash _ h

/-! ### non-vacuity -/

namespace C01GenDemo
def tk (k : Nat) (s : Bytes) : Token := ⟨k, s, [109], 1⟩

/-- `PROGRAM f IN a , b OUT c DO c := a ; LOOP b DO c := RUN __INC__ WITH c , 1 END END END
     x := RUN f WITH 3 , RUN f WITH 1 , 2 END END ; l : x := RUN __DEC__ WITH x , 1 END ;
     IF x = 0 THEN GOTO e ; GOTO l ; e : STOP`
    — a definition, a nested call, a loop, labels, a GOTO and a conditional GOTO -/
def demo : List Token :=
  [tk Tok.PROGRAM [80, 82, 79, 71, 82, 65, 77], tk Tok.ID [102], tk Tok.IN [73, 78], tk Tok.ID [97], tk Tok.ARGSEP [44],
   tk Tok.ID [98], tk Tok.OUT [79, 85, 84], tk Tok.ID [99], tk Tok.DO [68, 79], tk Tok.ID [99], tk Tok.ASSIGN [58, 61],
   tk Tok.ID [97], tk Tok.PROGSEP [59], tk Tok.LOOP [76, 79, 79, 80], tk Tok.ID [98], tk Tok.DO [68, 79], tk Tok.ID [99],
   tk Tok.ASSIGN [58, 61], tk Tok.RUN [82, 85, 78], tk Tok.ID [95, 95, 73, 78, 67, 95, 95], tk Tok.WITH [87, 73, 84, 72],
   tk Tok.ID [99], tk Tok.ARGSEP [44], tk Tok.INT [49], tk Tok.END [69, 78, 68], tk Tok.END [69, 78, 68],
   tk Tok.END [69, 78, 68], tk Tok.ID [120], tk Tok.ASSIGN [58, 61], tk Tok.RUN [82, 85, 78], tk Tok.ID [102],
   tk Tok.WITH [87, 73, 84, 72], tk Tok.INT [51], tk Tok.ARGSEP [44], tk Tok.RUN [82, 85, 78], tk Tok.ID [102],
   tk Tok.WITH [87, 73, 84, 72], tk Tok.INT [49], tk Tok.ARGSEP [44], tk Tok.INT [50], tk Tok.END [69, 78, 68],
   tk Tok.END [69, 78, 68], tk Tok.PROGSEP [59], tk Tok.ID [108], tk Tok.LABELDEC [58], tk Tok.ID [120],
   tk Tok.ASSIGN [58, 61], tk Tok.RUN [82, 85, 78], tk Tok.ID [95, 95, 68, 69, 67, 95, 95], tk Tok.WITH [87, 73, 84, 72],
   tk Tok.ID [120], tk Tok.ARGSEP [44], tk Tok.INT [49], tk Tok.END [69, 78, 68], tk Tok.PROGSEP [59], tk Tok.IF [73, 70],
   tk Tok.ID [120], tk Tok.EQ [61], tk Tok.INT [48], tk Tok.THEN [84, 72, 69, 78], tk Tok.GOTO [71, 79, 84, 79],
   tk Tok.ID [101], tk Tok.PROGSEP [59], tk Tok.GOTO [71, 79, 84, 79], tk Tok.ID [108], tk Tok.PROGSEP [59],
   tk Tok.ID [101], tk Tok.LABELDEC [58], tk Tok.STOP [83, 84, 79, 80], tk Tok.T_EOF [69, 79, 70]]

/-- all hypotheses hold for the parser's tree (kernel-checked) … -/
theorem demo_hyps : (parseTokens demo).2 = [] ∧ AstShape (parseTokens demo).1 = true ∧
    staticOK (toSource (parseTokens demo).1) = true ∧ NamesOK (parseTokens demo).1 = true := by
  refine ⟨by decide, by decide, ?_, by decide⟩
  rw [← Static.topOK_static _ (by decide)]
  decide

/-- … hence its code validates, without running the validator -/
theorem demo_validates :
    shapeCheck (toSource (parseTokens demo).1) (gen ⟨true, [], (parseTokens demo).1⟩).code = true :=
  C01_gen_shape _ demo_hyps.2.1 demo_hyps.2.2.1 demo_hyps.2.2.2

/-- (and running it agrees) -/
example : shapeCheck (toSource (parseTokens demo).1) (gen ⟨true, [], (parseTokens demo).1⟩).code = true := by
  exact demo_validates

/-! ### each part of `NamesOK` is needed: accepted trees (parser shape, static rules) that violate
    one part only and whose code the validator rejects.  The acceptance is kernel-checked; the
    validator's verdict is evaluated (`toSource` is defined by well-founded recursion and does not
    reduce in the kernel — `#guard` fails the build if the evaluation changes). -/

/-- part 1, hidden-counter prefix: `Loop Variable  := 4` (the variable is named "Loop Variable ") -/
def ctrVar : List Token :=
  [tk Tok.ID [76, 111, 111, 112, 32, 86, 97, 114, 105, 97, 98, 108, 101, 32], tk Tok.ASSIGN [58, 61], tk Tok.INT [52],
   tk Tok.T_EOF [69, 79, 70]]

/-- part 1, a parameter with the hidden-counter prefix: `PROGRAM f IN Loop Variable x DO x0 := 1 END y := 2` -/
def ctrParam : List Token :=
  [tk Tok.PROGRAM [80, 82, 79, 71, 82, 65, 77], tk Tok.ID [102], tk Tok.IN [73, 78],
   tk Tok.ID [76, 111, 111, 112, 32, 86, 97, 114, 105, 97, 98, 108, 101, 32, 120], tk Tok.DO [68, 79], tk Tok.ID [120, 48],
   tk Tok.ASSIGN [58, 61], tk Tok.INT [49], tk Tok.END [69, 78, 68], tk Tok.ID [121], tk Tok.ASSIGN [58, 61], tk Tok.INT [50],
   tk Tok.T_EOF [69, 79, 70]]

/-- part 1, the name of the temporaries: `x := RUN __INC__ WITH y , 1 END ; Temporary Variable := 4` -/
def tmpVar : List Token :=
  [tk Tok.ID [120], tk Tok.ASSIGN [58, 61], tk Tok.RUN [82, 85, 78], tk Tok.ID [95, 95, 73, 78, 67, 95, 95],
   tk Tok.WITH [87, 73, 84, 72], tk Tok.ID [121], tk Tok.ARGSEP [44], tk Tok.INT [49], tk Tok.END [69, 78, 68],
   tk Tok.PROGSEP [59], tk Tok.ID [84, 101, 109, 112, 111, 114, 97, 114, 121, 32, 86, 97, 114, 105, 97, 98, 108, 101],
   tk Tok.ASSIGN [58, 61], tk Tok.INT [52], tk Tok.T_EOF [69, 79, 70]]

/-- part 3, a repeated jump target: `l : x := 4 ; l : GOTO l` -/
def dupLabel : List Token :=
  [tk Tok.ID [108], tk Tok.LABELDEC [58], tk Tok.ID [120], tk Tok.ASSIGN [58, 61], tk Tok.INT [52], tk Tok.PROGSEP [59],
   tk Tok.ID [108], tk Tok.LABELDEC [58], tk Tok.GOTO [71, 79, 84, 79], tk Tok.ID [108], tk Tok.T_EOF [69, 79, 70]]

/-- part 2, an absent value (not a parser tree): the assignment `x := <nothing>` -/
def absentValue : Node :=
  .mk NodeT.ASSIGN [] [109] 1 (.mk NodeT.NAME [120] [109] 1 .nil .nil) .nil

/-- part 2, an absent loop count: `LOOP <nothing> DO x := 1 END` -/
def absentCount : Node :=
  .mk NodeT.LOOP [] [109] 1 .nil
    (.mk NodeT.ASSIGN [] [109] 1 (.mk NodeT.NAME [120] [109] 1 .nil .nil) (.mk NodeT.NUMBER [49] [109] 1 .nil .nil))

def accepted (root : Node) : Prop := AstShape root = true ∧ staticOK (toSource root) = true
def rejected (root : Node) : Bool := !shapeCheck (toSource root) (gen ⟨true, [], root⟩).code

theorem accepted_of_topOK (root : Node) (h : AstShape root = true) (ht : Static.topOK (fun _ => none) root = true) :
    accepted root := ⟨h, by rw [← Static.topOK_static _ h]; exact ht⟩

example : (parseTokens ctrVar).2 = [] ∧ accepted (parseTokens ctrVar).1 ∧ NamesOK (parseTokens ctrVar).1 = false :=
  ⟨by decide, accepted_of_topOK _ (by decide) (by decide), by decide⟩
#guard rejected (parseTokens ctrVar).1

example : (parseTokens ctrParam).2 = [] ∧ accepted (parseTokens ctrParam).1 ∧ NamesOK (parseTokens ctrParam).1 = false :=
  ⟨by decide, accepted_of_topOK _ (by decide) (by decide), by decide⟩
#guard rejected (parseTokens ctrParam).1

example : (parseTokens tmpVar).2 = [] ∧ accepted (parseTokens tmpVar).1 ∧ NamesOK (parseTokens tmpVar).1 = false :=
  ⟨by decide, accepted_of_topOK _ (by decide) (by decide), by decide⟩
#guard rejected (parseTokens tmpVar).1

example : (parseTokens dupLabel).2 = [] ∧ accepted (parseTokens dupLabel).1 ∧ NamesOK (parseTokens dupLabel).1 = false :=
  ⟨by decide, accepted_of_topOK _ (by decide) (by decide), by decide⟩
#guard rejected (parseTokens dupLabel).1

example : accepted absentValue ∧ NamesOK absentValue = false :=
  ⟨accepted_of_topOK _ (by decide) (by decide), by decide⟩
#guard rejected absentValue

example : accepted absentCount ∧ NamesOK absentCount = false :=
  ⟨accepted_of_topOK _ (by decide) (by decide), by decide⟩
#guard rejected absentCount

/-- the generator accepts them all (no error recorded): the rejection is the validator's -/
example : (gen ⟨true, [], (parseTokens dupLabel).1⟩).ok = true :=
  (C04_static_ok_iff _ (by decide)).2 (accepted_of_topOK _ (by decide) (by decide)).2

end C01GenDemo

end Theo
