/-
  C12 — ambiguous macro patterns are rejected, deterministic ones are accepted.
  By-construction part: a pattern whose detector tables have a conflict is reported as non-linear
  at the position of its first pattern token and is never applied; a pattern without conflict is
  accepted silently; a rejected macro never prevents the others from being applied.
  (The semantic characterisation "conflict ⇔ not prefix-deterministic" needs LR completeness and
   is decided, for now, by the independent LR(1) oracle of the correspondence check.)
-/
import Theo.Proofs.ApplyProofs

namespace Theo

def isNonLR (e : PErr) : Prop := e.kind = PErrT.MACRO_COMPILE_NON_LR

/-- a macro whose detector has a conflict is reported at the position of its first pattern token -/
theorem C12_rejected_reported (inp : List Token) (defs : List MacroDef) (passes : Nat) (m : MacroDef)
    (hm : m ∈ defs) (hc : (mkDetector m).tables.conflicts ≠ []) :
    ∃ e ∈ (applyMacros inp defs passes).errs, isNonLR e ∧
      e.file = (m.rule.head?.getD default).file ∧ e.line = (m.rule.head?.getD default).line := by
  obtain ⟨tl, htl, _⟩ := applyMacros_errs inp defs passes
  have hu : (mkDetector m).usable = false := by
    cases hcs : (mkDetector m).tables.conflicts with
    | nil => exact absurd hcs hc
    | cons x xs => simp [Detector.usable, hcs]
  refine ⟨_, by rw [htl]; exact List.mem_append_left _ (mem_nonLRErrs defs m hm hu), ?_, rfl, rfl⟩
  exact (rfl : _ = PErrT.MACRO_COMPILE_NON_LR)

/-- exactly the conflicting definitions are reported: one non-linear error per such definition,
    in definition order, and none for a conflict-free one -/
theorem C12_accepted_silent (inp : List Token) (defs : List MacroDef) (passes : Nat) :
    ((applyMacros inp defs passes).errs.filter (fun e => decide (e.kind = PErrT.MACRO_COMPILE_NON_LR))).map
        (fun e => (e.file, e.line)) =
      ((defs.filter (fun m => !(mkDetector m).usable)).map
        (fun m => ((m.rule.head?.getD default).file, (m.rule.head?.getD default).line))) := by
  obtain ⟨tl, htl, hk⟩ := applyMacros_errs inp defs passes
  have htl0 : tl.filter (fun e => decide (e.kind = PErrT.MACRO_COMPILE_NON_LR)) = [] := by
    rw [List.filter_eq_nil_iff]
    intro e he
    rw [hk e he]
    decide
  rw [htl, List.filter_append, htl0, List.append_nil]
  exact nonLRErrs_filter defs

/-- a rejected macro is never applied: every rewriting step uses a conflict-free detector of a
    supplied definition -/
theorem C12_never_applied (defs : List MacroDef) (inp : List Token) (p : Nat)
    (d : Detector) (r : Response) (out : List Token)
    (h : applyStep (bins ((defs.map mkDetector).filter (·.usable))) inp p = some (d, r, out)) :
    d.tables.conflicts = [] ∧ d.md ∈ defs := by
  exact step_usable defs inp p d r out h

/-- a rejected macro never prevents the others from being applied: the result (stream, number of
    rewrites) is the one obtained from the accepted definitions alone -/
theorem C12_independent (inp : List Token) (defs : List MacroDef) (passes : Nat) :
    (applyMacros inp defs passes).toks =
      (applyMacros inp (defs.filter (fun m => (mkDetector m).usable)) passes).toks ∧
    (applyMacros inp defs passes).rewrites =
      (applyMacros inp (defs.filter (fun m => (mkDetector m).usable)) passes).rewrites := by
  exact applyMacros_independent inp defs passes

/-- the detector is built in prefix mode over the grammar generated from macro.cpp, with the
    pattern as the rule of `MACRO` -/
theorem C12_detector_is_prefix_lr (m : MacroDef) :
    (mkDetector m).tables = (genTables (detectorGrammar m) DetGen.macroNT Tok.T_EOF true detectorStateFuel).1 := by
  rfl

end Theo
