/-
  C01, end to end — every accepted compilation computes the reference semantics of its source.

  No validator verdict is assumed any more.  For every set of files and every main file that
  `compile` accepts, the bytecode it returns simulates the reference execution of the source the
  parser read (`toSource` of the tree handed to the generator):
   * the reference execution never gets stuck;
   * if it halts, the bytecode reaches HALT with the same live activations and the same values;
   * if it runs forever, so does the bytecode.

  Ingredients: C04 (an accepted compilation has no front-end error, a tree of the parser's shape
  and obeys the static rules), C01_gen_shape (the generator's code has the shape of the
  compilation scheme), C03_compile_wf (it passes the bytecode verifier), C01 (simulation), and
  the link proved here — EVERY `ID` TOKEN THAT REACHES THE PARSER IS IDENTIFIER-SHAPED OR STARTS
  WITH `#` (`C01_front_end_identifiers`), so that the user variables of the tree are never spelt
  like the generator's hidden names ("Loop Variable …", "Temporary Variable"):
   * a token the scanner labels `ID` is a lexeme of a rule with action `ID`, and these match
     identifier-shaped words only (C14); a token it labels `TEMP_VAL` is a lexeme `#n`;
   * the include splice and the final EOF token do not touch texts;
   * macro extraction copies tokens (to the remaining stream, the rules, the bodies); the `$n`
     range check re-kinds an out-of-range `$n` to `ID "error"`;
   * macro application copies body tokens and slot fillers (cut out of the stream by the
     detector) and renames a temporary `#n` to the `ID` token `#n:<file>:<line>_(M<pass>)`
     (`tempName`, which starts with the temporary's own text).
  These are the only places where the front end creates or re-kinds a token as `ID`.  The
  invariant holds for EVERY file set: a user-supplied standard-macro file, NUL bytes cutting a
  buffer, odd file names, exhausted pass budget make no difference (file names and positions
  enter the text of a token only behind the leading `#n` of a renamed temporary).

  Remaining hypothesis `LabelsOK` (decidable, on the tree): in every routine body a label that is
  the target of a jump is defined at most once.  It is needed — the documentation leaves
  duplicate labels open, the reference semantics takes the first definition and the generator
  the last.  Witness `C01CompileDemo.dupText` below, `GOTO l; l: x := 1; STOP; l: x := 2`: accepted
  by `compile`, the reference execution halts with x = 1, the bytecode halts with x = 2.
-/
import Theo.Proofs.CompileCorrectMacro
import Theo.Proofs.CompileCorrectLoop
import Theo.Props.C01GenShape
import Theo.Props.C03GenWF
import Theo.Props.C16Loop

namespace Theo
open Sem CompileCorrect

/-! ### the identifier link -/

theorem frontEnd_toks (files : Files) (main : Bytes) :
    (frontEnd files main).1 =
      (applyMacros (extractMacros (scan (Loc.scanFiles files main) main).toks).toks
        (extractMacros (scan (Loc.scanFiles files main) main).toks).macros ConstGen.macroPasses).toks := by
  simp only [frontEnd, Loc.scanFiles, Loc.stdFiles]

/-- every `ID` token the front end hands to the parser is identifier-shaped
    (`[a-zA-Z_][a-zA-Z0-9_]*`) or starts with `#` (a renamed macro temporary) -/
theorem C01_front_end_identifiers (files : Files) (main : Bytes) :
    ∀ t ∈ (frontEnd files main).1, t.kind = Tok.ID →
      identShape t.text = true ∨ t.text.head? = some 35 := by
  intro t ht hk
  rw [frontEnd_toks] at ht
  exact (pipeline_tokOK _ main ConstGen.macroPasses t ht).1 hk

/-- … and every temporary still in the stream (a `#n` outside a macro body) starts with `#` -/
theorem C01_front_end_temporaries (files : Files) (main : Bytes) :
    ∀ t ∈ (frontEnd files main).1, t.kind = Tok.TEMP_VAL → t.text.head? = some 35 := by
  intro t ht hk
  rw [frontEnd_toks] at ht
  exact (pipeline_tokOK _ main ConstGen.macroPasses t ht).2 hk

/-- the scanner alone: `ID` tokens are identifier-shaped, `TEMP_VAL` tokens start with `#` -/
theorem C01_scan_identifiers (files : Files) (main : Bytes) :
    ∀ t ∈ (scan files main).toks, (t.kind = Tok.ID → identShape t.text = true ∨ t.text.head? = some 35) ∧
      (t.kind = Tok.TEMP_VAL → t.text.head? = some 35) :=
  scan_tokOK files main

/-- the name given to a renamed temporary starts with the temporary's text -/
theorem C01_tempName_prefix (text file : Bytes) (line : Int) (pass : Nat) :
    text <+: tempName text file line pass :=
  ⟨[58] ++ file ++ [58] ++ intDec line ++ [95, 40, 77] ++ natDigits pass ++ [41], by simp [tempName]⟩

/-! ### what an accepted compilation consists of -/

/-- an accepted compilation: no error of scanner, macro stages or parser; the generator ran on
    the parser's tree; the tree obeys the static rules -/
theorem C01_accepted_parts (files : Files) (main : Bytes) (hok : (compile files main).ok = true) :
    (parseTokens (frontEnd files main).1).2 = [] ∧ (frontEnd files main).2 = [] ∧
    (parseFiles files main).ast.root = (parseTokens (frontEnd files main).1).1 ∧
    (compile files main).code = (gen ⟨true, [], (parseTokens (frontEnd files main).1).1⟩).code ∧
    staticOK (toSource (parseTokens (frontEnd files main).1).1) = true := by
  have hc : (compile files main).code = (gen (parseFiles files main).ast).code := by simp only [compile]
  have ho : (compile files main).ok = (gen (parseFiles files main).ast).ok := by simp only [compile]
  have hroot : (parseFiles files main).ast.root = (parseTokens (frontEnd files main).1).1 := by
    rw [parseFiles_ast]; simp only [astOf]
  rw [hc, hroot]
  rw [ho] at hok
  rw [parseFiles_ast] at hok ⊢
  unfold astOf at hok ⊢
  generalize hts : (frontEnd files main).1 = ts at hok ⊢
  have hnil : (parseTokens ts).2 ++
      (frontEnd files main).2.map (fun e => (⟨.forwarded e.kind, e.file, e.line⟩ : SynErr)) = [] := by
    by_cases he : (parseTokens ts).2 ++
        (frontEnd files main).2.map (fun e => (⟨.forwarded e.kind, e.file, e.line⟩ : SynErr)) = []
    · exact he
    · exfalso
      have hemp : ((parseTokens ts).2 ++
          (frontEnd files main).2.map (fun e => (⟨.forwarded e.kind, e.file, e.line⟩ : SynErr))).isEmpty = false := by
        cases hx : (parseTokens ts).2 ++
            (frontEnd files main).2.map (fun e => (⟨.forwarded e.kind, e.file, e.line⟩ : SynErr)) with
        | nil => exact absurd hx he
        | cons a as => rfl
      rw [hemp, Static.gen_ok_eq, List.isEmpty_iff] at hok
      exact he (Static.gen_rejects_bad _ _ hok)
  rw [hnil] at hok ⊢
  obtain ⟨h1, h2⟩ := List.append_eq_nil_iff.1 hnil
  refine ⟨h1, List.map_eq_nil_iff.1 h2, rfl, rfl, ?_⟩
  exact (C04_static_ok_iff _ (Static.parser_shape ts h1)).1 hok

/-- the code of an accepted compilation has the shape of the compilation scheme for its source:
    the validator's verdict, proved instead of computed -/
theorem C01_compile_shape (files : Files) (main : Bytes)
    (hok : (compile files main).ok = true)
    (hl : LabelsOK (parseFiles files main).ast.root = true) :
    shapeCheck (toSource (parseFiles files main).ast.root) (compile files main).code = true := by
  obtain ⟨he, _, hroot, hcode, hs⟩ := C01_accepted_parts files main hok
  rw [hroot] at hl ⊢
  rw [hcode]
  exact C01_gen_shape_parsed _ he (C01_front_end_identifiers files main) hs hl

/-! ### the capstone -/

/-- every accepted compilation computes the reference semantics of its source -/
theorem C01_compile_correct (files : Files) (main : Bytes)
    (hok : (compile files main).ok = true)
    (hl : LabelsOK (parseFiles files main).ast.root = true) :
    let src := toSource (parseFiles files main).ast.root
    let p := (compile files main).code
    (∀ n, (Sem.run src n (initial src) 0).1.status ≠ .stuck) ∧
    (∀ n, (Sem.run src n (initial src) 0).1.status = .halted →
        ∃ m vm, vmRun p m = .ok vm ∧ vm.isDone = .ok true ∧
          ViewsAgree p (Sem.run src n (initial src) 0).1 vm) ∧
    ((∀ n, (Sem.run src n (initial src) 0).1.status = .running) →
        ∀ m vm, vmRun p m = .ok vm → vm.isDone = .ok false) := by
  intro src p
  have hs : shapeCheck src p = true := C01_compile_shape files main hok hl
  have hw : wfCheck p = true := C03_compile_wf files main hok
  exact ⟨C01_never_stuck src p hs, C01_halts_same_values src p hs hw, C01_diverges src p hs hw⟩

/-- … in one sentence per case -/
theorem C01_compile_never_stuck (files : Files) (main : Bytes)
    (hok : (compile files main).ok = true)
    (hl : LabelsOK (parseFiles files main).ast.root = true) (n : Nat) :
    (Sem.run (toSource (parseFiles files main).ast.root) n
      (initial (toSource (parseFiles files main).ast.root)) 0).1.status ≠ .stuck :=
  (C01_compile_correct files main hok hl).1 n

theorem C01_compile_halts_same_values (files : Files) (main : Bytes)
    (hok : (compile files main).ok = true)
    (hl : LabelsOK (parseFiles files main).ast.root = true) (n : Nat)
    (hh : (Sem.run (toSource (parseFiles files main).ast.root) n
      (initial (toSource (parseFiles files main).ast.root)) 0).1.status = .halted) :
    ∃ m vm, vmRun (compile files main).code m = .ok vm ∧ vm.isDone = .ok true ∧
      ViewsAgree (compile files main).code
        (Sem.run (toSource (parseFiles files main).ast.root) n
          (initial (toSource (parseFiles files main).ast.root)) 0).1 vm :=
  (C01_compile_correct files main hok hl).2.1 n hh

theorem C01_compile_diverges (files : Files) (main : Bytes)
    (hok : (compile files main).ok = true)
    (hl : LabelsOK (parseFiles files main).ast.root = true)
    (hd : ∀ n, (Sem.run (toSource (parseFiles files main).ast.root) n
      (initial (toSource (parseFiles files main).ast.root)) 0).1.status = .running) :
    ∀ m vm, vmRun (compile files main).code m = .ok vm → vm.isDone = .ok false :=
  (C01_compile_correct files main hok hl).2.2 hd

/-! ### LOOP programs -/

/-- a tree whose source has no WHILE, GOTO and IF-GOTO has no jump target at all: `LabelsOK`
    holds for it (for every tree, parsed or not) -/
theorem C01_loopOnly_labels (root : Node) (h : LoopOnly (toSource root)) : LabelsOK root = true :=
  astLabels_of_LoopOnly root h

/-- an accepted compilation of a source without WHILE, GOTO and IF-GOTO halts on the VM
    (no hypothesis besides acceptance) -/
theorem C16_compile_loop_halts (files : Files) (main : Bytes)
    (hok : (compile files main).ok = true)
    (hlo : LoopOnly (toSource (parseFiles files main).ast.root)) :
    ∃ m vm, vmRun (compile files main).code m = .ok vm ∧ vm.isDone = .ok true :=
  C16_loop_halts _ _ hlo (C01_compile_shape files main hok (C01_loopOnly_labels _ hlo))
    (C03_compile_wf files main hok)

/-- … with the final values: the reference execution halts too, and the bytecode stops in a
    state that agrees with it -/
theorem C16_compile_loop_halts_same_values (files : Files) (main : Bytes)
    (hok : (compile files main).ok = true)
    (hlo : LoopOnly (toSource (parseFiles files main).ast.root)) :
    ∃ n m vm,
      (Sem.run (toSource (parseFiles files main).ast.root) n
        (initial (toSource (parseFiles files main).ast.root)) 0).1.status = .halted ∧
      vmRun (compile files main).code m = .ok vm ∧ vm.isDone = .ok true ∧
      ViewsAgree (compile files main).code
        (Sem.run (toSource (parseFiles files main).ast.root) n
          (initial (toSource (parseFiles files main).ast.root)) 0).1 vm := by
  have hl := C01_loopOnly_labels _ hlo
  obtain ⟨n, hn⟩ := C16_loop_source_halts _ hlo
  have hstuck := C01_compile_never_stuck files main hok hl n
  have hh : (Sem.run (toSource (parseFiles files main).ast.root) n
      (initial (toSource (parseFiles files main).ast.root)) 0).1.status = .halted := by
    cases hst : (Sem.run (toSource (parseFiles files main).ast.root) n
        (initial (toSource (parseFiles files main).ast.root)) 0).1.status with
    | running => exact absurd hst hn
    | halted => rfl
    | stuck => exact absurd hst hstuck
  obtain ⟨m, vm, h1, h2, h3⟩ := C01_compile_halts_same_values files main hok hl n hh
  exact ⟨n, m, vm, hh, h1, h2, h3⟩

/-! ### non-vacuity: a complete compilation from source text, through every stage -/

namespace C01CompileDemo

/-- the text of the main file `m` (171 bytes, one line):
```
DEFINE SWAP <ID> <ID> AS #0 := $0; $0 := $1; $1 := #0 END DEFINE PROGRAM f IN a OUT r DO r := a + 1 END x := RUN f WITH 2 END; y := 5; SWAP x y; LOOP x DO y := y + 1 END
```
    a user macro with a temporary, a PROGRAM, a call, a LOOP, and two `v := v + 1` that go through
    the built-in macro of the hidden standard file (`<ID> + <INT>` ↦ `RUN __INC__ WITH $0, $1 END`) -/
def text : Bytes :=
  [68, 69, 70, 73, 78, 69, 32, 83, 87, 65, 80, 32, 60, 73, 68, 62, 32, 60, 73, 68, 62, 32, 65, 83, 32, 35, 48, 32, 58, 61,
   32, 36, 48, 59, 32, 36, 48, 32, 58, 61, 32, 36, 49, 59, 32, 36, 49, 32, 58, 61, 32, 35, 48, 32, 69, 78, 68, 32, 68, 69,
   70, 73, 78, 69, 32, 80, 82, 79, 71, 82, 65, 77, 32, 102, 32, 73, 78, 32, 97, 32, 79, 85, 84, 32, 114, 32, 68, 79, 32,
   114, 32, 58, 61, 32, 97, 32, 43, 32, 49, 32, 69, 78, 68, 32, 120, 32, 58, 61, 32, 82, 85, 78, 32, 102, 32, 87, 73, 84,
   72, 32, 50, 32, 69, 78, 68, 59, 32, 121, 32, 58, 61, 32, 53, 59, 32, 83, 87, 65, 80, 32, 120, 32, 121, 59, 32, 76, 79,
   79, 80, 32, 120, 32, 68, 79, 32, 121, 32, 58, 61, 32, 121, 32, 43, 32, 49, 32, 69, 78, 68]

-- the bytes above are that text (`String.toUTF8` does not reduce in the kernel: evaluated)
#guard text == "DEFINE SWAP <ID> <ID> AS #0 := $0; $0 := $1; $1 := #0 END DEFINE PROGRAM f IN a OUT r DO r := a + 1 END x := RUN f WITH 2 END; y := 5; SWAP x y; LOOP x DO y := y + 1 END".toUTF8.toList

def files : Files := [([109], text)]
def main : Bytes := [109]

/-- kernel-checked, by evaluating the whole model (scanner with the include of the hidden
    standard file, extraction of three macros, three rewriting passes with LR(1) detectors,
    descent, generator): the compilation is accepted, the label condition holds, the source is
    jump-free, and the `ID` tokens starting with `#` that reach the parser are the two
    occurrences of the renamed temporary `#0:m:1_(M2)` -/
theorem demo_facts :
    (compile files main).ok = true ∧
    LabelsOK (parseFiles files main).ast.root = true ∧
    (loopOnlyStmts (toSource (parseFiles files main).ast.root).main = true ∧
      ∀ pd ∈ (toSource (parseFiles files main).ast.root).progs, loopOnlyStmts pd.body = true) ∧
    ((frontEnd files main).1.filter (fun t => t.kind = Tok.ID ∧ t.text.head? = some 35)).map (·.text) =
      [[35, 48, 58, 109, 58, 49, 95, 40, 77, 50, 41], [35, 48, 58, 109, 58, 49, 95, 40, 77, 50, 41]] := by
  decide +kernel

theorem demo_ok : (compile files main).ok = true := demo_facts.1
theorem demo_labels : LabelsOK (parseFiles files main).ast.root = true := demo_facts.2.1
theorem demo_loopOnly : LoopOnly (toSource (parseFiles files main).ast.root) := demo_facts.2.2.1

/-- hence, without running validator, verifier or VM: the three statements for this program … -/
theorem demo_correct :
    let src := toSource (parseFiles files main).ast.root
    let p := (compile files main).code
    (∀ n, (Sem.run src n (initial src) 0).1.status ≠ .stuck) ∧
    (∀ n, (Sem.run src n (initial src) 0).1.status = .halted →
        ∃ m vm, vmRun p m = .ok vm ∧ vm.isDone = .ok true ∧
          ViewsAgree p (Sem.run src n (initial src) 0).1 vm) ∧
    ((∀ n, (Sem.run src n (initial src) 0).1.status = .running) →
        ∀ m vm, vmRun p m = .ok vm → vm.isDone = .ok false) :=
  C01_compile_correct files main demo_ok demo_labels

/-- … and its bytecode halts in a state that agrees with the halted reference execution -/
theorem demo_halts :
    ∃ n m vm,
      (Sem.run (toSource (parseFiles files main).ast.root) n
        (initial (toSource (parseFiles files main).ast.root)) 0).1.status = .halted ∧
      vmRun (compile files main).code m = .ok vm ∧ vm.isDone = .ok true ∧
      ViewsAgree (compile files main).code
        (Sem.run (toSource (parseFiles files main).ast.root) n
          (initial (toSource (parseFiles files main).ast.root)) 0).1 vm :=
  C16_compile_loop_halts_same_values files main demo_ok demo_loopOnly

/-! The concrete runs are evaluated, not kernel-checked: `valueOf` (inside `toSource`) is defined
    by well-founded recursion and does not reduce in the kernel as soon as a VALUE is needed
    (`#guard` fails the build if the evaluation changes).  The reference execution halts after 45
    steps with x = 5, y = 8 (f(2) = 3; swapped with 5; five increments of 3); the bytecode halts
    too. -/
#guard (Sem.run (toSource (parseFiles files main).ast.root) 60
  (initial (toSource (parseFiles files main).ast.root)) 0).2 == 45
#guard (Sem.run (toSource (parseFiles files main).ast.root) 60
  (initial (toSource (parseFiles files main).ast.root)) 0).1.stack.map
    (fun fr => (fr.env.get [120], fr.env.get [121])) == [(5, 8)]
#guard shapeCheck (toSource (parseFiles files main).ast.root) (compile files main).code
#guard wfCheck (compile files main).code

/-! ### the hypothesis `LabelsOK` is needed: an accepted compilation that violates it and whose
    bytecode does NOT compute the reference semantics -/

/-- `GOTO l; l: x := 1; STOP; l: x := 2` — the jump target `l` is defined twice -/
def dupText : Bytes :=
  [71, 79, 84, 79, 32, 108, 59, 32, 108, 58, 32, 120, 32, 58, 61, 32, 49, 59, 32, 83, 84, 79, 80, 59, 32, 108, 58, 32,
   120, 32, 58, 61, 32, 50]
#guard dupText == "GOTO l; l: x := 1; STOP; l: x := 2".toUTF8.toList

def dupFiles : Files := [([109], dupText)]

/-- accepted, and only `LabelsOK` fails (kernel-checked) -/
theorem dup_accepted : (compile dupFiles main).ok = true ∧
    LabelsOK (parseFiles dupFiles main).ast.root = false := by decide +kernel

-- the reference execution (first definition of `l`) halts with x = 1 …
#guard (Sem.run (toSource (parseFiles dupFiles main).ast.root) 100
  (initial (toSource (parseFiles dupFiles main).ast.root)) 0).1.status == .halted
#guard (Sem.run (toSource (parseFiles dupFiles main).ast.root) 100
  (initial (toSource (parseFiles dupFiles main).ast.root)) 0).1.stack.map (fun fr => fr.env.get [120]) == [1]
-- … the bytecode (last definition of `l`) halts with x = 2
#guard (match vmRun (compile dupFiles main).code 100 with
  | .ok vm =>
    (match vm.isDone with | .ok b => b | .error _ => false) &&
    (match vm.stack.map (fun a => activationVariables (compile dupFiles main).code vm a) with
     | [.ok vars] => vars == [([120], 2)]
     | _ => false)
  | .error _ => false)

end C01CompileDemo

end Theo
