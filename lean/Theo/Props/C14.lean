/-
  C14 — the scanner's token stream is faithful to the source text.
  (Part about one buffer: maximal munch over the rule list generated from lexer.l.
   The include splice is in C15's file; the comparison of the committed lex.yy.c and a freshly
   generated scanner with this specification is done by the correspondence check.)
-/
import Theo.Proofs.LexProofs
import Theo.Spec.Keywords

namespace Theo

/-- the derivative matcher decides the language -/
theorem C14_nullable_correct (r : Rx) : r.nullable = true ↔ r.Matches [] :=
  Rx.nullable_correct r

theorem C14_deriv_correct (r : Rx) (c : UInt8) (s : Bytes) :
    (r.deriv c).Matches s ↔ r.Matches (c :: s) :=
  Rx.deriv_correct r c s

theorem C14_matchesB_correct (r : Rx) (s : Bytes) : r.matchesB s = true ↔ r.Matches s :=
  Rx.matchesB_correct r s

/-- `longest` computes exactly the maximal munch: longest prefix, earliest rule -/
theorem C14_longest_match (rules : List Rx) (inp : Bytes) (i n : Nat) :
    longest rules inp = some (i, n) ↔ IsMaxMunch rules inp i n :=
  longest_match rules inp i n

theorem C14_longest_none (rules : List Rx) (inp : Bytes) :
    longest rules inp = none ↔ NoMunch rules inp :=
  longest_none rules inp

/-- with the rules of lexer.l every non-empty input has a munch (the catch-all rule), so the
    scanner always makes progress -/
theorem C14_total (inp : Bytes) (h : inp ≠ []) :
    (longest (LexGen.rules.map (·.1)) inp).isSome = true :=
  longest_total inp h

/-- the lexemes partition the buffer (up to the first NUL): nothing is lost, nothing invented -/
theorem C14_partition (content : Bytes) :
    ((lexemes LexGen.rules ((cstr content).length + 1) (cstr content) 1).map (·.2.1)).flatten = cstr content :=
  lexemes_flatten _ _ _ (Nat.lt_succ_self _)

/-- every lexeme is the maximal munch of what remains after the lexemes before it -/
theorem C14_each_maxmunch (content : Bytes) (k : Nat) (l : Nat × Bytes × Nat)
    (h : (lexemes LexGen.rules ((cstr content).length + 1) (cstr content) 1)[k]? = some l) :
    let before := (((lexemes LexGen.rules ((cstr content).length + 1) (cstr content) 1).take k).map (·.2.1)).flatten
    IsMaxMunch (LexGen.rules.map (·.1)) ((cstr content).drop before.length) l.1 l.2.1.length ∧
    l.2.1 = ((cstr content).drop before.length).take l.2.1.length :=
  lexemes_maxmunch LexGen.rules _ _ 1 k l h

/-- the token stream of a buffer is exactly the lexemes with a non-empty action, in order -/
theorem C14_tokens_are_lexemes (content : Bytes) :
    lexBuffer content =
      tokensOfLexemes LexGen.rules (lexemes LexGen.rules ((cstr content).length + 1) (cstr content) 1) :=
  lexFrom_eq_tokensOfLexemes LexGen.rules _ _ 1

/-- a token is labelled with the line on which it ends: 1 + the number of newlines in the input
    up to and including the lexeme -/
theorem C14_lines (content : Bytes) (k : Nat) (l : Nat × Bytes × Nat)
    (h : (lexemes LexGen.rules ((cstr content).length + 1) (cstr content) 1)[k]? = some l) :
    l.2.2 = 1 + countNl ((((lexemes LexGen.rules ((cstr content).length + 1) (cstr content) 1).take (k + 1)).map (·.2.1)).flatten) :=
  lexemes_line LexGen.rules _ _ 1 k l h

/-- every documented keyword / operator spelling (all literal alternatives of lexer.l's rules,
    table regenerated from the source) lexes to exactly one token of its kind -/
theorem C14_keywords :
    LexGen.keywords.all (fun e => lexBuffer e.1 == [⟨e.2, e.1, 1⟩]) = true :=
  keywords_lex

/-- the spellings of the scanner specification are exactly the documented ones, with the
    documented kinds (pinned table `Theo/Spec/Keywords.lean`): no spelling added, dropped or
    re-kinded -/
theorem C14_keywords_documented :
    (LexGen.keywords.all (fun e => documentedKeywords.contains e) &&
     documentedKeywords.all (fun e => LexGen.keywords.contains e)) = true := by
  decide +kernel

/-- a lexeme matched by no rule but the catch-all is a single byte with kind NV_ID:
    the last rule of lexer.l is `.|\n`, i.e. any one byte, with action NV_ID -/
theorem C14_catch_all :
    LexGen.rules.getLast? = some (Rx.alt (Rx.ncls [(10, 10)]) (Rx.cls [(10, 10)]), some Tok.NV_ID) :=
  catch_all

end Theo
