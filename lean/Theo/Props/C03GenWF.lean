/-
  C03 — every program the compiler emits is structurally valid bytecode: proved for the generator
  model once and for all (so far the project ran `wfCheck` on every compiled program — translation
  validation; `C03_checker_sound`, `C16_stack_bounded`, … turn a passed check into the absence of
  out-of-range accesses and a bounded call depth).

  For every tree of the parser's shape (`AstShape`, Spec/Static.lean) that obeys the static rules
  (`staticOK`; equivalently, on which the generator records no error — `C04_static_iff`), the code
  `gen` emits passes the bytecode verifier `wfCheck` of Spec/WellFormed.lean:
    * root `PREPARE` with the root frame size and stack map, final `HALT`;
    * every jump stays inside its routine and never lands inside a `PREPARE … EXEC` sequence;
    * every register operand is below the frame size of its routine;
    * every `PREPARE / ARG* / EXEC` group agrees with the frame size, argument count, stack-map
      index and entry of a routine that was finished earlier (smaller routine id);
    * the breakpoint tables name `POTENTIAL_BREAK` sites only.
  Both forms are proved: an explicit certificate exists (`C03_gen_certified`), and the certificate
  *inferred* by `inferCert` passes (`C03_gen_wf`, through the generic completeness theorem
  `GenWF.wfCheck_of_cert` for the inference).

  Hypotheses added: none beyond the two of the task statement (tree shape, static rules).  The
  shape hypothesis is satisfied by every error-free parse (`C04_parser_shape`), so the theorem
  covers everything `compile` accepts (`C03_compile_wf`, no hypothesis besides `ok = true`).
  The candidate counterexamples (label at the very end of a routine, STOP inside a callee, programs
  without parameters, unmentioned OUT variable, redefinition of a program name, temporaries of
  nested calls, `__INC__`/`__DEC__`, breakpoint sites at jump targets, `removeTopPotBreak`) are all
  covered by the proof; none is a counterexample.

  Proof: Proofs/GenWF*.lean (invariant of the generator state per routine body — `BInv`; layout
  of the finished routines — `TopCore`; backpatching — `backpatch_spec`; local well-formedness —
  `LocalWF`; checker — `checkCert_of_localWF`; inference — `wfCheck_of_cert`).
-/
import Theo.Proofs.GenWFFinal
import Theo.Props.C04Static
import Theo.Props.C03
import Theo.Props.C16

namespace Theo

/-- the generator form: no recorded error (any list of forwarded syntax errors in the AST value) -/
theorem C03_gen_wf_of_accepted (errs : List SynErr) (root : Node) (h : AstShape root = true)
    (he : (gen ⟨true, errs, root⟩).errors = []) : wfCheck (gen ⟨true, errs, root⟩).code = true :=
  GenWF.gen_wfCheck errs root h he

/-- every program the generator model emits for an accepted source has a certificate … -/
theorem C03_gen_certified (root : Node) (h : AstShape root = true)
    (hs : staticOK (toSource root) = true) : ∃ c, checkCert (gen ⟨true, [], root⟩).code c = true :=
  GenWF.gen_certified [] root h ((C04_static_iff root h).2 hs)

/-- … and is well-formed bytecode: the inferred certificate passes the checker -/
theorem C03_gen_wf (root : Node) (h : AstShape root = true)
    (hs : staticOK (toSource root) = true) : wfCheck (gen ⟨true, [], root⟩).code = true :=
  GenWF.gen_wfCheck [] root h ((C04_static_iff root h).2 hs)

/-- the same for `Theo::compile` itself: whatever it accepts is well-formed bytecode -/
theorem C03_compile_wf (files : Files) (main : Bytes) (h : (compile files main).ok = true) :
    wfCheck (compile files main).code = true := by
  have hc : (compile files main).code = (gen (parseFiles files main).ast).code := by simp only [compile]
  have ho : (compile files main).ok = (gen (parseFiles files main).ast).ok := by simp only [compile]
  rw [hc]
  rw [ho, Static.gen_ok_eq, List.isEmpty_iff] at h
  rw [parseFiles_ast] at h ⊢
  unfold astOf at h ⊢
  generalize (frontEnd files main).1 = ts at h ⊢
  generalize (frontEnd files main).2.map (fun e => (⟨.forwarded e.kind, e.file, e.line⟩ : SynErr)) = fwd at h ⊢
  by_cases he : (parseTokens ts).2 ++ fwd = []
  · obtain ⟨he1, _⟩ := List.append_eq_nil_iff.1 he
    rw [he] at h ⊢
    exact GenWF.gen_wfCheck [] _ (Static.parser_shape ts he1) h
  · exfalso
    have hemp : ((parseTokens ts).2 ++ fwd).isEmpty = false := by
      cases hx : (parseTokens ts).2 ++ fwd with
      | nil => exact absurd hx he
      | cons a as => rfl
    rw [hemp] at h
    exact he (Static.gen_rejects_bad _ _ h)

/-- consequently no execution and no debugger history of a compiled program leaves the VM's memory
    (C03: `step`, `isDone`, `activationVariables` are defined in every reachable state) … -/
theorem C03_compiled_sound (files : Files) (main : Bytes) (h : (compile files main).ok = true)
    (vm : VM) (hr : Reach (compile files main).code vm) :
    (∃ r, step vm = .ok r) ∧ (∃ b, vm.isDone = .ok b) ∧
    (∀ a ∈ vm.stack, ∃ v, activationVariables (compile files main).code vm a = .ok v) :=
  C03_wfCheck_sound _ (C03_compile_wf files main h) vm hr

/-- … and its call depth is bounded by the number of routines (C16) -/
theorem C16_compiled_stack_bounded (files : Files) (main : Bytes) (h : (compile files main).ok = true)
    (vm : VM) (hr : Reach (compile files main).code vm) :
    vm.stack.length ≤ numRoutines (compile files main).code + 1 :=
  C16_stack_bounded_wf _ (C03_compile_wf files main h) vm hr

/-! ### non-vacuity -/

namespace C03Demo
def tk (k : Nat) (s : Bytes) (ln : Int) : Token := ⟨k, s, [109], ln⟩

/-- ```
    PROGRAM f IN a DO          -- 1
      x0 := a END              -- 2
    LOOP x DO                  -- 3
      x0 := RUN f WITH 7 END   -- 4
    END ;                      -- 5
    l : GOTO l                 -- 6
    ``` -/
def demo : List Token :=
  [tk Tok.PROGRAM [80] 1, tk Tok.ID [102] 1, tk Tok.IN [73] 1, tk Tok.ID [97] 1, tk Tok.DO [68] 1,
   tk Tok.ID [120, 48] 2, tk Tok.ASSIGN [58, 61] 2, tk Tok.ID [97] 2, tk Tok.END [69] 2,
   tk Tok.LOOP [76] 3, tk Tok.ID [120] 3, tk Tok.DO [68] 3,
   tk Tok.ID [120, 48] 4, tk Tok.ASSIGN [58, 61] 4, tk Tok.RUN [82] 4, tk Tok.ID [102] 4, tk Tok.WITH [87] 4,
     tk Tok.INT [55] 4, tk Tok.END [69] 4,
   tk Tok.END [69] 5, tk Tok.PROGSEP [59] 5,
   tk Tok.ID [108] 6, tk Tok.LABELDEC [58] 6, tk Tok.GOTO [71] 6, tk Tok.ID [108] 6,
   tk Tok.T_EOF [69, 79, 70] 6]

/-- the hypotheses of `C03_gen_wf` hold for the parse of `demo` (a program definition, a call, a
    loop and a GOTO) -/
theorem demo_hyps : (parseTokens demo).2 = [] ∧ AstShape (parseTokens demo).1 = true ∧
    staticOK (toSource (parseTokens demo).1) = true := by
  refine ⟨by decide, by decide, ?_⟩
  rw [← Static.topOK_static _ (by decide)]
  decide

/-- … hence its code is well-formed … -/
example : wfCheck (gen ⟨true, [], (parseTokens demo).1⟩).code = true :=
  C03_gen_wf _ demo_hyps.2.1 demo_hyps.2.2

/-- … as the checker confirms on this instance -/
theorem demo_checked : wfCheck (gen ⟨true, [], (parseTokens demo).1⟩).code = true := by decide +kernel

/-- the code really contains a routine, a call sequence, a loop and jumps -/
theorem demo_length : (gen ⟨true, [], (parseTokens demo).1⟩).code.code.length = 19 := by decide +kernel
end C03Demo

end Theo
