/-
  C13 (second half) — completeness of conflict-free LR(1) tables, uniqueness of the derivation
  tree, "ambiguous ⇒ conflict", in full and prefix mode.
-/
import Theo.Proofs.LRComplete

namespace Theo

/-- Completeness, full mode: if generation reports no conflict (and the state budget was not
    exhausted), every sentence — given by any of its derivation trees — is accepted, and the
    value returned is that very tree. -/
theorem C13_complete_full (g : Grammar) (start eof sfuel : Nat) (t : Tree)
    (hg : g.Closed) (hs : start < g.numNT) (he : eof ∉ g.terminals)
    (ht : t.Valid g) (hr : t.root = .n start)
    (hc : (tablesOf g start eof false sfuel).conflicts = [])
    (hf : (genTables g start eof false sfuel).2 < sfuel) :
    ∃ fuel, lrParseTree (tablesOf g start eof false sfuel) fuel (t.yield ++ [eof]) = .accept t := by
  exact LRComplete.complete_full g start eof sfuel t hg hs ht hr hc hf

/-- Completeness, prefix mode: a sentence followed by at least one more symbol (of the table's
    column range) is accepted as a prefix, again with exactly the given tree. -/
theorem C13_complete_prefix (g : Grammar) (start eof sfuel : Nat) (t : Tree) (a : Nat) (rest : List Nat)
    (hg : g.Closed) (hs : start < g.numNT) (he : eof ∉ g.terminals)
    (ht : t.Valid g) (hr : t.root = .n start)
    (ha : a ≤ (g.augment start eof).maxTerminal)
    (hc : (tablesOf g start eof true sfuel).conflicts = [])
    (hf : (genTables g start eof true sfuel).2 < sfuel) :
    ∃ fuel, lrParseTree (tablesOf g start eof true sfuel) fuel (t.yield ++ a :: rest) = .accept t := by
  exact LRComplete.complete_prefix g start eof sfuel t a rest hg hs ht hr ha hc hf

/-- more fuel never changes a verdict -/
theorem C13_fuel_mono (T : Tables) (fuel k : Nat) (inp : List Nat) (r : ParseOut Tree)
    (h : lrParseTree T fuel inp = r) (hr : r ≠ .fuelOut) :
    lrParseTree T (fuel + k) inp = r := by
  exact LRComplete.fuel_mono T fuel k inp r h hr

/-- hence a conflict-free grammar is unambiguous: the derivation tree of a sentence is unique -/
theorem C13_unambiguous (g : Grammar) (start eof sfuel : Nat) (t t' : Tree)
    (hg : g.Closed) (hs : start < g.numNT) (he : eof ∉ g.terminals)
    (ht : t.Valid g) (hr : t.root = .n start) (ht' : t'.Valid g) (hr' : t'.root = .n start)
    (hy : t.yield = t'.yield)
    (hc : (tablesOf g start eof false sfuel).conflicts = [])
    (hf : (genTables g start eof false sfuel).2 < sfuel) : t = t' := by
  obtain ⟨f1, h1⟩ := LRComplete.complete_full g start eof sfuel t hg hs ht hr hc hf
  obtain ⟨f2, h2⟩ := LRComplete.complete_full g start eof sfuel t' hg hs ht' hr' hc hf
  rw [← hy] at h2
  exact LRComplete.accept_unique _ _ f1 f2 t t' h1 h2

/-- for every ambiguous grammar generation reports at least one conflict -/
theorem C13_ambiguous_conflict (g : Grammar) (start eof sfuel : Nat) (t t' : Tree)
    (hg : g.Closed) (hs : start < g.numNT) (he : eof ∉ g.terminals)
    (ht : t.Valid g) (hr : t.root = .n start) (ht' : t'.Valid g) (hr' : t'.root = .n start)
    (hy : t.yield = t'.yield) (hne : t ≠ t')
    (hf : (genTables g start eof false sfuel).2 < sfuel) :
    (tablesOf g start eof false sfuel).conflicts ≠ [] := by
  intro hc
  exact hne (C13_unambiguous g start eof sfuel t t' hg hs he ht hr ht' hr' hy hc hf)

/-- prefix mode: no conflict ⇒ an input has at most one prefix in the language, with one tree -/
theorem C13_prefix_unique (g : Grammar) (start eof sfuel : Nat) (t t' : Tree) (inp : List Nat)
    (hg : g.Closed) (hs : start < g.numNT) (he : eof ∉ g.terminals)
    (ht : t.Valid g) (hr : t.root = .n start) (ht' : t'.Valid g) (hr' : t'.root = .n start)
    (hp : ∃ a rest, inp = t.yield ++ a :: rest ∧ a ≤ (g.augment start eof).maxTerminal)
    (hp' : ∃ a rest, inp = t'.yield ++ a :: rest ∧ a ≤ (g.augment start eof).maxTerminal)
    (hc : (tablesOf g start eof true sfuel).conflicts = [])
    (hf : (genTables g start eof true sfuel).2 < sfuel) : t = t' := by
  obtain ⟨a, rest, hi, ha⟩ := hp
  obtain ⟨a', rest', hi', ha'⟩ := hp'
  obtain ⟨f1, h1⟩ := LRComplete.complete_prefix g start eof sfuel t a rest hg hs ht hr ha hc hf
  obtain ⟨f2, h2⟩ := LRComplete.complete_prefix g start eof sfuel t' a' rest' hg hs ht' hr' ha' hc hf
  rw [← hi] at h1
  rw [← hi'] at h2
  exact LRComplete.accept_unique _ _ f1 f2 t t' h1 h2

end Theo
