/-
  C12 (converse of the semantic side) — a pattern whose detector grammar is LR(1) in Knuth's
  sense is accepted: the detector construction reports no conflict.  Equivalently: every reported
  conflict (NON_LR verdict) witnesses that the detector grammar is not LR(1).

  Notions (`Theo/Spec/KnuthLR.lean`): rightmost derivations `RDerives`, Knuth's condition
  `KnuthLR1 g S' eof pm` — "if S' ⇒*rm αAw ⇒rm αβw and S' ⇒*rm γBx ⇒rm αβy and the lookaheads of
  w and y agree, then αAy = γBx".  The detector runs in prefix mode: the token after the pattern
  is arbitrary, so an exhausted right context agrees with every lookahead (`LACompat true`).

  Proof (`Theo/Proofs/LRConverse*.lean`): every item of a state is valid for every viable prefix
  reaching the state; a reported conflict yields a shift and a complete item, or two different
  complete items, acting on one column of one state; both contradict `KnuthLR1`.  The degenerate
  report "the same reduction placed twice on one cell" (same production, lookaheads end-marker
  and `c`) does occur in the model (e.g. in the tables of `LOOP <P>`), but never in an LR(1)
  grammar: `LRConverse.no_degenerate` pushes it up the derivation to a genuine clash.
-/
import Theo.Proofs.LRConverseMain
import Theo.Proofs.LRConverseSanity
import Theo.Props.C12Semantic

namespace Theo

/-- the augmented detector grammar `S' → MACRO` of a definition -/
def detectorAugmented (m : MacroDef) : Grammar := (detectorGrammar m).augment DetGen.macroNT Tok.T_EOF

/-- the detector grammar is LR(1) in Knuth's sense, read in prefix mode: on a prefix of the input,
    the handle of every right sentential form is determined by the symbols up to its end and one
    more token -/
def DetectorLR1 (m : MacroDef) : Prop :=
  KnuthLR1 (detectorAugmented m) (detectorGrammar m).numNT Tok.T_EOF true

/-- an LR(1) pattern is accepted -/
theorem C12_lr1_accepted (m : MacroDef) (hr : RuleOK m) (_hf : DetectorComplete m)
    (h : DetectorLR1 m) : (mkDetector m).tables.conflicts = [] :=
  LRConverse.detector_no_conflicts m (fun t ht => (hr t ht).1) detectorStateFuel h

/-- the same without the budget condition: the argument works state by state, so it also covers a
    construction that ran out of its state budget -/
theorem C12_lr1_accepted' (m : MacroDef) (hr : ∀ t ∈ m.rule, t.kind ≠ Tok.T_EOF)
    (h : DetectorLR1 m) : (mkDetector m).tables.conflicts = [] :=
  LRConverse.detector_no_conflicts m hr detectorStateFuel h

/-- a rejected pattern is not LR(1) -/
theorem C12_conflict_not_lr1 (m : MacroDef) (hr : RuleOK m) (hf : DetectorComplete m)
    (hc : (mkDetector m).tables.conflicts ≠ []) : ¬ DetectorLR1 m :=
  fun h => hc (C12_lr1_accepted m hr hf h)

/-- the generic statement behind it (any grammar, full or prefix mode) -/
theorem C13_lr1_no_conflict (g : Grammar) (start eof : Nat) (pm : Bool) (sfuel : Nat)
    (hg : g.Closed) (hs : start < g.numNT) (he : eof ∉ g.terminals)
    (hnd : g.NoDupAlts) (hp : g.Productive)
    (h : KnuthLR1 (g.augment start eof) g.numNT eof pm) :
    (tablesOf g start eof pm sfuel).conflicts = [] :=
  LRConverse.knuth_no_conflicts g start eof pm sfuel hg hs he hnd hp h

/-- the notion is satisfiable in both lookahead readings: the one-rule grammar `S → a` is LR(1)
    (all its right sentential forms are enumerated in `LRConverse.Sanity`), and for it every
    hypothesis of `C13_lr1_no_conflict` is discharged -/
theorem C13_lr1_satisfiable (pm : Bool) :
    KnuthLR1 (LRConverse.Sanity.g0.augment 0 0) LRConverse.Sanity.g0.numNT 0 pm :=
  LRConverse.Sanity.g0_lr1 pm

/-! ### the side conditions are satisfiable, the statement is not vacuous -/

namespace C12ConverseExample

def tk (k : Nat) : Token := ⟨k, [], [], 0⟩

/-- `<ID> := <V> ;` -/
def assignMacro : MacroDef :=
  ⟨0, [tk Tok.ID_TEMP, tk Tok.ASSIGN, tk Tok.VALUE_TEMP, tk Tok.PROGSEP], [], [], []⟩

/-- `LOOP <P>` -/
def loopMacro : MacroDef := ⟨0, [tk Tok.LOOP, tk Tok.PROG_TEMP], [], [], []⟩

instance (m : MacroDef) : Decidable (RuleOK m) := by unfold RuleOK; infer_instance
instance (m : MacroDef) : Decidable (DetectorComplete m) := by unfold DetectorComplete; infer_instance

example : RuleOK assignMacro ∧ DetectorComplete assignMacro := by decide +kernel

/-- (the conclusion holds for this macro; its hypothesis `DetectorLR1` is the classical other
    direction and is not derived here) -/
example : (mkDetector assignMacro).tables.conflicts = [] := by decide +kernel

example : RuleOK loopMacro ∧ DetectorComplete loopMacro := by decide +kernel

/-- a non-trivial use: `LOOP <P>` is rejected by the tables, hence its detector grammar is not
    LR(1) in Knuth's sense -/
theorem loopMacro_not_lr1 : ¬ DetectorLR1 loopMacro :=
  C12_conflict_not_lr1 loopMacro (by decide +kernel) (by decide +kernel) (by decide +kernel)

/-- among the clashes reported for `LOOP <P>` there are degenerate ones (kind 2 = reduce/reduce
    between two items of the *same* production, e.g. `[P → STMT ., eof]` and `[P → STMT ., ;]`),
    next to the genuine shift/reduce clash (kind 1) -/
example : (⟨2, 8, Tok.PROGSEP⟩ : Conflict) ∈ (mkDetector loopMacro).tables.conflicts ∧
    (⟨1, 10, Tok.PROGSEP⟩ : Conflict) ∈ (mkDetector loopMacro).tables.conflicts := by decide +kernel

end C12ConverseExample

end Theo
