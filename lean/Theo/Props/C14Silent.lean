/-
  C14 — the token-less rules of the regenerated scanner specification are exactly the documented
  ones (whitespace and `//` comments up to the end of the line or of the file).
-/
import Theo.Spec.Silent
import Theo.Generated.LexRules

namespace Theo

/-- every rule without a token action is a documented one, and every documented one is present -/
theorem C14_silent_rules_documented :
    (((LexGen.rules.filter (fun r => r.2.isNone)).map (fun r => r.1.norm)).all (fun r => documentedSilent.contains r) &&
     documentedSilent.all (fun d => ((LexGen.rules.filter (fun r => r.2.isNone)).map (fun r => r.1.norm)).contains d)) = true := by
  decide +kernel

end Theo
