/-
  C02 — compilation is total: every input yields a result.
  The model `compile : Files → Bytes → CodegenResult` is a total Lean function; what makes that
  meaningful is that none of its internal fuels can run out (each stage's bound is proved
  sufficient) and that the verdict is always exactly one of "correct without errors" /
  "incorrect with at least one error".  Undefined behaviour, leaks and wall time of the C++ are
  runtime facts no model can exhibit: they are observed by the sanitizer build of the harness.
-/
import Theo.Props.C04
import Theo.Props.C11
import Theo.Props.C14
import Theo.Props.C15

namespace Theo

/-- the verdict is never "both" and never "neither" -/
theorem C02_verdict (files : Files) (main : Bytes) :
    ((compile files main).ok = true ∧ (compile files main).errors = []) ∨
    ((compile files main).ok = false ∧ (compile files main).errors ≠ []) := by
  have h : (compile files main).ok = (compile files main).errors.isEmpty := by
    simp only [compile, gen]
  cases he : (compile files main).errors with
  | nil => left; rw [h, he]; exact ⟨rfl, rfl⟩
  | cons e es => right; rw [h, he]; exact ⟨rfl, by simp⟩

/-- scanning terminates for every include graph (the depth budget is never exhausted) -/
theorem C02_scan_terminates (files : Files) (main : Bytes) : (scan files main).fuelOut = false :=
  C15_terminates files main

/-- the scanner always makes progress: every non-empty buffer has a maximal munch -/
theorem C02_lexer_progress (inp : Bytes) (h : inp ≠ []) :
    (longest (LexGen.rules.map (·.1)) inp).isSome = true := C14_total inp h

/-- macro expansion performs at most `passes` rewriting steps, by structural recursion -/
theorem C02_macro_budget (inp : List Token) (defs : List MacroDef) (passes : Nat) :
    (applyMacros inp defs passes).rewrites ≤ passes := C11_rewrites_le_budget inp defs passes

/-- the descent never runs out of fuel on a scanned stream -/
theorem C02_parse_fuel_ok (ts : List Token) (h : EndMarked ts) :
    ∀ e ∈ (parseTokens ts).2, e.kind ≠ SynKind.fuel := C04_parse_fuel_ok ts h

/-- errors of every stage reach the result: an incorrect parse gives an incorrect compilation
    with at least one error -/
theorem C02_errors_forwarded (files : Files) (main : Bytes) :
    (parseFiles files main).ast.ok = false →
      (compile files main).ok = false ∧ (compile files main).errors ≠ [] :=
  (C04_errors_not_lost files main).2

end Theo
