/-
  C11 — macro expansion always terminates within its pass budget.
  `applyMacros` is defined by structural recursion on the number of passes left (`passLoop`):
  Lean accepting the definition is the proof that it returns for every macro set.
-/
import Theo.Proofs.MacroProofs

namespace Theo

/-- the usable detectors of a definition list, in priority bins (as `applyMacros` builds them) -/
def usableBins (defs : List MacroDef) : List (List Detector) :=
  bins ((defs.map mkDetector).filter (·.usable))

def isMaxPasses (e : PErr) : Prop := e.kind = PErrT.MACRO_APPLY_REACHED_MAX_PASSES

/-- at most `passes` rewriting steps are performed -/
theorem C11_rewrites_le_budget (inp : List Token) (defs : List MacroDef) (passes : Nat) :
    (applyMacros inp defs passes).rewrites ≤ passes := by
  exact applyMacros_rewrites_le inp defs passes

/-- if rewriting is still possible on the returned stream (a step exists, for whatever pass
    number) and the budget is at least 1, the too-many-substitutions error is reported -/
theorem C11_unfinished_flagged (inp : List Token) (defs : List MacroDef) (passes : Nat)
    (hp : 1 ≤ passes) (p : Nat)
    (h : (applyStep (usableBins defs) (applyMacros inp defs passes).toks p).isSome = true) :
    ∃ e ∈ (applyMacros inp defs passes).errs, isMaxPasses e := by
  rcases applyMacros_flag_or_fixpoint inp defs passes hp with hm | hfix
  · exact ⟨maxPassesErr, hm, rfl⟩
  · have := hfix p
    unfold usableBins at h
    rw [this] at h
    cases h

/-- conversely, without that error the result is a fixed point of rewriting -/
theorem C11_no_error_fixpoint (inp : List Token) (defs : List MacroDef) (passes : Nat)
    (hp : 1 ≤ passes)
    (h : ∀ e ∈ (applyMacros inp defs passes).errs, ¬ isMaxPasses e) (p : Nat) :
    applyStep (usableBins defs) (applyMacros inp defs passes).toks p = none := by
  rcases applyMacros_flag_or_fixpoint inp defs passes hp with hm | hfix
  · exact absurd rfl (h maxPassesErr hm)
  · exact hfix p

/-- an unfinished expansion is never passed on as a correct program: any macro-stage error
    (in particular MAX_PASSES) makes the parse, and therefore the compilation, incorrect -/
theorem C11_not_passed_on (files : Files) (main : Bytes) :
    let pr := parseFiles files main
    (∃ e ∈ pr.ast.errs, e.kind = SynKind.forwarded PErrT.MACRO_APPLY_REACHED_MAX_PASSES) →
    pr.ast.ok = false ∧ (compile files main).ok = false := by
  exact any_error_not_passed_on files main _

/-- whether a step exists does not depend on the pass number (it only names temporaries) -/
theorem C11_step_exists_indep (bs : List (List Detector)) (inp : List Token) (p q : Nat) :
    (applyStep bs inp p).isSome = (applyStep bs inp q).isSome := by
  exact applyStep_isSome_indep bs inp p q

end Theo
