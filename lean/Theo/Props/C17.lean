/-
  C17 — reset() gives back a fresh machine; the end is absorbing.
-/
import Theo.Proofs.VMInvA

namespace Theo

/-- once `HALT` is reached, single steps and `execute` change nothing -/
theorem C17_end_absorbing (vm : VM) (h : vm.isDone = .ok true) :
    step vm = .ok (vm, true) ∧ ExecTo vm vm :=
  end_absorbing h

/-- after any history, `reset` succeeds and yields *structurally* the freshly constructed machine -/
theorem C17_reset_fresh (p : Program) (hs : SitesOK p) (vm : VM) (hr : Reach p vm) :
    VM.reset p vm = .ok (VM.mk' p) :=
  reset_fresh hs hr

/-- hence every later history is literally a history of the fresh machine -/
theorem C17_reset_history (p : Program) (hs : SitesOK p) (vm vm' : VM) (hr : Reach p vm)
    (hc : CallRel p vm .reset vm') : vm' = VM.mk' p := by
  cases hc with
  | reset h => rw [reset_fresh hs hr] at h; exact (Except.ok.inj h).symm

end Theo
