/-
  C04 — the compiler accepts exactly the programs of the language (syntactic part):
  the recursive-descent parser with its error recovery records no error if and only if the token
  stream is a sentence of the documented grammar.
-/
import Theo.Proofs.ParseProofs

namespace Theo

/-- soundness: an error-free parse means the stream is a sentence of the grammar -/
theorem C04_parse_sound (ts : List Token) (h : EndMarked ts) (he : (parseTokens ts).2 = []) :
    Derives langGrammar (.n LangNT.S) (bodyKinds ts) :=
  C04.parse_sound ts h he

/-- completeness: every sentence of the grammar is parsed without any error
    (error recovery never fires on a sentence, trailing input included) -/
theorem C04_parse_complete (ts : List Token) (h : EndMarked ts)
    (hd : Derives langGrammar (.n LangNT.S) (bodyKinds ts)) : (parseTokens ts).2 = [] :=
  C04.parse_complete ts h hd

theorem C04_parse_iff (ts : List Token) (h : EndMarked ts) :
    (parseTokens ts).2 = [] ↔ Derives langGrammar (.n LangNT.S) (bodyKinds ts) :=
  ⟨C04_parse_sound ts h, C04_parse_complete ts h⟩

/-- the fuel of the descent is never exhausted: the `fuel` error kind is a model artefact that
    never appears (so "terminates with a result" is a theorem, not an artefact of totalisation) -/
theorem C04_parse_fuel_ok (ts : List Token) (h : EndMarked ts) :
    ∀ e ∈ (parseTokens ts).2, e.kind ≠ SynKind.fuel :=
  have _ := h   -- holds for every token list; the end marker is not needed
  C04.parse_fuel_ok ts

/-- scanner, extraction and macro errors make the parse incorrect, and an incorrect parse makes
    the compilation incorrect with at least one error -/
theorem C04_errors_not_lost (files : Files) (main : Bytes) :
    ((parseFiles files main).ast.ok = true ↔ (parseFiles files main).ast.errs = []) ∧
    ((parseFiles files main).ast.ok = false → (compile files main).ok = false ∧ (compile files main).errors ≠ []) :=
  C04.errors_not_lost files main

end Theo
