/-
  C16 (LOOP programs) — a source that uses neither WHILE nor GOTO / IF-GOTO always stops, and so
  does its compiled bytecode; a LOOP iterates exactly as often as its bound says at entry.

  Helper lemmas: Theo/Proofs/LoopHalts.lean (big-step reading `RunsTo` of the reference machine,
  totality by induction on the routine index / the statements / the hidden counter).
-/
import Theo.Proofs.LoopHalts
import Theo.Props.C01

namespace Theo
open Sem

mutual
/-- neither WHILE nor GOTO / IF-GOTO (labels/END marks, assignments, calls, LOOP and STOP are allowed) -/
def loopOnlyStmt : Stmt → Bool
  | .assign _ _ _ => true
  | .mark _ _ => true
  | .loop _ _ body _ => loopOnlyStmts body
  | .while_ _ _ _ => false
  | .goto _ _ => false
  | .ifGoto _ _ _ _ => false
  | .stop _ => true
def loopOnlyStmts : Stmts → Bool
  | .nil => true
  | .cons s ss => loopOnlyStmt s && loopOnlyStmts ss
end

def LoopOnly (src : Source) : Prop :=
  loopOnlyStmts src.main = true ∧ ∀ pd ∈ src.progs, loopOnlyStmts pd.body = true

mutual
theorem loopOnlyStmt_eq : ∀ s : Stmt, loopOnlyStmt s = LoopHalts.loStmt s
  | .assign _ _ _ => rfl
  | .mark _ _ => rfl
  | .loop _ _ body _ => by simp only [loopOnlyStmt, LoopHalts.loStmt]; exact loopOnlyStmts_eq body
  | .while_ _ _ _ => rfl
  | .goto _ _ => rfl
  | .ifGoto _ _ _ _ => rfl
  | .stop _ => rfl
theorem loopOnlyStmts_eq : ∀ ss : Stmts, loopOnlyStmts ss = LoopHalts.loStmts ss
  | .nil => rfl
  | .cons s ss => by
    simp only [loopOnlyStmts, LoopHalts.loStmts, loopOnlyStmt_eq s, loopOnlyStmts_eq ss]
end

/-- every LOOP source stops: the reference execution leaves the `running` status after finitely
    many steps (for EVERY source, also ones with calls of undefined programs: those get stuck,
    which is also "not running") -/
theorem C16_loop_source_halts (src : Source) (h : LoopOnly src) :
    ∃ n, (Sem.run src n (initial src) 0).1.status ≠ .running := by
  obtain ⟨n, hn⟩ := LoopHalts.source_halts src (by rw [← loopOnlyStmts_eq]; exact h.1)
    (fun pd hpd => by rw [← loopOnlyStmts_eq]; exact h.2 pd hpd)
  exact ⟨n, by rw [LoopHalts.run_fst]; exact hn⟩

/-- a validated LOOP program halts on the VM -/
theorem C16_loop_halts (src : Source) (p : Program) (h : LoopOnly src)
    (hs : shapeCheck src p = true) (hw : wfCheck p = true) :
    ∃ m vm, vmRun p m = .ok vm ∧ vm.isDone = .ok true := by
  obtain ⟨n, hn⟩ := C16_loop_source_halts src h
  have hstuck := C01_never_stuck src p hs n
  have hh : (Sem.run src n (initial src) 0).1.status = .halted := by
    cases hst : (Sem.run src n (initial src) 0).1.status with
    | running => exact absurd hst hn
    | halted => rfl
    | stuck => exact absurd hst hstuck
  obtain ⟨m, vm, h1, h2, _⟩ := C01_halts_same_values src p hs hw n hh
  exact ⟨m, vm, h1, h2⟩

/-! ### the number of iterations

`LoopHalts.RunsTo src r foc foc' s out` — in EVERY context (continuation `k`, stack `rest`) the
activation `⟨r, s.1, s.2, foc, k, .run⟩` reaches `⟨r, s'.1, s'.2, foc', k, .run⟩` over the same
stack (`out = some s'`), or the machine leaves `running` (`out = none`).  For `foc' = .nil` the
outcome is a function of the entry state (`LoopHalts.RunsTo.functional`).

`LoopHalts.IterBody src r id body n s out` — `out` is the `n`-fold composition of that effect of
`body`, starting from `s`: the iterations see the hidden counter `id` at `n, n-1, …, 1`.  It is
a function of `(n, s)` (`C16_iterBody_functional`), and `n` is read ONCE, at entry: whatever the
body assigns to the bound variable does not matter.

`LoopHalts.usesId id body = false` — no LOOP inside `body` (at any depth) carries the same id.
This hypothesis is needed for the exact count only (an inner LOOP with the same id overwrites the
hidden counter: `C16_same_id_counterexample`), not for termination; sources produced by
`toSource` satisfy it (`C16_toSource_distinctLoopIds`). -/

open LoopHalts in
/-- the number of iterations of a LOOP is fixed by the bound at entry: from a running
    configuration whose top frame executes (`ctrl = .run`) the focus `LOOP x … END; ss`, after
    some number of steps either the machine has left `running` (a STOP or an undefined callee in
    one of the iterations), or the same frame is at focus `ss` with the same continuation, the
    stack below it unchanged, and (env, ctrs) are the result of running the body exactly
    `n = env.get x` times (`IterBody`), with the hidden counter back at 0 -/
theorem C16_loop_iterations (src : Source) (hp : ∀ pd ∈ src.progs, loopOnlyStmts pd.body = true)
    (fr : Frame) (rest : List Frame) (id : Nat) (x : Name) (body : Stmts) (pos : Pos) (ss : Stmts)
    (hctrl : fr.ctrl = .run) (hfoc : fr.focus = .cons (.loop id x body pos) ss)
    (hb : loopOnlyStmts body = true) (hid : usesId id body = false) :
    ∃ out, IterBody src fr.routine id body (fr.env.get x) (fr.env, fr.ctrs) out ∧
      ∃ n, match out with
        | some s' => (Sem.run src n ⟨fr :: rest, .running⟩ 0).1 =
            ⟨{ fr with env := s'.1, ctrs := s'.2.set id 0, focus := ss } :: rest, .running⟩
        | none => (Sem.run src n ⟨fr :: rest, .running⟩ 0).1.status ≠ .running := by
  obtain ⟨r, ρ, κ, foc, k, ctrl⟩ := fr
  simp only at hctrl hfoc
  subst hctrl hfoc
  obtain ⟨out, hiter, hgo⟩ := loop_iterations (src := src)
    (fun pd hpd => by rw [← loopOnlyStmts_eq]; exact hp pd hpd) r id x body pos ss
    (by rw [← loopOnlyStmts_eq]; exact hb) hid (ρ, κ)
  refine ⟨out, hiter, ?_⟩
  cases out with
  | none =>
    obtain ⟨n, hn⟩ := hgo k rest
    refine ⟨n, ?_⟩
    show (Sem.run src n _ 0).1.status ≠ .running
    rw [LoopHalts.run_fst]; exact hn
  | some s' =>
    obtain ⟨n, hn⟩ := hgo k rest
    refine ⟨n, ?_⟩
    show (Sem.run src n _ 0).1 = _
    rw [LoopHalts.run_fst]; exact hn

/-- the iterated effect is determined by the number of iterations and the entry state -/
theorem C16_iterBody_functional (src : Source) (r id : Nat) (body : Stmts) (n : Nat)
    (s : LoopHalts.St) (o1 o2 : Option LoopHalts.St)
    (h1 : LoopHalts.IterBody src r id body n s o1) (h2 : LoopHalts.IterBody src r id body n s o2) :
    o1 = o2 :=
  LoopHalts.IterBody.functional n s o1 o2 h1 h2

/-- sources of parsed programs never reuse a LOOP's id inside that LOOP's body -/
theorem C16_toSource_distinctLoopIds (root : Node) :
    LoopHalts.distinctLoopIds (toSource root).main = true ∧
      ∀ pd ∈ (toSource root).progs, LoopHalts.distinctLoopIds pd.body = true :=
  LoopHalts.toSource_distinctLoopIds root

/-- `distinctLoopIds` gives the hypothesis of `C16_loop_iterations` for a LOOP at the head -/
theorem C16_distinct_head (id : Nat) (x : Name) (body : Stmts) (pos : Pos) (ss : Stmts)
    (h : LoopHalts.distinctLoopIds (.cons (.loop id x body pos) ss) = true) :
    LoopHalts.usesId id body = false := by
  simp only [LoopHalts.distinctLoopIds, LoopHalts.distinctLoopIdsStmt, Bool.and_eq_true,
    Bool.not_eq_true'] at h
  exact h.1.1

/-! ### examples -/

/-- `a`, `f`, `r`, `x`, `y` -/
private def nA : Name := [97]
private def nF : Name := [102]
private def nR : Name := [114]
private def nX : Name := [120]
private def nY : Name := [121]
private def p0 : Pos := ([], 0)

/-- `PROGRAM f IN a OUT r: r := a + 1 END;  x := 2;  LOOP x DO LOOP x DO y := RUN f WITH y END END END` -/
def exampleLoopSrc : Source :=
  ⟨[⟨nF, [nA], nR, .cons (.assign nR (.inc nA 1) p0) .nil⟩],
   .cons (.assign nX (.num 2) p0)
    (.cons (.loop 1 nX
      (.cons (.loop 2 nX
        (.cons (.assign nY (.call nF (.cons (.var nY) .nil)) p0) .nil) p0) .nil) p0) .nil)⟩

/-- non-vacuity: a source with a nested LOOP and a call is `LoopOnly` -/
example : LoopOnly exampleLoopSrc := by
  refine ⟨rfl, ?_⟩
  intro pd hpd
  simp only [exampleLoopSrc, List.mem_singleton] at hpd
  subst hpd
  rfl

/-- … and it halts with `y = 4` (2 × 2 iterations) -/
example : (Sem.run exampleLoopSrc 100 (initial exampleLoopSrc) 0).1.status = .halted ∧
    ((Sem.run exampleLoopSrc 100 (initial exampleLoopSrc) 0).1.stack.map (·.env.get nY)) = [4] := by
  decide

/-- `x := 3; y := 1; LOOP(1) x DO LOOP(1) y DO END; a := a + 1 END` — an inner LOOP with the SAME
    id as the outer one -/
def sameIdSrc : Source :=
  ⟨[], .cons (.assign nX (.num 3) p0) (.cons (.assign nY (.num 1) p0)
    (.cons (.loop 1 nX
      (.cons (.loop 1 nY .nil p0) (.cons (.assign nA (.inc nA 1) p0) .nil)) p0) .nil))⟩

/-- why `usesId id body = false` is needed for the exact count: with a reused id the outer body
    runs once, not 3 times (the source still halts, as `C16_loop_source_halts` says) -/
theorem C16_same_id_counterexample :
    LoopOnly sameIdSrc ∧
    (Sem.run sameIdSrc 100 (initial sameIdSrc) 0).1.status = .halted ∧
    ((Sem.run sameIdSrc 100 (initial sameIdSrc) 0).1.stack.map (·.env.get nA)) = [1] := by
  refine ⟨⟨rfl, fun _ h => nomatch h⟩, ?_⟩
  decide

end Theo
