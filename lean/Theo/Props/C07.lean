/-
  C07 — stepping and variable inspection are faithful to the source.

  For every program `p` that passes `siteCheck src p` (Spec/Events.lean: `shapeCheck` plus "every
  breakpoint site is where the one-statement-per-line layout puts it, names that statement's
  line, and there is no other site") and `wfCheck p`: the sequence of sites a run passes — which
  by C06 is exactly where a stepping run stops and what `getCurrentBreak` reports — is the
  sequence of lines the reference semantics visits, and at every such stop every activation's
  user variables have their source-level values.  The check runs `siteCheck` on every program
  the compiler emits for generated sources in the one-statement-per-line layout.
-/
import Theo.Proofs.SimEvents

namespace Theo
open Sem

/-- views agree at corresponding stops -/
def StopsAgree (p : Program) : List Config → List (BreakPoint × VM) → Prop
  | [], [] => True
  | c :: cs, (_, vm) :: vs => ViewsAgree p c vm ∧ StopsAgree p cs vs
  | _, _ => False

/-- every finite prefix of the source-level visit sequence is the site sequence of some bytecode
    prefix, with the variable views agreeing at every stop -/
theorem C07_step_trace (src : Source) (p : Program)
    (hs : siteCheck src p = true) (hw : wfCheck p = true) (n : Nat) :
    ∃ m, (sitesPassed p m (VM.mk' p)).map (fun x => posOfBp x.1) = visits src n (initial src) ∧
         StopsAgree p (visitConfigs src n (initial src)) (sitesPassed p m (VM.mk' p)) := by
  sorry

/-- conversely the bytecode passes no site the source does not visit: every bytecode prefix's
    site sequence is a prefix of the visit sequence of some source prefix -/
theorem C07_no_extra_stops (src : Source) (p : Program)
    (hs : siteCheck src p = true) (hw : wfCheck p = true) (m : Nat) :
    ∃ n, (sitesPassed p m (VM.mk' p)).map (fun x => posOfBp x.1) <+: visits src n (initial src) := by
  sorry

/-- a stepping run stops exactly at the sites it passes, reporting their location (link to the
    debugger theorems: with stepping mode on, `step` returns `true` at a site) -/
theorem C07_stepping_stops_at_sites (vm vm' : VM) (r : Bool) (h : step vm = .ok (vm', r))
    (hst : vm.stepping = true) (hs : fetch vm.code vm.ip = .ok Instr.potBreak) : r = true := by
  sorry

end Theo
