/-
  C07 — stepping and variable inspection are faithful to the source.

  For every program `p` that passes `siteCheck src p` (Spec/Events.lean: `shapeCheck` plus "every
  breakpoint site is where the one-statement-per-line layout puts it, names that statement's
  line, and there is no other site") and `wfCheck p`: the sequence of sites a run passes — which
  by C06 is exactly where a stepping run stops and what `getCurrentBreak` reports — is the
  sequence of lines the reference semantics visits, and at every such stop every activation's
  user variables have their source-level values.  The check runs `siteCheck` on every program
  the compiler emits for generated sources in the one-statement-per-line layout.
-/
import Theo.Proofs.SimEvents

namespace Theo
open Sem

/-- views agree at corresponding stops -/
def StopsAgree (p : Program) : List Config → List (BreakPoint × VM) → Prop
  | [], [] => True
  | c :: cs, (_, vm) :: vs => ViewsAgree p c vm ∧ StopsAgree p cs vs
  | _, _ => False

/-- the agreement established by the simulation is `StopsAgree` -/
theorem stopsAgree_of (p : Program) : ∀ (cs : List Config) (vs : List (BreakPoint × VM)),
    Sim.StopsAgree' p cs vs → StopsAgree p cs vs
  | [], [], _ => trivial
  | _ :: cs, (_, vm) :: vs, h => ⟨stacksAgree_of p vm _ _ h.1, stopsAgree_of p cs vs h.2⟩
  | [], _ :: _, h => h
  | _ :: _, [], h => h

/-- every finite prefix of the source-level visit sequence is the site sequence of some bytecode
    prefix, with the variable views agreeing at every stop -/
theorem C07_step_trace (src : Source) (p : Program)
    (hs : siteCheck src p = true) (hw : wfCheck p = true) (n : Nat) :
    ∃ m, (sitesPassed p m (VM.mk' p)).map (fun x => posOfBp x.1) = visits src n (initial src) ∧
         StopsAgree p (visitConfigs src n (initial src)) (sitesPassed p m (VM.mk' p)) := by
  obtain ⟨V, tend, hV, hT⟩ := Sim.tvalid_of_siteCheck hs
  obtain ⟨R, hc⟩ := WF.certOK_of_check hw
  obtain ⟨m, h1, h2⟩ := Sim.step_trace hc hV hT n
  exact ⟨m, h1, stopsAgree_of p _ _ h2⟩

/-- conversely the bytecode passes no site the source does not visit: every bytecode prefix's
    site sequence is a prefix of the visit sequence of some source prefix -/
theorem C07_no_extra_stops (src : Source) (p : Program)
    (hs : siteCheck src p = true) (hw : wfCheck p = true) (m : Nat) :
    ∃ n, (sitesPassed p m (VM.mk' p)).map (fun x => posOfBp x.1) <+: visits src n (initial src) := by
  obtain ⟨V, tend, hV, hT⟩ := Sim.tvalid_of_siteCheck hs
  obtain ⟨R, hc⟩ := WF.certOK_of_check hw
  exact Sim.no_extra_stops hc hV hT m

/-- a stepping run stops exactly at the sites it passes, reporting their location (link to the
    debugger theorems: with stepping mode on, `step` returns `true` at a site) -/
theorem C07_stepping_stops_at_sites (vm vm' : VM) (r : Bool) (h : step vm = .ok (vm', r))
    (hst : vm.stepping = true) (hs : fetch vm.code vm.ip = .ok Instr.potBreak) : r = true := by
  rw [InvB.step_eq, hs] at h
  have h' : InvB.execI Instr.potBreak vm = .ok (vm', r) := h
  simp only [InvB.execI, pure, Except.pure, Except.ok.injEq, Prod.mk.injEq] at h'
  rw [← h'.2, hst]

end Theo
