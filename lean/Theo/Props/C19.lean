/-
  C19 — VM memory is proportional to the live activations.
  Property theorems only; helper lemmas live in Theo/Proofs.
-/
import Theo.Proofs.VMInvA

namespace Theo

/-- At every point of every history the data memory consists of exactly the frames of
    the live activations, contiguous and in call order. -/
theorem C19_frames_tile (p : Program) (h : NonNegPrepare p.code) (vm : VM) (hr : Reach p vm) :
    Tiles vm.stack vm.data.length :=
  reach_tiles h vm hr

/-- Memory use is the sum of the live frames: bounded by the call chain, not by the
    number of calls executed. -/
theorem C19_memory_is_live_frames (p : Program) (h : NonNegPrepare p.code) (vm : VM) (hr : Reach p vm) :
    vm.data.length = (vm.stack.map (fun a => a.segSize.toNat)).sum :=
  tiles_sum _ _ (reach_tiles h vm hr)

/-- non-vacuity: a machine two calls deep satisfies the tiling predicate -/
example : Tiles [⟨3, 2, 0, 7, 0⟩, ⟨0, 3, 0, -1, 1⟩] 5 := by
  simp [Tiles]

end Theo
