/-
  C14 — the number rules of the regenerated scanner specification are the documented ones.
-/
import Theo.Spec.Numbers
import Theo.Generated.LexRules

namespace Theo

def numberKinds : List Nat := [Tok.INT, Tok.INSERTION, Tok.TEMP_VAL]

/-- the rules whose action is INT / INSERTION / TEMP_VAL are exactly the documented patterns -/
theorem C14_number_rules_documented :
    (((LexGen.rules.filterMap (fun r => match r.2 with
        | some k => if numberKinds.contains k then some (r.1.norm, k) else none
        | none => none)).all (fun r => documentedNumberRules.contains r)) &&
     documentedNumberRules.all (fun d => (LexGen.rules.filterMap (fun r => match r.2 with
        | some k => if numberKinds.contains k then some (r.1.norm, k) else none
        | none => none)).contains d)) = true := by
  decide +kernel

end Theo
