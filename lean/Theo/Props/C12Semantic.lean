/-
  C12 (semantic side) — what acceptance and rejection of a pattern mean.
  Uses soundness and completeness of the LR(1) construction (C13) on the detector grammar that
  the translator regenerates from macro.cpp.
-/
import Theo.Proofs.DetectorProofs

namespace Theo

/-- the column range of a detector's tables -/
def detMaxT (m : MacroDef) : Nat := ((detectorGrammar m).augment DetGen.macroNT Tok.T_EOF).maxTerminal

/-- the pattern can be recognised deterministically on a prefix of the input: a stream of token
    kinds has at most one prefix (followed by at least one more token) that derives from the
    pattern, and that prefix has exactly one derivation (one split into slot fillers) -/
def PrefixDeterministic (m : MacroDef) : Prop :=
  ∀ (t t' : Tree) (inp : List Nat),
    t.Valid (detectorGrammar m) → t.root = .n DetGen.macroNT →
    t'.Valid (detectorGrammar m) → t'.root = .n DetGen.macroNT →
    (∃ a rest, inp = t.yield ++ a :: rest ∧ a ≤ detMaxT m) →
    (∃ a rest, inp = t'.yield ++ a :: rest ∧ a ≤ detMaxT m) → t = t'

/-- the state budget of the detector construction was not exhausted (a decidable side condition,
    reported by the driver for every macro it builds) -/
def DetectorComplete (m : MacroDef) : Prop :=
  (genTables (detectorGrammar m) DetGen.macroNT Tok.T_EOF true detectorStateFuel).2 < detectorStateFuel

/-- the rule tokens are ordinary tokens of the scanner's range (no end-of-file token) -/
def RuleOK (m : MacroDef) : Prop := ∀ t ∈ m.rule, t.kind ≠ Tok.T_EOF ∧ t.kind ≤ Tok.UNKNOWN

/-- an accepted pattern is prefix-deterministic -/
theorem C12_accepted_deterministic (m : MacroDef) (hr : RuleOK m) (hf : DetectorComplete m)
    (hc : (mkDetector m).tables.conflicts = []) : PrefixDeterministic m := by
  intro t t' inp ht hrt ht' hrt' hp hp'
  exact DetectorProofs.prefix_unique m (fun x hx => (hr x hx).1) hf hc t t' inp ht hrt ht' hrt' hp hp'

/-- a pattern that is not prefix-deterministic is rejected -/
theorem C12_nondeterministic_rejected (m : MacroDef) (hr : RuleOK m) (hf : DetectorComplete m)
    (hn : ¬ PrefixDeterministic m) : (mkDetector m).tables.conflicts ≠ [] := by
  intro hc
  exact hn (C12_accepted_deterministic m hr hf hc)

/-- in particular every pattern ending in a statement-sequence slot or an argument-list slot is
    rejected (`… <P>` could always be continued by `; statement`, `… <ARGS>` by `, value`) -/
theorem C12_ends_in_P_or_ARGS (m : MacroDef) (hr : RuleOK m) (hf : DetectorComplete m)
    (last : Token) (hl : m.rule.getLast? = some last)
    (hk : last.kind = Tok.PROG_TEMP ∨ last.kind = Tok.ARGS_TEMP) :
    (mkDetector m).tables.conflicts ≠ [] := by
  apply C12_nondeterministic_rejected m hr hf
  intro hd
  obtain ⟨t, t', inp, ht, hrt, ht', hrt', hp, hp', hne⟩ := DetectorProofs.ends_nondet m last hl hk
  exact hne (hd t t' inp ht hrt ht' hrt' hp hp')

/- Not proved here: the converse of `C12_accepted_deterministic` for Knuth's LR(1) notion of
   determinism ("every reported conflict is a clash between two different decisions that are both
   justified for a common viable prefix").  The generator also reports a clash when the *same*
   reduction is placed twice on one cell; that this never happens alone is observed, not proved:
   the correspondence check compares the NON_LR verdict with an independent canonical LR(1)
   construction that counts only clashes between different actions, over all patterns up to a
   bounded length. -/

end Theo
