/-
  C09 — macro expansion is faithful substitution: highest priority, leftmost, longest.
  Selection and splicing are proved for the model of apply_macros; that a detected range derives
  from the pattern follows from LR soundness (C13) and is added in `C09_match_derives`.
-/
import Theo.Proofs.ApplyProofs

namespace Theo

/-- a step replaces exactly the detected range by the instantiated body and leaves every other
    token untouched and in order -/
theorem C09_step_splice (bs : List (List Detector)) (inp : List Token) (p : Nat)
    (d : Detector) (r : Response) (out : List Token) (h : applyStep bs inp p = some (d, r, out)) :
    out = inp.take r.location ++ replacement d.md r p ++ inp.drop (r.location + r.length) ∧
    detect d inp = some r ∧ ∃ b ∈ bs, d ∈ b := by
  obtain ⟨pre, b, post, hbs, _, hdb, hdet, hout, _⟩ := applyStep_some bs inp p d r out h
  exact ⟨hout, hdet, b, by rw [hbs]; simp, hdb⟩

/-- `$n` is replaced by exactly the tokens matched by slot `n`; every other body token except
    temporaries is copied unchanged -/
theorem C09_instantiate (m : MacroDef) (r : Response) (p : Nat) :
    replacement m r p = m.body.flatMap (fun cand =>
      if cand.kind = Tok.INSERTION then
        (match m.tt[(toInt32 (strtolNat (cand.text.drop 1))).toNat]? with
         | some ri => (r.matched[ri]?).getD []
         | none => [])
      else if cand.kind = Tok.TEMP_VAL then
        [{ cand with kind := Tok.ID,
                     text := tempName cand.text (m.body.head?.getD default).file (m.body.head?.getD default).line p }]
      else [cand]) := by
  rfl

/-- `detect` reports the leftmost start at which the detector accepts a prefix satisfying the
    text constraints -/
theorem C09_detect_leftmost (d : Detector) (inp : List Token) (r : Response) (h : detect d inp = some r) :
    r.location < inp.length ∧
    (∃ a, detectAt d (inp.drop r.location) = some a ∧ checkConstraint d.md a.split = true ∧
          r.length = a.total.length ∧ r.matched = a.split) ∧
    (∀ i, i < r.location → ∀ a, detectAt d (inp.drop i) = some a → checkConstraint d.md a.split = false) := by
  exact detect_leftmost d inp r h

theorem C09_detect_none (d : Detector) (inp : List Token) :
    detect d inp = none ↔
      ∀ i, i < inp.length → ∀ a, detectAt d (inp.drop i) = some a → checkConstraint d.md a.split = false := by
  exact detect_none d inp

/-- no step at all exactly when no usable detector detects anything -/
theorem C09_step_none (bs : List (List Detector)) (inp : List Token) (p : Nat) :
    applyStep bs inp p = none ↔ ∀ b ∈ bs, ∀ d ∈ b, detect d inp = none := by
  exact applyStep_none bs inp p

/-- the bins are visited from the highest priority: the chosen detector's priority is the
    greatest priority of any detector that detects something -/
theorem C09_highest_priority (ds : List Detector) (inp : List Token) (p : Nat)
    (d : Detector) (r : Response) (out : List Token) (h : applyStep (bins ds) inp p = some (d, r, out)) :
    ∀ d' ∈ ds, (detect d' inp).isSome = true → d'.md.priority ≤ d.md.priority := by
  exact (applyStep_bins ds inp p d r out h).1

/-- among the detections of the chosen priority the step taken is the leftmost, then the
    longest; on a full tie the first definition wins (so the choice of range is independent of
    the order of definition) -/
theorem C09_leftmost_longest (ds : List Detector) (inp : List Token) (p : Nat)
    (d : Detector) (r : Response) (out : List Token) (h : applyStep (bins ds) inp p = some (d, r, out)) :
    ∀ d' ∈ ds, d'.md.priority = d.md.priority → ∀ r', detect d' inp = some r' →
      r.location < r'.location ∨ (r.location = r'.location ∧ r'.length ≤ r.length) := by
  exact (applyStep_bins ds inp p d r out h).2

/-- rewriting repeats until no pattern matches (unless the budget runs out, C11) -/
theorem C09_runs_to_fixpoint (inp : List Token) (defs : List MacroDef) (passes : Nat) (hp : 1 ≤ passes)
    (h : ∀ e ∈ (applyMacros inp defs passes).errs, e.kind ≠ PErrT.MACRO_APPLY_REACHED_MAX_PASSES) :
    ∀ b ∈ bins ((defs.map mkDetector).filter (·.usable)), ∀ d ∈ b,
      detect d (applyMacros inp defs passes).toks = none := by
  rcases applyMacros_flag_or_fixpoint inp defs passes hp with hm | hfix
  · exact absurd rfl (h maxPassesErr hm)
  · exact (applyStep_none _ _ 0).mp (hfix 0)

end Theo
