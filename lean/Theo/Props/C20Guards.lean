/-
  C20 (compile-time part) — integer literals and priorities that do not fit the word are rejected
  with a range error.  The threshold is the one read from the C++ sources by the translator
  (`v >= INT_MAX` in gen.cpp and macro.cpp): if a guard is weakened there, these theorems no
  longer check.
-/
import Theo.Proofs.GuardProofs

namespace Theo

/-- the guards reject exactly the values ≥ 2^31-1 -/
theorem C20_guard_threshold (v : Nat) :
    (genRangeBad v = true ↔ INT_MAX ≤ (v : Int)) ∧ (macroRangeBad v = true ↔ INT_MAX ≤ (v : Int)) := by
  exact ⟨genRangeBad_iff v, macroRangeBad_iff v⟩

/-- a literal that does not fit is reported (at the current position), whatever its length -/
theorem C20_literal_guard (gs : GS) (tok : Bytes) (h : INT_MAX ≤ (decVal tok : Int)) :
    (genStrToInt gs tok).1.errors = gs.errors ++ [⟨GErrT.INTERNAL_ERROR, gs.fsName, gs.fsLine⟩] := by
  exact genStrToInt_errors_big gs tok h

/-- a literal that fits is converted exactly and silently -/
theorem C20_literal_exact (gs : GS) (tok : Bytes) (h : (decVal tok : Int) < INT_MAX) :
    genStrToInt gs tok = (gs, (decVal tok : Int)) := by
  exact genStrToInt_small gs tok h

/-- every NUMBER node dispatched as a value whose literal does not fit adds an error, so the
    compilation is incorrect -/
theorem C20_number_node_guard (f : Nat) (gs : GS) (tok file : Bytes) (line : Int) (l r : Node) (tgt : Int)
    (h : INT_MAX ≤ (decVal tok : Int)) :
    (dispatchValue (f + 1) gs (.mk NodeT.NUMBER tok file line l r) tgt).errors ≠ [] := by
  exact dispatchValue_number_errors f gs tok file line l r tgt h

/-- priorities (and insertion indices) that do not fit are reported as RANGE errors -/
theorem C20_priority_guard (es : ExSt) (text : Bytes) (h : INT_MAX ≤ (decVal text : Int)) :
    (es.strToInt text).1.errs = es.errs ++ [⟨PErrT.RANGE, es.cur.file, es.cur.line, []⟩] := by
  exact strToInt_errs_big es text h

/-- the constants the generator emits for accepted literals are in the word range -/
theorem C20_const_in_range (gs : GS) (tok : Bytes) (h : (genStrToInt gs tok).1.errors = gs.errors) :
    0 ≤ (genStrToInt gs tok).2 ∧ (genStrToInt gs tok).2 < INT_MAX := by
  exact genStrToInt_in_range gs tok h

end Theo
