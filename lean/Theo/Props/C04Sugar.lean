/-
  C04 (sugar) — "a source WITHOUT user macro definitions compiles successfully iff, AFTER THE
  BUILT-IN id+int / id-int SUGAR IS APPLIED, it is a sentence of the documented grammar and obeys
  the static rules".  Props/C04.lean and Props/C04Static.lean prove the grammar and static halves for
  the token stream that reaches the parser (`frontEnd`).  This file says what that stream is when
  the source defines no macro: the macro stage is exactly the desugaring of `Spec/Sugar.lean`.

  `stdDefs` is not written down: it is the result of the model's scanner and macro extraction on the
  regenerated constant `ConstGen.stdMacroText`; the closed facts about it are re-checked by
  `decide +kernel` (`Sugar.std_defs_check` in Proofs/SugarDetect.lean).
-/
import Theo.Proofs.SugarApply

namespace Theo

open Sugar

/-- the built-in definitions: the model's scan + extraction of the standard-macro text -/
theorem C04_stdDefs_def :
    stdDefs = (extractMacros (scan [(ConstGen.stdFileName, ConstGen.stdMacroText)] ConstGen.stdFileName).toks).macros :=
  rfl

/-- the standard text defines exactly two macros, `<ID> + <INT>` and `<ID> - <INT>`, of priority
    1000000, whose operator character is compared by text, with slots `$0 = <ID>`, `$1 = <INT>`, bodies
    `RUN __INC__ WITH $0 , $1 END` (line 1 of the standards file) / `RUN __DEC__ WITH $0 , $1 END`
    (line 2), and both patterns are accepted (conflict-free LR(1) tables) -/
theorem C04_stdDefs_shape :
    stdDefs.map (·.priority) = [1000000, 1000000] ∧
    stdDefs.map (fun m => m.rule.map (·.kind)) =
      [[Tok.ID_TEMP, Tok.NV_ID, Tok.INT_TEMP], [Tok.ID_TEMP, Tok.NV_ID, Tok.INT_TEMP]] ∧
    stdDefs.map (fun m => (m.rule[1]?).map (·.text)) = [some plus, some minus] ∧
    stdDefs.map (·.cc) = [[1], [1]] ∧
    stdDefs.map (·.tt) = [[0, 2], [0, 2]] ∧
    stdDefs.map (·.body) = [bodyOf incName 1, bodyOf decName 2] ∧
    stdDefs.map (fun m => (mkDetector m).usable) = [true, true] := by
  decide +kernel

/-- **The macro stage is the desugaring** (exact form, any token list).  With only the two built-in
    macros and a pass budget greater than the number of occurrences, macro application computes
    `desugarLA`, reports no error, and performs one rewrite per occurrence.

    The budget must be *greater*: the loop needs one more pass to see that nothing is left (C11). -/
theorem C04_sugar_apply_exact (inp : List Token) (passes : Nat) (hb : sugarCountLA inp < passes) :
    (applyMacros inp stdDefs passes).toks = desugarLA inp ∧
    (applyMacros inp stdDefs passes).errs = [] ∧
    (applyMacros inp stdDefs passes).rewrites = sugarCountLA inp := by
  obtain ⟨m1, m2, hd, h1, h2⟩ := std_defs
  rw [hd, (applyMacros_pair h1 h2 inp passes).1 hb]
  exact ⟨rfl, rfl, rfl⟩

/-- **The macro stage is the desugaring** (scanner output).  On a token stream as the scanner
    produces it — kinds up to `WITH`, end marker last — the result is the plain three-token
    rewriting `desugar`. -/
theorem C04_sugar_apply (inp : List Token) (passes : Nat) (hs : Scanned inp) (hb : sugarCount inp < passes) :
    (applyMacros inp stdDefs passes).toks = desugar inp ∧
    (applyMacros inp stdDefs passes).errs = [] ∧
    (applyMacros inp stdDefs passes).rewrites = sugarCount inp := by
  obtain ⟨e1, e2⟩ := desugarLA_eq hs
  rw [← e1, ← e2]
  exact C04_sugar_apply_exact inp passes (by rw [e2]; exact hb)

/-- the budget-exceeded case, honestly: with `1 ≤ passes ≤ number of occurrences` exactly `passes`
    occurrences (the leftmost ones) are rewritten and MACRO_APPLY_REACHED_MAX_PASSES is reported —
    also when `passes` equals the number of occurrences and the stream is in fact fully desugared -/
theorem C04_sugar_budget_exceeded (inp : List Token) (passes : Nat) (hp : 1 ≤ passes)
    (hb : passes ≤ sugarCountLA inp) :
    (applyMacros inp stdDefs passes).toks = sugarIter passes inp ∧
    (applyMacros inp stdDefs passes).errs = [maxPassesErr] ∧
    (applyMacros inp stdDefs passes).rewrites = passes ∧
    desugarLA (sugarIter passes inp) = desugarLA inp ∧
    sugarCountLA (sugarIter passes inp) + passes = sugarCountLA inp := by
  obtain ⟨m1, m2, hd, h1, h2⟩ := std_defs
  rw [hd, (applyMacros_pair h1 h2 inp passes).2 hp hb]
  exact ⟨rfl, rfl, rfl, (sugarIter_count passes inp hb).2, (sugarIter_count passes inp hb).1⟩

/-- "leftmost first and repeatedly" and "one pass from the left" are the same thing -/
theorem C04_desugar_eq_iterate (ts : List Token) (k : Nat) (hk : sugarCountLA ts ≤ k) :
    sugarIter k ts = desugarLA ts :=
  sugarIter_eq k ts hk

/-- a rewriting step never enables a new occurrence: it removes exactly one, and the rest of the
    pass is unaffected -/
theorem C04_sugar_step_inert (ts ts' : List Token) (h : sugarStep ts = some ts') :
    desugarLA ts' = desugarLA ts ∧ sugarCountLA ts = sugarCountLA ts' + 1 :=
  sugarStep_some h

/-- no occurrence: nothing happens -/
theorem C04_sugar_fixpoint (ts : List Token) (h : sugarStep ts = none) :
    desugarLA ts = ts ∧ sugarCountLA ts = 0 :=
  sugarStep_none h

theorem C04_desugarLA_eq (ts : List Token) (h : Scanned ts) :
    desugarLA ts = desugar ts ∧ sugarCountLA ts = sugarCount ts :=
  desugarLA_eq h

end Theo
