/-
  C04 (sugar) — "a source WITHOUT user macro definitions compiles successfully iff, AFTER THE
  BUILT-IN id+int / id-int SUGAR IS APPLIED, it is a sentence of the documented grammar and obeys
  the static rules".  Props/C04.lean and Props/C04Static.lean prove the grammar and static halves for
  the token stream that reaches the parser (`frontEnd`).  This file says what that stream is when
  the source defines no macro: the macro stage is exactly the desugaring of `Spec/Sugar.lean`.

  `stdDefs` is not written down: it is the result of the model's scanner and macro extraction on the
  regenerated constant `ConstGen.stdMacroText`; the closed facts about it are re-checked by
  `decide +kernel` (`Sugar.std_defs_check` in Proofs/SugarDetect.lean).
-/
import Theo.Proofs.SugarFront
import Theo.Proofs.SugarEnd
import Theo.Props.C04Static

namespace Theo

open Sugar

/-- the built-in definitions: the model's scan + extraction of the standard-macro text -/
theorem C04_stdDefs_def :
    stdDefs = (extractMacros (scan [(ConstGen.stdFileName, ConstGen.stdMacroText)] ConstGen.stdFileName).toks).macros :=
  rfl

/-- the standard text defines exactly two macros, `<ID> + <INT>` and `<ID> - <INT>`, of priority
    1000000, whose operator character is compared by text, with slots `$0 = <ID>`, `$1 = <INT>`, bodies
    `RUN __INC__ WITH $0 , $1 END` (line 1 of the standards file) / `RUN __DEC__ WITH $0 , $1 END`
    (line 2), and both patterns are accepted (conflict-free LR(1) tables) -/
theorem C04_stdDefs_shape :
    stdDefs.map (·.priority) = [1000000, 1000000] ∧
    stdDefs.map (fun m => m.rule.map (·.kind)) =
      [[Tok.ID_TEMP, Tok.NV_ID, Tok.INT_TEMP], [Tok.ID_TEMP, Tok.NV_ID, Tok.INT_TEMP]] ∧
    stdDefs.map (fun m => (m.rule[1]?).map (·.text)) = [some plus, some minus] ∧
    stdDefs.map (·.cc) = [[1], [1]] ∧
    stdDefs.map (·.tt) = [[0, 2], [0, 2]] ∧
    stdDefs.map (·.body) = [bodyOf incName 1, bodyOf decName 2] ∧
    stdDefs.map (fun m => (mkDetector m).usable) = [true, true] := by
  decide +kernel

/-- **The macro stage is the desugaring** (exact form, any token list).  With only the two built-in
    macros and a pass budget greater than the number of occurrences, macro application computes
    `desugarLA`, reports no error, and performs one rewrite per occurrence.

    The budget must be *greater*: the loop needs one more pass to see that nothing is left (C11). -/
theorem C04_sugar_apply_exact (inp : List Token) (passes : Nat) (hb : sugarCountLA inp < passes) :
    (applyMacros inp stdDefs passes).toks = desugarLA inp ∧
    (applyMacros inp stdDefs passes).errs = [] ∧
    (applyMacros inp stdDefs passes).rewrites = sugarCountLA inp := by
  obtain ⟨m1, m2, hd, h1, h2⟩ := std_defs
  rw [hd, (applyMacros_pair h1 h2 inp passes).1 hb]
  exact ⟨rfl, rfl, rfl⟩

/-- **The macro stage is the desugaring** (scanner output).  On a token stream as the scanner
    produces it — kinds up to `WITH`, end marker last — the result is the plain three-token
    rewriting `desugar`. -/
theorem C04_sugar_apply (inp : List Token) (passes : Nat) (hs : Scanned inp) (hb : sugarCount inp < passes) :
    (applyMacros inp stdDefs passes).toks = desugar inp ∧
    (applyMacros inp stdDefs passes).errs = [] ∧
    (applyMacros inp stdDefs passes).rewrites = sugarCount inp := by
  obtain ⟨e1, e2⟩ := desugarLA_eq hs
  rw [← e1, ← e2]
  exact C04_sugar_apply_exact inp passes (by rw [e2]; exact hb)

/-- the budget-exceeded case, honestly: with `1 ≤ passes ≤ number of occurrences` exactly `passes`
    occurrences (the leftmost ones) are rewritten and MACRO_APPLY_REACHED_MAX_PASSES is reported —
    also when `passes` equals the number of occurrences and the stream is in fact fully desugared -/
theorem C04_sugar_budget_exceeded (inp : List Token) (passes : Nat) (hp : 1 ≤ passes)
    (hb : passes ≤ sugarCountLA inp) :
    (applyMacros inp stdDefs passes).toks = sugarIter passes inp ∧
    (applyMacros inp stdDefs passes).errs = [maxPassesErr] ∧
    (applyMacros inp stdDefs passes).rewrites = passes ∧
    desugarLA (sugarIter passes inp) = desugarLA inp ∧
    sugarCountLA (sugarIter passes inp) + passes = sugarCountLA inp := by
  obtain ⟨m1, m2, hd, h1, h2⟩ := std_defs
  rw [hd, (applyMacros_pair h1 h2 inp passes).2 hp hb]
  exact ⟨rfl, rfl, rfl, (sugarIter_count passes inp hb).2, (sugarIter_count passes inp hb).1⟩

/-- "leftmost first and repeatedly" and "one pass from the left" are the same thing -/
theorem C04_desugar_eq_iterate (ts : List Token) (k : Nat) (hk : sugarCountLA ts ≤ k) :
    sugarIter k ts = desugarLA ts :=
  sugarIter_eq k ts hk

/-- a rewriting step never enables a new occurrence: it removes exactly one, and the rest of the
    pass is unaffected -/
theorem C04_sugar_step_inert (ts ts' : List Token) (h : sugarStep ts = some ts') :
    desugarLA ts' = desugarLA ts ∧ sugarCountLA ts = sugarCountLA ts' + 1 :=
  sugarStep_some h

/-- no occurrence: nothing happens -/
theorem C04_sugar_fixpoint (ts : List Token) (h : sugarStep ts = none) :
    desugarLA ts = ts ∧ sugarCountLA ts = 0 :=
  sugarStep_none h

theorem C04_desugarLA_eq (ts : List Token) (h : Scanned ts) :
    desugarLA ts = desugar ts ∧ sugarCountLA ts = sugarCount ts :=
  desugarLA_eq h

/-! ### the whole front end of `Theo::parse` on a source without macro definitions

  `frontFiles files main` is the file table `Theo::parse` scans (standard file added, include phrase
  in front of the main file); `userToks files main` are the tokens the scanner delivers behind the
  standard file's: the main file's own tokens (with its includes) and the end marker.

  Hypotheses: `hstd` — the caller supplies no file named `__standards__` (otherwise that file
  replaces the built-in definitions); `hmain` — the main file exists; `hnodef` — no `DEFINE` token in
  the user's tokens: the source defines no macro. -/

/-- `frontEnd` (Props/C04Static.lean) is scanner, extraction, application on `frontFiles` -/
theorem C04_frontEnd_eq (files : Files) (main : Bytes) :
    frontEnd files main =
      (let sr := scan (frontFiles files main) main
       let mer := extractMacros sr.toks
       let mar := applyMacros mer.toks mer.macros ConstGen.macroPasses
       (mar.toks, sr.errs ++ mer.errs ++ mar.errs)) := rfl

/-- the scanner's part: standard tokens first, then the user's; these are scanner output
    (`Scanned`), namely the tokens of the main file's own text followed by the end marker -/
theorem C04_front_scan (files : Files) (main content : Bytes)
    (hstd : files.has ConstGen.stdFileName = false) (hmain : files.get? main = some content) :
    (scan (frontFiles files main) main).toks = stdBody ++ userToks files main ∧
    (∃ eof : Token, eof.kind = Tok.T_EOF ∧ userToks files main = (userScan files main content).toks ++ [eof]) ∧
    (scan (frontFiles files main) main).errs = (userScan files main content).errs ∧
    Scanned (userToks files main) ∧ EndMarked (userToks files main) := by
  obtain ⟨h1, ⟨eof, he, hu⟩, hne, hsc⟩ := userToks_eq hstd hmain
  obtain ⟨_, _, _, herr⟩ := front_scan hstd hmain
  exact ⟨h1, ⟨eof, he, hu⟩, herr, hsc, _, eof, hu, he, hne⟩

/-- extraction: exactly the built-in definitions, no error, the user's tokens unchanged -/
theorem C04_front_extract (files : Files) (main content : Bytes)
    (hstd : files.has ConstGen.stdFileName = false) (hmain : files.get? main = some content)
    (hnodef : ∀ t ∈ userToks files main, t.kind ≠ Tok.DEFINE) :
    extractMacros (scan (frontFiles files main) main).toks = ⟨[], userToks files main, stdDefs⟩ :=
  front_extract hstd hmain hnodef

/-- **C04, sugar clause, for the front end.**  For a source without macro definitions whose number
    of sugar occurrences is below the pass budget (1024), the token stream that reaches the parser
    is the desugared source, and the only front-end errors are the scanner's. -/
theorem C04_sugar_frontEnd (files : Files) (main content : Bytes)
    (hstd : files.has ConstGen.stdFileName = false) (hmain : files.get? main = some content)
    (hnodef : ∀ t ∈ userToks files main, t.kind ≠ Tok.DEFINE)
    (hb : sugarCount (userToks files main) < ConstGen.macroPasses) :
    (frontEnd files main).1 = desugar (userToks files main) ∧
    (frontEnd files main).2 = (scan (frontFiles files main) main).errs ∧
    EndMarked (frontEnd files main).1 := by
  obtain ⟨_, _, _, hsc, hem⟩ := C04_front_scan files main content hstd hmain
  have hx := front_extract hstd hmain hnodef
  obtain ⟨a1, a2, _⟩ := C04_sugar_apply (userToks files main) ConstGen.macroPasses hsc hb
  have h1 : (frontEnd files main).1 = desugar (userToks files main) := by
    rw [C04_frontEnd_eq]; simp only [hx]; exact a1
  refine ⟨h1, ?_, ?_⟩
  · rw [C04_frontEnd_eq]; simp only [hx, a2, List.append_nil]
  · rw [h1, ← (desugarLA_eq hsc).1]
    exact desugarLA_endMarked _ hem

/-- the budget-exceeded case for the front end (C11): with 1024 or more occurrences the first 1024
    are rewritten, MACRO_APPLY_REACHED_MAX_PASSES is reported, and compilation fails -/
theorem C04_sugar_frontEnd_budget (files : Files) (main content : Bytes)
    (hstd : files.has ConstGen.stdFileName = false) (hmain : files.get? main = some content)
    (hnodef : ∀ t ∈ userToks files main, t.kind ≠ Tok.DEFINE)
    (hb : ConstGen.macroPasses ≤ sugarCount (userToks files main)) :
    (frontEnd files main).1 = sugarIter ConstGen.macroPasses (userToks files main) ∧
    (frontEnd files main).2 = (scan (frontFiles files main) main).errs ++ [maxPassesErr] ∧
    (compile files main).ok = false := by
  obtain ⟨_, _, _, hsc, hem⟩ := C04_front_scan files main content hstd hmain
  have hx := front_extract hstd hmain hnodef
  obtain ⟨a1, a2, _⟩ := C04_sugar_budget_exceeded (userToks files main) ConstGen.macroPasses (by decide)
    (by rw [(desugarLA_eq hsc).2]; exact hb)
  have h1 : (frontEnd files main).1 = sugarIter ConstGen.macroPasses (userToks files main) := by
    rw [C04_frontEnd_eq]; simp only [hx]; exact a1
  have h2 : (frontEnd files main).2 = (scan (frontFiles files main) main).errs ++ [maxPassesErr] := by
    rw [C04_frontEnd_eq]; simp only [hx, a2, List.append_nil]
  refine ⟨h1, h2, ?_⟩
  have hem' : EndMarked (frontEnd files main).1 := by rw [h1]; exact sugarIter_endMarked _ _ hem
  cases hc : (compile files main).ok with
  | false => rfl
  | true =>
    have := ((C04_compile_iff files main hem').1 hc).1
    rw [h2] at this
    simp at this

/-- **C04 for sources without macro definitions**: such a source compiles successfully iff the
    scanner reports no error and, after the built-in sugar is applied, the token stream is a sentence
    of the documented grammar and the parsed program obeys the static rules. -/
theorem C04_compile_iff_sugar (files : Files) (main content : Bytes)
    (hstd : files.has ConstGen.stdFileName = false) (hmain : files.get? main = some content)
    (hnodef : ∀ t ∈ userToks files main, t.kind ≠ Tok.DEFINE)
    (hb : sugarCount (userToks files main) < ConstGen.macroPasses) :
    (compile files main).ok = true ↔
      ((scan (frontFiles files main) main).errs = [] ∧
        Derives langGrammar (.n LangNT.S) (bodyKinds (desugar (userToks files main))) ∧
        staticOK (toSource (parseTokens (desugar (userToks files main))).1) = true) := by
  obtain ⟨h1, h2, hem⟩ := C04_sugar_frontEnd files main content hstd hmain hnodef hb
  rw [C04_compile_iff files main hem, h1, h2]

/-! ### non-vacuity -/

namespace C04SugarDemo
def tk (k : Nat) (s : Bytes) : Token := ⟨k, s, [109], 1⟩

/-- `x0 := x1 + 2 ; x3 := x3 - 1` and the end marker -/
def src : List Token :=
  [tk Tok.ID [120, 48], tk Tok.ASSIGN [58, 61], tk Tok.ID [120, 49], tk Tok.NV_ID [43], tk Tok.INT [50],
   tk Tok.PROGSEP [59],
   tk Tok.ID [120, 51], tk Tok.ASSIGN [58, 61], tk Tok.ID [120, 51], tk Tok.NV_ID [45], tk Tok.INT [49],
   tk Tok.T_EOF [69, 79, 70]]

/-- `x0 := RUN __INC__ WITH x1 , 2 END ; x3 := RUN __DEC__ WITH x3 , 1 END`: the inserted tokens are
    positioned on line 1 / line 2 of the standards file, `x1`, `2`, `x3`, `1` keep their own positions -/
example : desugar src =
    [tk Tok.ID [120, 48], tk Tok.ASSIGN [58, 61]] ++ call incName 1 (tk Tok.ID [120, 49]) (tk Tok.INT [50]) ++
    [tk Tok.PROGSEP [59], tk Tok.ID [120, 51], tk Tok.ASSIGN [58, 61]] ++
      call decName 2 (tk Tok.ID [120, 51]) (tk Tok.INT [49]) ++ [tk Tok.T_EOF [69, 79, 70]] ∧
    sugarCount src = 2 := by decide

theorem src_scanned : Scanned src :=
  ⟨by decide, src.dropLast, tk Tok.T_EOF [69, 79, 70], by decide, rfl⟩

/-- the hypotheses of `C04_sugar_apply` are satisfiable, with the real budget -/
example : (applyMacros src stdDefs ConstGen.macroPasses).toks = desugar src ∧
    (applyMacros src stdDefs ConstGen.macroPasses).errs = [] ∧
    (applyMacros src stdDefs ConstGen.macroPasses).rewrites = 2 :=
  C04_sugar_apply src ConstGen.macroPasses src_scanned (by decide)

/-- with budget 2 (= the number of occurrences) the stream is fully desugared but the error is
    reported; with budget 1 only the leftmost occurrence is rewritten -/
example : (applyMacros src stdDefs 2).toks = desugar src ∧ (applyMacros src stdDefs 2).errs = [maxPassesErr] := by
  obtain ⟨h1, h2, _⟩ := C04_sugar_budget_exceeded src 2 (by decide) (by decide)
  exact ⟨h1.trans (by decide), h2⟩

example : (applyMacros src stdDefs 1).toks =
    [tk Tok.ID [120, 48], tk Tok.ASSIGN [58, 61]] ++ call incName 1 (tk Tok.ID [120, 49]) (tk Tok.INT [50]) ++ src.drop 5 := by
  obtain ⟨h1, _⟩ := C04_sugar_budget_exceeded src 1 (by decide) (by decide)
  exact h1.trans (by decide)

/-- `a + 1 + 2`: only `a + 1` is sugar; the rewrite does not enable `END + 2` -/
example : desugar [tk Tok.ID [97], tk Tok.NV_ID [43], tk Tok.INT [49], tk Tok.NV_ID [43], tk Tok.INT [50],
      tk Tok.T_EOF [69, 79, 70]] =
    call incName 1 (tk Tok.ID [97]) (tk Tok.INT [49]) ++
      [tk Tok.NV_ID [43], tk Tok.INT [50], tk Tok.T_EOF [69, 79, 70]] := by decide

/-- outside scanner output the lookahead matters: `a + 1` with nothing behind it is not rewritten
    by the model (`desugarLA`), while the plain `desugar` rewrites it -/
example : desugarLA [tk Tok.ID [97], tk Tok.NV_ID [43], tk Tok.INT [49]] =
      [tk Tok.ID [97], tk Tok.NV_ID [43], tk Tok.INT [49]] ∧
    desugar [tk Tok.ID [97], tk Tok.NV_ID [43], tk Tok.INT [49]] =
      call incName 1 (tk Tok.ID [97]) (tk Tok.INT [49]) ∧
    (applyMacros [tk Tok.ID [97], tk Tok.NV_ID [43], tk Tok.INT [49]] stdDefs 5).toks =
      [tk Tok.ID [97], tk Tok.NV_ID [43], tk Tok.INT [49]] := by
  refine ⟨by decide, by decide, ?_⟩
  exact (C04_sugar_apply_exact _ 5 (by decide)).1.trans (by decide)

/-- the front end on the file `m` = "x0 := x1 + 2 ; x3 := x3 - 1": all hypotheses of
    `C04_sugar_frontEnd` hold, and the user's tokens are `src` -/
def files : Files := [([109], [120, 48, 32, 58, 61, 32, 120, 49, 32, 43, 32, 50, 32, 59, 32,
  120, 51, 32, 58, 61, 32, 120, 51, 32, 45, 32, 49])]

theorem files_userToks : userToks files [109] = src := by decide +kernel

example : (frontEnd files [109]).1 = desugar src ∧ (frontEnd files [109]).2 = [] := by
  obtain ⟨h1, h2, _⟩ := C04_sugar_frontEnd files [109] _ (by decide) rfl
    (by rw [files_userToks]; decide) (by rw [files_userToks]; decide)
  rw [files_userToks] at h1
  exact ⟨h1, h2.trans (by decide +kernel)⟩

end C04SugarDemo

end Theo
