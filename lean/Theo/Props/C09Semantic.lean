/-
  C09 (semantic side) — a rewriting step replaces a token range that *derives from the macro's
  pattern*, each slot filled by a complete identifier / integer / value / argument list /
  statement sequence; and when the pattern is accepted, every such range is found.
-/
import Theo.Proofs.DetectorProofs

namespace Theo

/-- what a detection means: the matched tokens are a prefix of the stream deriving from the
    pattern, `split` is the list of the yields of the pattern's symbols in pattern order
    (so `split[i]` for a slot is exactly the token range that fills it), `total` has the
    same length as the matched range -/
theorem C09_match_derives (m : MacroDef) (inp : List Token) (a : Accum)
    (h : detectAt (mkDetector m) inp = some a) :
    ∃ (k : Nat) (cs : Forest),
      (Tree.node DetGen.macroNT k cs).Valid (detectorGrammar m) ∧
      cs.roots = m.rule.map ruleSym ∧
      a.split.flatten = inp.take a.total.length ∧
      a.total.length ≤ inp.length ∧
      a.split.map (fun ts => ts.map (·.kind)) = cs.toList.map Tree.yield :=
  DetectorProofs.match_derives m inp a h

/-- literal identifiers, integers and operator characters of the pattern are additionally
    compared by text -/
theorem C09_text_constraints (m : MacroDef) (split : List (List Token)) (h : checkConstraint m split = true)
    (ci : Nat) (hci : ci ∈ m.cc) :
    ∃ req f, m.rule[ci]? = some req ∧ split[ci]? = some [f] ∧ f.text = req.text :=
  DetectorProofs.text_constraints m split h ci hci

/-- completeness: if the pattern is accepted (no conflict) and some prefix of the stream, followed
    by at least one more token, derives from the pattern, the detector finds it — with exactly
    that split -/
theorem C09_match_complete (m : MacroDef)
    (hr : ∀ t ∈ m.rule, t.kind ≠ Tok.T_EOF ∧ t.kind ≤ Tok.UNKNOWN)
    (hf : (genTables (detectorGrammar m) DetGen.macroNT Tok.T_EOF true detectorStateFuel).2 < detectorStateFuel)
    (hc : (mkDetector m).tables.conflicts = [])
    (k : Nat) (cs : Forest) (hv : (Tree.node DetGen.macroNT k cs).Valid (detectorGrammar m))
    (inp : List Token) (n : Nat) (hn : n < inp.length)
    (hy : (inp.take n).map (·.kind) = cs.yield)
    (hk : ∀ t ∈ inp, t.kind ≤ Tok.WITH) :
    ∃ a, detectAt (mkDetector m) inp = some a ∧ a.total.length = n ∧
      a.split.map (fun ts => ts.map (·.kind)) = cs.toList.map Tree.yield :=
  DetectorProofs.match_complete m hf hc k cs hv inp n hn hy hk

end Theo
