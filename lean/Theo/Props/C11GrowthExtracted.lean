/-
  C11, growth clause, for the definitions actually produced by `extractMacros`.

  `C11_linear_of_numbers` needs `m.tt.Nodup`; for extracted definitions this is a theorem
  (`extracted_tt_nodup`, Proofs/ExtractTT: the slot table is a strictly increasing list of rule
  positions).  So for extracted definitions linearity is a purely textual condition — no `$n`
  number is written twice in a body (`slotNumbers.Nodup`) — and under it the growth bound holds.
-/
import Theo.Proofs.ExtractTT
import Theo.Props.C11Growth

namespace Theo

/-- the slot table of an extracted definition is strictly increasing and points into the rule -/
theorem C11_extracted_tt_increasing (toks : List Token) :
    ∀ m ∈ (extractMacros toks).macros,
      m.tt.Pairwise (· < ·) ∧ ∀ i ∈ m.tt, i < m.rule.length :=
  extracted_ttInc toks

/-- the remark of `C11_linear_of_numbers`, proved: no repeats in the slot table -/
theorem C11_extracted_tt_nodup (toks : List Token) :
    ∀ m ∈ (extractMacros toks).macros, m.tt.Nodup :=
  extracted_tt_nodup toks

/-- for an extracted definition linearity can be read off the body text -/
theorem C11_extracted_linear_of_numbers (toks : List Token) :
    ∀ m ∈ (extractMacros toks).macros, m.slotNumbers.Nodup → m.linearBody :=
  fun m hm hn => C11_linear_of_numbers m (extracted_tt_nodup toks m hm) hn

/-- growth clause for extracted definitions: if no body mentions a `$n` number twice, the stream
    grows by at most `rewrites × maxBody` tokens … -/
theorem C11_growth_extracted (toks inp : List Token) (passes : Nat)
    (h : ∀ m ∈ (extractMacros toks).macros, m.slotNumbers.Nodup) :
    (applyMacros inp (extractMacros toks).macros passes).toks.length ≤
      inp.length + (applyMacros inp (extractMacros toks).macros passes).rewrites *
        maxBody (extractMacros toks).macros :=
  C11_growth_linear inp _ passes
    (fun m hm => C11_extracted_linear_of_numbers toks m hm (h m hm))

/-- … hence by at most `budget × maxBody` tokens -/
theorem C11_growth_extracted_budget (toks inp : List Token) (passes : Nat)
    (h : ∀ m ∈ (extractMacros toks).macros, m.slotNumbers.Nodup) :
    (applyMacros inp (extractMacros toks).macros passes).toks.length ≤
      inp.length + passes * maxBody (extractMacros toks).macros :=
  C11_growth_linear_budget inp _ passes
    (fun m hm => C11_extracted_linear_of_numbers toks m hm (h m hm))

/-- the instance the compiler runs: the macros are applied to the stream that remains after
    extraction -/
theorem C11_growth_extracted_self (toks : List Token) (passes : Nat)
    (h : ∀ m ∈ (extractMacros toks).macros, m.slotNumbers.Nodup) :
    (applyMacros (extractMacros toks).toks (extractMacros toks).macros passes).toks.length ≤
      (extractMacros toks).toks.length + passes * maxBody (extractMacros toks).macros :=
  C11_growth_extracted_budget toks _ passes h

/-! ### non-vacuity: a source whose extracted definition has two slots -/

namespace C11GrowthExample

/-- `DEFINE ( <V> , <V> ) AS ( $1 , $0 ) END DEFINE  x := ( a , b )` -/
def swapSrc : List Token :=
  [tk Tok.DEFINE [], tk Tok.PAREN_OPEN [40], tk Tok.VALUE_TEMP [60, 86, 62], tk Tok.ARGSEP [44],
   tk Tok.VALUE_TEMP [60, 86, 62], tk Tok.PAREN_CLOSE [41], tk Tok.AS [],
   tk Tok.PAREN_OPEN [40], tk Tok.INSERTION [36, 49], tk Tok.ARGSEP [44],
   tk Tok.INSERTION [36, 48], tk Tok.PAREN_CLOSE [41], tk Tok.END_DEFINE [],
   tk Tok.ID [120], tk Tok.ASSIGN [58, 61], tk Tok.PAREN_OPEN [40], tk Tok.ID [97],
   tk Tok.ARGSEP [44], tk Tok.ID [98], tk Tok.PAREN_CLOSE [41], tk Tok.T_EOF []]

/-- one definition is extracted, without error; its slot table is `[1, 3]`, the body mentions the
    numbers `1, 0` (no repeat) and inserts the rule positions `3, 1` -/
theorem swapSrc_extracted :
    (extractMacros swapSrc).errs = [] ∧
    (extractMacros swapSrc).macros.length = 1 ∧
    (extractMacros swapSrc).macros.map (fun m => m.tt) = [[1, 3]] ∧
    (extractMacros swapSrc).macros.map (fun m => m.rule.length) = [5] ∧
    (extractMacros swapSrc).macros.map (fun m => m.slotNumbers) = [[1, 0]] ∧
    (extractMacros swapSrc).macros.map (fun m => m.slotRefs) = [[3, 1]] ∧
    (extractMacros swapSrc).toks.length = 8 ∧
    maxBody (extractMacros swapSrc).macros = 5 := by
  decide +kernel

/-- the hypothesis of the growth theorems holds for it -/
theorem swapSrc_numbers_nodup : ∀ m ∈ (extractMacros swapSrc).macros, m.slotNumbers.Nodup := by
  decide +kernel

example : ∀ m ∈ (extractMacros swapSrc).macros, m.linearBody :=
  fun m hm => C11_extracted_linear_of_numbers swapSrc m hm (swapSrc_numbers_nodup m hm)

example (passes : Nat) :
    (applyMacros (extractMacros swapSrc).toks (extractMacros swapSrc).macros passes).toks.length ≤
      8 + passes * 5 := by
  have h := C11_growth_extracted_self swapSrc passes swapSrc_numbers_nodup
  rwa [swapSrc_extracted.2.2.2.2.2.2.1, swapSrc_extracted.2.2.2.2.2.2.2] at h

/-- the definition is usable and does rewrite: `( a , b )` becomes `( b , a )`, then `( a , b )`, … -/
example : (extractMacros swapSrc).macros.map (fun m => (mkDetector m).usable) = [true] ∧
    (List.range 4).map (fun p =>
      ((applyMacros (extractMacros swapSrc).toks (extractMacros swapSrc).macros p).rewrites,
       (applyMacros (extractMacros swapSrc).toks (extractMacros swapSrc).macros p).toks.length)) =
      [(0, 8), (1, 8), (2, 8), (3, 8)] := by
  decide +kernel

end C11GrowthExample

end Theo
