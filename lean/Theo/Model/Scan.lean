/-
  Model of Compiler/src/scan.cpp: include handling, scanner errors, final EOF token.
  Organised as a recursion over the include tree instead of an explicit scanner stack
  (DESIGN 2.3); `depth` is fuel whose sufficiency is C15.
-/
import Theo.Model.Lexer
import Theo.Generated.Errors

namespace Theo

structure PErr where
  kind : Nat
  file : Bytes
  line : Int
  req : Bytes := []
  deriving Repr, DecidableEq, Inhabited

abbrev Files := List (Bytes × Bytes)

def Files.get? (fs : Files) (name : Bytes) : Option Bytes :=
  (fs.find? (fun e => e.1 = name)).map (·.2)

def Files.has (fs : Files) (name : Bytes) : Bool := (fs.get? name).isSome

/-- strip the quotes of an `FNAME` token -/
def unquote (t : Bytes) : Bytes := (t.drop 1).take (t.length - 2)

structure ScanOut where
  toks : List Token
  errs : List PErr
  fuelOut : Bool := false      -- never set when `depth` was sufficient (C15)
  deriving Repr, DecidableEq, Inhabited

def ScanOut.append (a b : ScanOut) : ScanOut :=
  ⟨a.toks ++ b.toks, a.errs ++ b.errs, a.fuelOut || b.fuelOut⟩

/-- the tokens of file `fname` (already lexed into the list), with its includes spliced in by
    `sub active name content`; `active` = files currently being included (the scanner stack),
    `fname` among them.  Structural recursion over the token list. -/
def scanToksWith (sub : List Bytes → Bytes → Bytes → ScanOut) (files : Files) (active : List Bytes)
    (fname : Bytes) : List RawTok → ScanOut
  | [] => ⟨[], [], false⟩
  | [t] =>
    if t.kind = Tok.INCLUDE then
      -- end of file after `include`: the stale INCLUDE token supplies the line
      ⟨[], [⟨PErrT.EXPECTED_FILENAME, fname, t.line, []⟩], false⟩
    else ⟨[⟨t.kind, t.text, fname, t.line⟩], [], false⟩
  | t :: n :: rest' =>
    if t.kind = Tok.INCLUDE then
      if n.kind ≠ Tok.FNAME then
        -- the offending token is dropped
        (ScanOut.mk [] [⟨PErrT.EXPECTED_FILENAME, fname, n.line, []⟩] false).append
          (scanToksWith sub files active fname rest')
      else
        let nfn := unquote n.text
        (match files.get? nfn with
         | none => ScanOut.mk [] [⟨PErrT.FILE_NOT_FOUND, fname, n.line, nfn⟩] false
         | some content =>
           if active.contains nfn then ScanOut.mk [] [⟨PErrT.RECURSIVE_INCLUDE, fname, n.line, []⟩] false
           else sub active nfn content).append
          (scanToksWith sub files active fname rest')
    else
      (ScanOut.mk [⟨t.kind, t.text, fname, t.line⟩] [] false).append
        (scanToksWith sub files active fname (n :: rest'))

/-- push a scanner for `fname`; `depth` bounds the nesting of includes (structural recursion) -/
def scanFile : Nat → Files → List Bytes → Bytes → Bytes → ScanOut
  | 0, _, _, _, _ => ⟨[], [], true⟩
  | d + 1, files, active, fname, content =>
    scanToksWith (fun act n c => scanFile d files act n c) files (fname :: active) fname (lexBuffer content)

/-- the tokens of a file being scanned with `d` levels of nesting still available -/
def scanToks (files : Files) (d : Nat) (active : List Bytes) (fname : Bytes) (ts : List RawTok) : ScanOut :=
  scanToksWith (fun act n c => scanFile d files act n c) files active fname ts

/-- `Theo::scan` (with the F3 repair: an empty scan still yields one EOF token) -/
def scan (files : Files) (main : Bytes) : ScanOut :=
  let body : ScanOut :=
    match files.get? main with
    | some content => scanFile (files.length + 1) files [] main content
    | none => ⟨[], [⟨PErrT.MAIN_FILE_NOT_FOUND, bDash, -1, main⟩], false⟩
  let eof : Token :=
    match body.toks.getLast? with
    | some t => ⟨Tok.T_EOF, bEOF, t.file, t.line⟩
    | none =>
      if files.has main then ⟨Tok.T_EOF, bEOF, main, 1⟩
      else ⟨Tok.T_EOF, bEOF, bDash, -1⟩
  { body with toks := body.toks ++ [eof] }

end Theo
