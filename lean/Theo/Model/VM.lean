/-
  Model of VM/src/vm.cpp (+ the Program tables of VM/include/program.hpp).

  Field by field the state mirrors `class VM`.  Every point where the C++ has
  undefined behaviour (out-of-range vector access, `back()` on an empty vector)
  is an explicit `Fault`; "the C++ is defined here" is `step … ≠ .error _`.
-/
import Theo.Model.Basic

namespace Theo

inductive Instr where
  | potBreak | brk | halt
  | add (t s c : Int)
  | jmp (off : Int)
  | jmpc (off s : Int)
  | prepare (count idx tgt : Int)
  | arg (t s : Int)
  | exec (entry : Int)
  | ret (s : Int)
  | const (t c : Int)
  | test (t a b : Int)
  deriving Repr, DecidableEq, Inhabited

structure BreakPoint where
  file : Bytes
  line : Int
  deriving Repr, DecidableEq, Inhabited

/-- `operator<(BreakPoint, BreakPoint)` of program.cpp -/
def BreakPoint.lt (a b : BreakPoint) : Bool :=
  if bytesLt a.file b.file then true
  else if bytesLt b.file a.file then false
  else a.line < b.line

structure StackMap where
  funcName : Bytes
  map : List (Int × Bytes)          -- register ↦ name, in key order
  deriving Repr, DecidableEq, Inhabited

structure Program where
  code : List Instr
  stackMaps : List StackMap
  potBreaks : List (BreakPoint × List Int)   -- location ↦ sites (std::map, key order)
  lineInfo : List (Int × BreakPoint)         -- site ↦ location (std::map, key order)
  deriving Repr, DecidableEq, Inhabited

def Program.sitesOf (p : Program) (bp : BreakPoint) : Option (List Int) :=
  (p.potBreaks.find? (fun e => e.1 = bp)).map (·.2)

def Program.lineAt (p : Program) (i : Int) : Option BreakPoint :=
  (p.lineInfo.find? (fun e => e.1 = i)).map (·.2)

/-- `Program::getAvailableBreakpoints` -/
def Program.available (p : Program) : List BreakPoint := p.potBreaks.map (·.1)

inductive Fault where
  | oobData | oobCode | stackUnderflow | badStackMap
  deriving Repr, DecidableEq, Inhabited

structure Act where
  dataStart : Nat
  segSize : Int
  retTarget : Int
  retAddr : Int
  dbg : Int
  deriving Repr, DecidableEq, Inhabited

structure VM where
  stepping : Bool
  ip : Int
  code : List Instr           -- `this->code.code`: only opcodes at sites ever change
  data : List Int
  stack : List Act            -- head = top (`stack.back()`)
  enabled : List BreakPoint   -- std::set, kept sorted by `BreakPoint.lt`
  deriving Repr, DecidableEq, Inhabited

def VM.mk' (p : Program) : VM :=
  { stepping := false, ip := 0, code := p.code, data := [], stack := [], enabled := [] }

def rd (d : List Int) (i : Int) : Except Fault Int :=
  if i < 0 then .error .oobData else
  match d[i.toNat]? with
  | some v => .ok v
  | none => .error .oobData

def wr (d : List Int) (i : Int) (v : Int) : Except Fault (List Int) :=
  if i < 0 then .error .oobData else
  if i.toNat < d.length then .ok (d.set i.toNat v) else .error .oobData

def fetch (code : List Instr) (ip : Int) : Except Fault Instr :=
  if ip < 0 then .error .oobCode else
  match code[ip.toNat]? with
  | some i => .ok i
  | none => .error .oobCode

/-- `ADD_CONST` after the F7 repair: computed in a wider type, clamped to `[0, INT_MAX]`. -/
def addClamp (v c : Int) : Int := min (max (v + c) 0) INT_MAX

/-- `VM::executeSingle`: new state and the returned flag. -/
def step (vm : VM) : Except Fault (VM × Bool) := do
  let i ← fetch vm.code vm.ip
  match i with
  | .potBreak => pure ({ vm with ip := vm.ip + 1 }, vm.stepping)
  | .brk => pure ({ vm with ip := vm.ip + 1 }, true)
  | .halt => pure (vm, true)
  | .add t s c =>
    match vm.stack with
    | [] => .error .stackUnderflow
    | a :: _ =>
      let v ← rd vm.data (a.dataStart + s)
      let d ← wr vm.data (a.dataStart + t) (addClamp v c)
      pure ({ vm with data := d, ip := vm.ip + 1 }, false)
  | .test t x y =>
    match vm.stack with
    | [] => .error .stackUnderflow
    | a :: _ =>
      let v1 ← rd vm.data (a.dataStart + x)
      let v2 ← rd vm.data (a.dataStart + y)
      let d ← wr vm.data (a.dataStart + t) (if v1 = v2 then 0 else 1)
      pure ({ vm with data := d, ip := vm.ip + 1 }, false)
  | .const t c =>
    match vm.stack with
    | [] => .error .stackUnderflow
    | a :: _ =>
      let d ← wr vm.data (a.dataStart + t) c
      pure ({ vm with data := d, ip := vm.ip + 1 }, false)
  | .jmp off => pure ({ vm with ip := vm.ip + off }, false)
  | .jmpc off s =>
    match vm.stack with
    | [] => .error .stackUnderflow
    | a :: _ =>
      let v ← rd vm.data (a.dataStart + s)
      pure ({ vm with ip := if v = 0 then vm.ip + off else vm.ip + 1 }, false)
  | .prepare cnt idx tgt =>
    pure ({ vm with data := vm.data ++ List.replicate cnt.toNat 0,
                    stack := ⟨vm.data.length, cnt, tgt, -1, idx⟩ :: vm.stack,
                    ip := vm.ip + 1 }, false)
  | .arg t s =>
    match vm.stack with
    | a :: b :: _ =>
      let v ← rd vm.data (b.dataStart + s)
      let d ← wr vm.data (a.dataStart + t) v
      pure ({ vm with data := d, ip := vm.ip + 1 }, false)
    | _ => .error .stackUnderflow
  | .exec entry =>
    match vm.stack with
    | [] => .error .stackUnderflow
    | a :: rest =>
      pure ({ vm with stack := { a with retAddr := vm.ip + 1 } :: rest, ip := entry }, false)
  | .ret s =>
    match vm.stack with
    | a :: b :: rest =>
      let v ← rd vm.data (a.dataStart + s)
      let d ← wr vm.data (b.dataStart + a.retTarget) v
      -- F6 repair: the callee's frame is released
      pure ({ vm with data := d.take a.dataStart, stack := b :: rest, ip := a.retAddr }, false)
    | _ => .error .stackUnderflow

/-- `VM::execute` with explicit fuel (the C++ loop has none); `none` = fuel exhausted. -/
def execFuel : Nat → VM → Except Fault (Option VM)
  | 0, _ => pure none
  | n + 1, vm => do
    let (vm', stop) ← step vm
    if stop then pure (some vm') else execFuel n vm'

/-- the graph of `VM::execute` -/
inductive ExecTo : VM → VM → Prop where
  | stop {vm vm'} : step vm = .ok (vm', true) → ExecTo vm vm'
  | more {vm vm' vm''} : step vm = .ok (vm', false) → ExecTo vm' vm'' → ExecTo vm vm''

/-- `VM::isDone` -/
def VM.isDone (vm : VM) : Except Fault Bool := do
  let i ← fetch vm.code vm.ip
  pure (i = .halt)

/-- `VM::getCurrentBreak` (`none` stands for `{"none", -1}`) -/
def VM.currentBreak (p : Program) (vm : VM) : Option BreakPoint := p.lineAt (vm.ip - 1)

/-- overwrite the opcode at one index (`code[ind].op = …`) -/
def setOp (code : List Instr) (ind : Int) (i : Instr) : Except Fault (List Instr) :=
  if ind < 0 then .error .oobCode else
  if ind.toNat < code.length then .ok (code.set ind.toNat i) else .error .oobCode

def setOps (code : List Instr) (inds : List Int) (i : Instr) : Except Fault (List Instr) :=
  inds.foldlM (fun c ind => setOp c ind i) code

/-- `VM::setBreakPoint` -/
def VM.setBreakPoint (p : Program) (vm : VM) (bp : BreakPoint) (value : Bool) :
    Except Fault (VM × Bool) :=
  match p.sitesOf bp with
  | none => pure (vm, false)
  | some sites => do
    if value then
      let c ← setOps vm.code sites .brk
      pure ({ vm with code := c, enabled := sortedInsert BreakPoint.lt false bp vm.enabled }, true)
    else
      let c ← setOps vm.code sites .potBreak
      pure ({ vm with code := c, enabled := sortedErase BreakPoint.lt bp vm.enabled }, true)

/-- the opcode restoration loop of `VM::clearBreakpoints` -/
def restoreAll (p : Program) (code : List Instr) (bps : List BreakPoint) : Except Fault (List Instr) :=
  bps.foldlM (fun c bp => setOps c ((p.sitesOf bp).getD []) .potBreak) code

/-- `VM::clearBreakpoints` -/
def VM.clearBreakpoints (p : Program) (vm : VM) : Except Fault VM := do
  let c ← restoreAll p vm.code vm.enabled
  pure { vm with code := c, enabled := [] }

/-- `VM::reset` -/
def VM.reset (p : Program) (vm : VM) : Except Fault VM := do
  let vm1 ← VM.clearBreakpoints p { vm with stepping := false, ip := 0 }
  pure { vm1 with data := [], stack := [] }

def VM.setStepping (vm : VM) (b : Bool) : VM := { vm with stepping := b }

/-- insertion into the name-keyed result map of `getActivationVariables` -/
def nameLt (a b : Bytes × Int) : Bool := bytesLt a.1 b.1

/-- `VM::Activation::getActivationVariables` -/
def activationVariables (p : Program) (vm : VM) (a : Act) : Except Fault (List (Bytes × Int)) :=
  if a.dbg < 0 then .error .badStackMap else
  match p.stackMaps[a.dbg.toNat]? with
  | none => .error .badStackMap
  | some sm =>
    if a.segSize ≤ 0 then pure [] else
    sm.map.foldlM (fun acc e => do
      let v ← rd vm.data (a.dataStart + e.1)
      pure (sortedInsert nameLt true (e.2, v) acc)) []

/-- the debugger alphabet -/
inductive Call where
  | single | exec
  | bp (b : BreakPoint) (v : Bool)
  | clear
  | stepping (b : Bool)
  | reset
  deriving Repr, DecidableEq, Inhabited

/-- one API call as a relation (execute has no fuel in the C++) -/
inductive CallRel (p : Program) : VM → Call → VM → Prop where
  | single {vm vm' r} : step vm = .ok (vm', r) → CallRel p vm .single vm'
  | exec {vm vm'} : ExecTo vm vm' → CallRel p vm .exec vm'
  | bp {vm vm' b v r} : VM.setBreakPoint p vm b v = .ok (vm', r) → CallRel p vm (.bp b v) vm'
  | clear {vm vm'} : VM.clearBreakpoints p vm = .ok vm' → CallRel p vm .clear vm'
  | stepping {vm b} : CallRel p vm (.stepping b) (vm.setStepping b)
  | reset {vm vm'} : VM.reset p vm = .ok vm' → CallRel p vm .reset vm'

/-- states obtainable from a fresh machine by a finite history of (non-faulting) calls -/
inductive Reach (p : Program) : VM → Prop where
  | init : Reach p (VM.mk' p)
  | call {vm c vm'} : Reach p vm → CallRel p vm c vm' → Reach p vm'

end Theo
