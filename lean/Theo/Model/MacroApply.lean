/-
  Model of `Theo::apply_macros` (Compiler/src/macro.cpp:276-546): one LR(1) prefix detector per
  definition, NON_LR verdicts, priority bins, leftmost/longest selection, body instantiation,
  the bounded pass loop.
-/
import Theo.Model.MacroExtract
import Theo.Model.LR

namespace Theo

/-- the symbol a rule token stands for in the `MACRO` rule: slot ↦ its non-terminal, else the
    terminal of the token's kind (table generated from macro.cpp) -/
def ruleSym (t : Token) : Sym :=
  match DetGen.slotNT.find? (fun e => e.1 = t.kind) with
  | some e => .n e.2
  | none => .t t.kind

/-- the detector grammar of one macro -/
def detectorGrammar (m : MacroDef) : Grammar :=
  Grammar.ofRules DetGen.numNT
    (DetGen.rules.map (fun r => (r.1, r.2.map (fun s => if s.1 then Sym.t s.2 else Sym.n s.2))) ++
      [(DetGen.macroNT, m.rule.map ruleSym)])

/-- bound on the number of LR states explored for a detector (the correspondence compares the
    NON_LR verdicts; see C12) -/
def detectorStateFuel : Nat := 4096

structure Detector where
  md : MacroDef
  tables : Tables
  deriving Repr, Inhabited

def mkDetector (m : MacroDef) : Detector :=
  ⟨m, (genTables (detectorGrammar m) DetGen.macroNT Tok.T_EOF true detectorStateFuel).1⟩

def Detector.usable (d : Detector) : Bool := d.tables.conflicts.isEmpty

/-- `Accumulation` -/
structure Accum where
  total : List Token
  split : List (List Token)
  deriving Repr, Inhabited

def accLeaf (t : Token) : Accum := ⟨[t], [[t]]⟩

/-- semantic actions: `default_accumulator` for the fixed rules, the splitting action for `MACRO`
    (`popped` = values of the right-hand side, last symbol first) -/
def accAct (left _alt : Nat) (popped : List Accum) : Accum :=
  if left = DetGen.macroNT then
    ⟨popped.flatMap (·.total), (popped.map (·.total)).reverse⟩
  else
    ⟨popped.reverse.flatMap (·.total), []⟩

structure Response where
  location : Nat
  length : Nat
  matched : List (List Token)
  deriving Repr, Inhabited

/-- `check_constraint` -/
def checkConstraint (m : MacroDef) (matched : List (List Token)) : Bool :=
  m.cc.all (fun ci =>
    match m.rule[ci]?, matched[ci]? with
    | some req, some [f] => f.text == req.text
    | _, _ => false)

def detectFuel (n : Nat) : Nat := 32 * (n + 2)

/-- run the detector on the suffix starting at the head of `inp` -/
def detectAt (d : Detector) (inp : List Token) : Option Accum :=
  match lrParse d.tables (fun t => t.kind) accLeaf accAct (detectFuel inp.length) inp [0] [] with
  | .accept v => some v
  | _ => none

/-- `detect`: leftmost start at which the detector accepts a prefix and the text constraints hold -/
def detectFrom (d : Detector) : List Token → Nat → Option Response
  | [], _ => none
  | t :: ts, i =>
    match detectAt d (t :: ts) with
    | some a => if checkConstraint d.md a.split then some ⟨i, a.total.length, a.split⟩
                else detectFrom d ts (i + 1)
    | none => detectFrom d ts (i + 1)

def detect (d : Detector) (inp : List Token) : Option Response := detectFrom d inp 0

/-- the name given to a temporary: `#n:<file>:<line of body[0]>_(M<pass>)`
    (after the F9 repair `<file>` is the file of the body's first token) -/
def tempName (text file : Bytes) (line : Int) (pass : Nat) : Bytes :=
  text ++ [58] ++ file ++ [58] ++ intDec line ++ [95, 40, 77] ++ natDigits pass ++ [41]

/-- `get_replacement` -/
def replacement (m : MacroDef) (r : Response) (pass : Nat) : List Token :=
  let first := m.body.head?.getD default
  m.body.flatMap (fun cand =>
    if cand.kind = Tok.INSERTION then
      let ind := toInt32 (strtolNat (cand.text.drop 1))
      match m.tt[ind.toNat]? with
      | some ri => (r.matched[ri]?).getD []
      | none => []
    else if cand.kind = Tok.TEMP_VAL then
      [{ cand with kind := Tok.ID, text := tempName cand.text first.file first.line pass }]
    else [cand])

/-- is response `a` strictly preferred to `b`: further left, or same start and longer -/
def Response.better (a b : Response) : Bool :=
  a.location < b.location || (a.location == b.location && a.length > b.length)

/-- `std::min_element` with the (repaired, F10) comparator: the first of the best -/
def pickBest : List (Detector × Response) → Option (Detector × Response)
  | [] => none
  | x :: xs =>
    some (xs.foldl (fun best y => if y.2.better best.2 then y else best) x)

/-- priority bins, highest priority first; inside a bin, definition order -/
def bins (ds : List Detector) : List (List Detector) :=
  let prios := insertionSort (fun a b => decide (a > b)) ((ds.map (·.md.priority)).eraseDups)
  prios.map (fun p => ds.filter (fun d => d.md.priority = p))

/-- one pass: the first bin (from the highest priority) with a detection decides -/
def applyStep (bs : List (List Detector)) (inp : List Token) (pass : Nat) :
    Option (Detector × Response × List Token) :=
  match bs with
  | [] => none
  | b :: rest =>
    match pickBest (b.filterMap (fun d => (detect d inp).map (fun r => (d, r)))) with
    | some (d, r) =>
      some (d, r, inp.take r.location ++ replacement d.md r pass ++ inp.drop (r.location + r.length))
    | none => applyStep rest inp pass

structure ApplyOut where
  toks : List Token
  errs : List PErr
  rewrites : Nat
  deriving Repr, Inhabited

/-- the pass loop, by structural recursion on the number of passes left (`pass` = number of the
    next pass).  Returns the stream, the number of rewrites, and the C++ `changed` flag: the
    budget can only run out right after a pass that rewrote. -/
def passLoop (bs : List (List Detector)) : Nat → Nat → List Token → Nat → List Token × Nat × Bool
  | 0, _, inp, n => (inp, n, true)
  | left + 1, pass, inp, n =>
    match applyStep bs inp pass with
    | some (_, _, inp') => passLoop bs left (pass + 1) inp' (n + 1)
    | none => (inp, n, false)

/-- `Theo::apply_macros` -/
def applyMacros (inp : List Token) (defs : List MacroDef) (passes : Nat) : ApplyOut :=
  let dets := defs.map mkDetector
  let errs : List PErr := dets.filterMap (fun d =>
    if d.usable then none
    else
      let t := d.md.rule.head?.getD default
      some ⟨PErrT.MACRO_COMPILE_NON_LR, t.file, t.line, []⟩)
  let usable := dets.filter (·.usable)
  let bs := bins usable
  let (out, n, changed) :=
    match passes with
    | 0 => (inp, 0, false)
    | _ => passLoop bs passes 0 inp 0
  let errs := if changed then errs ++ [⟨PErrT.MACRO_APPLY_REACHED_MAX_PASSES, bDash, -1, []⟩] else errs
  ⟨out, errs, n⟩

end Theo
