/-
  Model of lrdea.cpp (hull / jump / elements) and lrparser.hpp (table generation with the
  C++ placement order and "first entry wins", table-driven parse in full and prefix mode).
-/
import Theo.Model.Grammar

namespace Theo

/-- `LRElement` -/
structure Item where
  left : Nat          -- non-terminal index
  alt : Nat
  dot : Nat
  follow : Sym
  deriving Repr, DecidableEq, Inhabited

/-- `operator<(LRElement, LRElement)`: left, alternative, dot, follow -/
def Item.lt (a b : Item) : Bool :=
  if a.left < b.left then true else if b.left < a.left then false
  else if a.alt < b.alt then true else if b.alt < a.alt then false
  else if a.dot < b.dot then true else if b.dot < a.dot then false
  else a.follow.lt b.follow

abbrev ItemSet := List Item      -- kept strictly sorted by `Item.lt` (std::set)

def ItemSet.insert (s : ItemSet) (x : Item) : ItemSet := sortedInsert Item.lt false x s

def Grammar.rhs (g : Grammar) (it : Item) : List Sym := ((g.alts it.left)[it.alt]?).getD []

/-- `get_before`: the symbol after the dot, ε when the dot is at the end -/
def Grammar.afterDot (g : Grammar) (it : Item) : Sym := ((g.rhs it)[it.dot]?).getD .eps

/-- items added by one item: `[B → .γ, b]` for every alternative of the non-terminal after the
    dot and every `b ∈ FIRST(β a)` -/
def closeItem (g : Grammar) (fi : FirstInfo) (it : Item) : List Item :=
  match g.afterDot it with
  | .n b =>
    let las := firstSyms fi (((g.rhs it).drop (it.dot + 1)) ++ [it.follow])
    (List.range (g.alts b).length).flatMap (fun ri => las.map (fun la => ⟨b, ri, 0, la⟩))
  | _ => []

/-- worklist closure; `fuel` bounds the number of items ever added -/
def hullAux (g : Grammar) (fi : FirstInfo) : Nat → List Item → ItemSet → ItemSet
  | 0, _, acc => acc
  | _, [], acc => acc
  | fuel + 1, it :: work, acc =>
    let news := (closeItem g fi it).filter (fun x => !acc.contains x)
    let news := news.eraseDups
    hullAux g fi fuel (work ++ news) (news.foldl ItemSet.insert acc)

/-- size of the item universe: Σ over rules of (|rhs|+1) × (terminals + 2) -/
def Grammar.itemBound (g : Grammar) : Nat :=
  (g.prods.foldl (fun acc e => acc + e.2.foldl (fun a r => a + r.length + 1) 0) 0) *
    (g.terminals.eraseDups.length + 2) + 1

/-- `hull(I, G)` -/
def hull (g : Grammar) (fi : FirstInfo) (i : List Item) : ItemSet :=
  let start := i.foldl ItemSet.insert []
  hullAux g fi (g.itemBound + i.length) start start

/-- `jump(I, X, G)` -/
def jump (g : Grammar) (fi : FirstInfo) (i : ItemSet) (x : Sym) : ItemSet :=
  hull g fi ((i.filter (fun it => g.afterDot it = x)).map (fun it => { it with dot := it.dot + 1 }))

/-- `get_befores`: the symbols after a dot, as a sorted set without ε -/
def befores (g : Grammar) (i : ItemSet) : List Sym :=
  (i.map g.afterDot).foldl (fun acc s => if s = .eps then acc else sortedInsert Sym.lt false s acc) []

structure LRState where
  items : ItemSet
  trans : List (Sym × Nat)       -- `jump` map, key order
  deriving Repr, DecidableEq, Inhabited

/-- the augmented grammar of `elements`: `S' → S` (index numNT) and `E → eof` (index numNT+1) -/
def Grammar.augment (g : Grammar) (start : Nat) (eof : Nat) : Grammar :=
  let g1 : Grammar := { numNT := g.numNT + 2, prods := g.prods }
  (g1.add g.numNT [.n start]).add (g.numNT + 1) [.t eof]

/-- process state `i` of the collection: discover successor states in symbol order -/
def expandState (g : Grammar) (fi : FirstInfo) (states : List LRState) (i : Nat) : List LRState :=
  match states[i]? with
  | none => states
  | some st =>
    let (states', trans) := (befores g st.items).foldl
      (fun (acc : List LRState × List (Sym × Nat)) x =>
        let r := jump g fi st.items x
        match acc.1.findIdx? (fun s => s.items = r) with
        | some j => (acc.1, acc.2 ++ [(x, j)])
        | none => (acc.1 ++ [⟨r, []⟩], acc.2 ++ [(x, acc.1.length)]))
      (states, [])
    states'.set i { st with trans := trans }

def collectAux (g : Grammar) (fi : FirstInfo) : Nat → Nat → List LRState → List LRState
  | 0, _, states => states
  | fuel + 1, i, states =>
    if i < states.length then collectAux g fi fuel (i + 1) (expandState g fi states i) else states

/-- `elements(S, eof, G)` on the augmented grammar; `fuel` = number of states to process.
    The number of distinct item sets is finite; the driver passes a generous bound and the
    correspondence compares state counts. -/
def collection (ga : Grammar) (fi : FirstInfo) (sPrime : Nat) (eof : Nat) (fuel : Nat) : List LRState :=
  let h := hull ga fi [⟨sPrime, 0, 0, .t eof⟩]
  collectAux ga fi fuel 0 [⟨h, []⟩]

inductive Action where
  | err
  | shift (s : Nat)
  | reduce (left alt beta : Nat)
  | accept
  deriving Repr, DecidableEq, Inhabited

/-- conflict kinds: 1 = SHIFT_REDUCE_ERR, 2 = REDUCE_REDUCE_ERR (state, terminal) -/
structure Conflict where
  kind : Nat
  state : Nat
  terminal : Nat
  deriving Repr, DecidableEq, Inhabited

structure Tables where
  action : List (List Action)
  goto : List (List Int)
  conflicts : List Conflict
  deriving Repr, DecidableEq, Inhabited

def setCell (row : List Action) (t : Nat) (a : Action) : List Action := row.set t a

/-- `place_reduce` / `place_accept` on one cell: an occupied cell keeps its entry and a conflict
    is reported -/
def placeRA (state : Nat) (row : List Action) (confs : List Conflict) (t : Nat) (a : Action) :
    List Action × List Conflict :=
  match (row[t]?).getD .err with
  | .reduce _ _ _ => (row, confs ++ [⟨2, state, t⟩])
  | .shift _ => (row, confs ++ [⟨1, state, t⟩])
  | _ => (setCell row t a, confs)

/-- `place_shift` -/
def placeShift (state : Nat) (row : List Action) (confs : List Conflict) (t : Nat) (target : Nat) :
    List Action × List Conflict :=
  match (row[t]?).getD .err with
  | .reduce _ _ _ => (row, confs ++ [⟨1, state, t⟩])
  | _ => (setCell row t (.shift target), confs)

/-- one row of the tables: first all jumps, then all complete items in set order -/
def fillRow (ga : Grammar) (prefixMode : Bool) (eof : Nat) (width : Nat) (state : Nat) (st : LRState)
    (confs : List Conflict) : List Action × List Int × List Conflict :=
  let row0 : List Action := List.replicate width .err
  let grow0 : List Int := List.replicate ga.numNT (-1)
  let (row1, grow1, confs1) := st.trans.foldl
    (fun (acc : List Action × List Int × List Conflict) p =>
      match p.1 with
      | .t i =>
        let (r, c) := placeShift state acc.1 acc.2.2 i p.2
        (r, acc.2.1, c)
      | .n k => (acc.1, acc.2.1.set k (p.2 : Int), acc.2.2)
      | .eps => acc) (row0, grow0, confs)
  let (row2, confs2) := st.items.foldl
    (fun (acc : List Action × List Conflict) it =>
      let size := (ga.rhs it).length
      if it.dot ≠ size then acc else
      let act : Action := if it.left = ga.numNT - 2 then .accept else .reduce it.left it.alt size
      if it.follow.index = eof ∧ prefixMode then
        (List.range width).foldl (fun a t => placeRA state a.1 a.2 t act) acc
      else placeRA state acc.1 acc.2 it.follow.index act) (row1, confs1)
  (row2, grow1, confs2)

/-- `generateParseTables` -/
def genTables (g : Grammar) (start eof : Nat) (prefixMode : Bool) (fuel : Nat) : Tables × Nat :=
  let ga := g.augment start eof
  let fi := firstSets ga
  let states := collection ga fi g.numNT eof fuel
  let width := ga.maxTerminal + 1
  let res := states.zipIdx.foldl
    (fun (acc : List (List Action) × List (List Int) × List Conflict) p =>
      let (row, grow, confs) := fillRow ga prefixMode eof width p.2 p.1 acc.2.2
      (acc.1 ++ [row], acc.2.1 ++ [grow], confs)) ([], [], [])
  (⟨res.1, res.2.1, res.2.2⟩, states.length)

inductive ParseOut (V : Type) where
  | accept (v : V)
  | reject
  | stuck            -- the C++ has undefined behaviour here (goto −1 / empty value stack)
  | fuelOut
  deriving Repr

/-- `LRParser::parse` (Algorithm 4.7).  `term` = translator, `leaf` = creator,
    `act lhs alt popped` = the rule's semantic action on the popped values (last symbol first). -/
def lrParse {τ V : Type} (T : Tables) (term : τ → Nat) (leaf : τ → V)
    (act : Nat → Nat → List V → V) :
    Nat → List τ → List Nat → List V → ParseOut V
  | 0, _, _, _ => .fuelOut
  | fuel + 1, inp, states, values =>
    match states, inp with
    | [], _ => .stuck
    | _, [] => .stuck          -- reading past the end of the input
    | s :: srest, x :: xs =>
      let a := term x
      match T.action[s]? with
      | none => .stuck
      | some row =>
        if row.length ≤ a then .reject else
        match (row[a]?).getD .err with
        | .shift s' => lrParse T term leaf act fuel xs (s' :: s :: srest) (leaf x :: values)
        | .reduce left alt beta =>
          if values.length < beta ∨ (s :: srest).length ≤ beta then .stuck else
          let popped := values.take beta
          let states' := (s :: srest).drop beta
          match states' with
          | [] => .stuck
          | sp :: _ =>
            match ((T.goto[sp]?).bind (·[left]?)) with
            | some j =>
              if j < 0 then .stuck else
              lrParse T term leaf act fuel (x :: xs) (j.toNat :: states') (act left alt popped :: values.drop beta)
            | none => .stuck
        | .accept =>
          match values with
          | v :: _ => .accept v
          | [] => .stuck
        | .err => .reject

end Theo
