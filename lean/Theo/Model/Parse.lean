/-
  Model of Compiler/src/parse.cpp: the recursive-descent parser with its error recovery
  (which decides which errors exist and where), and the front matter of `Theo::parse`.
  The tree is the same binary `Node` tree as the C++ builds, so it can be compared node for node.
-/
import Theo.Model.MacroApply
import Theo.Generated.NodeTypes

namespace Theo

inductive Node where
  | nil
  | mk (t : Nat) (tok file : Bytes) (line : Int) (l r : Node)
  deriving Repr, DecidableEq, Inhabited

/-- syntax errors are compared by kind (the fixed prefix of the C++ message) and position -/
inductive SynKind where
  | expectedToken       -- "expected '…' token, but got"
  | missingSemi         -- "probable missing ';' before"
  | progNotAllowed      -- "program definition not allowed here"
  | expectedAssign      -- "expected assignment (:=), label declaration (:)"
  | expectedComponent   -- "expected program component"
  | excessSemi          -- "probable excess semicolon before"
  | expectedValue       -- "expected value: ID, INT, ID + INT or function call"
  | excessInput         -- "expected EOF, but got excess input"
  | forwarded (k : Nat) -- a scanner / macro error of `ParseError::Type` k
  | fuel                -- model artefact: never produced when the fuel is sufficient
  deriving Repr, DecidableEq, Inhabited

structure SynErr where
  kind : SynKind
  file : Bytes
  line : Int
  deriving Repr, DecidableEq, Inhabited

structure PS where
  ts : List Token          -- remaining input; the head is `*pos`
  errs : List SynErr
  deriving Repr, Inhabited

namespace PS

def cur (ps : PS) : Token := ps.ts.head?.getD ⟨Tok.T_EOF, bEOF, bDash, -1⟩
def la (ps : PS) : Nat := ps.cur.kind
def err (ps : PS) (k : SynKind) : PS := { ps with errs := ps.errs ++ [⟨k, ps.cur.file, ps.cur.line⟩] }

/-- skip to `;` or EOF -/
def skipToSep : List Token → List Token
  | [] => []
  | t :: ts => if t.kind = Tok.PROGSEP ∨ t.kind = Tok.T_EOF then t :: ts else skipToSep ts

/-- `ParseState::match` -/
def matchK (ps : PS) (k : Nat) : PS :=
  let ps1 := if ps.la ≠ k then { ps.err .expectedToken with ts := skipToSep ps.ts } else ps
  if ps1.la ≠ Tok.T_EOF then { ps1 with ts := ps1.ts.drop 1 } else ps1

/-- `matchmk`: the node is built from the *current* token before matching -/
def matchmk (ps : PS) (k : Nat) (n : Nat) : Node × PS :=
  let c := ps.cur
  (.mk n c.text c.file c.line .nil .nil, ps.matchK k)

end PS

def Node.file : Node → Bytes
  | .nil => []
  | .mk _ _ f _ _ _ => f
def Node.line : Node → Int
  | .nil => 0
  | .mk _ _ _ l _ _ => l
def Node.tok : Node → Bytes
  | .nil => []
  | .mk _ t _ _ _ _ => t
def Node.ty : Node → Nat
  | .nil => 0
  | .mk t _ _ _ _ _ => t
def Node.left : Node → Node
  | .nil => .nil
  | .mk _ _ _ _ l _ => l
def Node.right : Node → Node
  | .nil => .nil
  | .mk _ _ _ _ _ r => r

/-- `a.mk(type, n->line, n->file, "", l, r)`: position copied from node `n` -/
def mkAt (t : Nat) (n : Node) (l r : Node) : Node := .mk t [] n.file n.line l r

def pOPORTS (ps : PS) : Node × PS :=
  if ps.la = Tok.OUT then (ps.matchK Tok.OUT).matchmk Tok.ID NodeT.NAME else (.nil, ps)

mutual
def pS : Nat → PS → Node × PS
  | 0, ps => (.nil, ps.err .fuel)
  | f + 1, ps =>
    if ps.la = Tok.PROGRAM then
      let ps := ps.matchK Tok.PROGRAM
      let (name, ps) := ps.matchmk Tok.ID NodeT.NAME
      let (port, ps) := pPORTS f ps
      let ps := ps.matchK Tok.DO
      let (body, ps) := pP f ps
      let (end_, ps) := ps.matchmk Tok.END NodeT.NAME
      let (more, ps) := pS f ps
      (mkAt NodeT.SPLIT name
        (mkAt NodeT.PROGRAM name (mkAt NodeT.SPLIT name name port)
          (mkAt NodeT.SPLIT name body (mkAt NodeT.MARK end_ end_ .nil)))
        more, ps)
    else pP f ps

def pPORTS : Nat → PS → Node × PS
  | 0, ps => (.nil, ps.err .fuel)
  | f + 1, ps =>
    if ps.la = Tok.IN then
      let ps := ps.matchK Tok.IN
      let (args, ps) := pARGS f ps
      let (outs, ps) := pOPORTS ps
      (mkAt NodeT.SPLIT args args outs, ps)
    else (.nil, ps)

def pARGS : Nat → PS → Node × PS
  | 0, ps => (.nil, ps.err .fuel)
  | f + 1, ps =>
    let (id, ps) := ps.matchmk Tok.ID NodeT.NAME
    let (more, ps) :=
      if ps.la ≠ Tok.ARGSEP then (Node.nil, ps)
      else pARGS f (ps.matchK Tok.ARGSEP)
    (mkAt NodeT.SPLIT id id more, ps)

/-- `expected_end_or_semicolon` -/
def pEEOS : Nat → PS → PS
  | 0, ps => ps.err .fuel
  | f + 1, ps =>
    let k := ps.la
    if k = Tok.ID ∨ k = Tok.LOOP ∨ k = Tok.WHILE ∨ k = Tok.GOTO ∨ k = Tok.IF ∨ k = Tok.STOP then
      pEEOS f (pP f (ps.err .missingSemi)).2
    else if k = Tok.PROGRAM then
      pEEOS f (pS f (ps.err .progNotAllowed)).2
    else if k = Tok.PROGSEP then
      pEEOS f (pMOREP f ps).2
    else ps

def pP : Nat → PS → Node × PS
  | 0, ps => (.nil, ps.err .fuel)
  | f + 1, ps =>
    let k := ps.la
    if k = Tok.ID then
      let (left, ps) := ps.matchmk Tok.ID NodeT.NAME
      let (comb, ps) :=
        if ps.la = Tok.ASSIGN then
          let ps := ps.matchK Tok.ASSIGN
          let (v, ps) := pVALUE f ps
          (mkAt NodeT.ASSIGN left left v, ps)
        else if ps.la = Tok.LABELDEC then
          let ps := ps.matchK Tok.LABELDEC
          let mark := mkAt NodeT.MARK left left .nil
          let (p, ps) := pP f ps
          (mkAt NodeT.SPLIT left mark p, ps)
        else (Node.nil, ps.err .expectedAssign)
      let (more, ps) := pMOREP f ps
      let ps := pEEOS f ps
      (mkAt NodeT.SPLIT left comb more, ps)
    else if k = Tok.LOOP ∨ k = Tok.WHILE then
      let ps := ps.matchK k
      let (name, ps) := ps.matchmk Tok.ID NodeT.NAME
      let ps := if k = Tok.WHILE then ps.matchK Tok.NEQ_ZERO else ps
      let ps := ps.matchK Tok.DO
      let (body, ps) := pP f ps
      let (end_, ps) := ps.matchmk Tok.END NodeT.NAME
      let endm := mkAt NodeT.MARK end_ end_ .nil
      let loop := mkAt (if k = Tok.LOOP then NodeT.LOOP else NodeT.WHILE) name name body
      let loop := mkAt NodeT.SPLIT name loop endm
      let (more, ps) := pMOREP f ps
      let ps := pEEOS f ps
      (mkAt NodeT.SPLIT name loop more, ps)
    else if k = Tok.GOTO then
      let ps := ps.matchK Tok.GOTO
      let (name, ps) := ps.matchmk Tok.ID NodeT.NAME
      let (more, ps) := pMOREP f ps
      let ps := pEEOS f ps
      (mkAt NodeT.SPLIT name (mkAt NodeT.GOTO name name .nil) more, ps)
    else if k = Tok.IF then
      let ps := ps.matchK Tok.IF
      let (id, ps) := ps.matchmk Tok.ID NodeT.NAME
      let ps := ps.matchK Tok.EQ
      let (c, ps) := ps.matchmk Tok.INT NodeT.NUMBER
      let ps := ps.matchK Tok.THEN
      let ps := ps.matchK Tok.GOTO
      let (go, ps) := ps.matchmk Tok.ID NodeT.NAME
      let (more, ps) := pMOREP f ps
      let ps := pEEOS f ps
      let eq := mkAt NodeT.EQ id id c
      let gon := mkAt NodeT.GOTO go go .nil
      (mkAt NodeT.SPLIT id (mkAt NodeT.IF id eq gon) more, ps)
    else if k = Tok.STOP then
      let (stop, ps) := ps.matchmk Tok.STOP NodeT.STOP
      let (more, ps) := pMOREP f ps
      let ps := pEEOS f ps
      (mkAt NodeT.SPLIT stop stop more, ps)
    else
      (.nil, pEEOS f (ps.err .expectedComponent))

def pMOREP : Nat → PS → Node × PS
  | 0, ps => (.nil, ps.err .fuel)
  | f + 1, ps =>
    if ps.la ≠ Tok.PROGSEP then (.nil, ps) else
    let ps := ps.matchK Tok.PROGSEP
    let ps := if ps.la = Tok.END ∨ ps.la = Tok.T_EOF then ps.err .excessSemi else ps
    pP f ps

def pVALUE : Nat → PS → Node × PS
  | 0, ps => (.nil, ps.err .fuel)
  | f + 1, ps =>
    let k := ps.la
    if k = Tok.ID then ps.matchmk Tok.ID NodeT.NAME
    else if k = Tok.INT then ps.matchmk Tok.INT NodeT.NUMBER
    else if k = Tok.RUN then
      let ps := ps.matchK Tok.RUN
      let (id, ps) := ps.matchmk Tok.ID NodeT.NAME
      let ps := ps.matchK Tok.WITH
      let (vargs, ps) :=
        if ps.la ≠ Tok.ID ∧ ps.la ≠ Tok.INT ∧ ps.la ≠ Tok.RUN then (Node.nil, ps)
        else
          let (a1, ps) := pVALUE f ps
          let (re, ps) := pMVARGS f ps
          (mkAt NodeT.SPLIT a1 a1 re, ps)
      let ps := ps.matchK Tok.END
      (mkAt NodeT.CALL id id vargs, ps)
    else (.nil, ps.err .expectedValue)

def pMVARGS : Nat → PS → Node × PS
  | 0, ps => (.nil, ps.err .fuel)
  | f + 1, ps =>
    if ps.la ≠ Tok.ARGSEP then (.nil, ps) else
    let ps := ps.matchK Tok.ARGSEP
    let (v, ps) := pVALUE f ps
    match v with
    | .nil => (.nil, ps)             -- F2 repair: the error is already recorded by VALUE
    | _ =>
      let (m, ps) := pMVARGS f ps
      (mkAt NodeT.SPLIT v v m, ps)
end

/-- the trailing-input loop of `Theo::parse` -/
def pTrailing : Nat → Nat → PS → PS
  | 0, _, ps => ps
  | n + 1, fuel, ps =>
    if ps.ts.isEmpty ∨ ps.la = Tok.T_EOF then ps else
    let ps := ps.err .excessInput
    let ps := ps.matchK ps.la
    if ps.la = Tok.T_EOF then ps else
    pTrailing n fuel (pS fuel ps).2

structure AST where
  ok : Bool
  errs : List SynErr
  root : Node
  deriving Repr, Inhabited

structure ParseOut' where
  missing : List Bytes
  ast : AST
  deriving Repr, Inhabited

/-- fuel for the descent: the nesting depth of calls is linear in the number of tokens -/
def parseFuel (n : Nat) : Nat := 4 * n + 16

/-- parser proper, on the token stream produced by the macro stage -/
def parseTokens (ts : List Token) : Node × List SynErr :=
  let fuel := parseFuel ts.length
  let (root, ps) := pS fuel ⟨ts, []⟩
  let ps := pTrailing (ts.length + 1) fuel ps
  (root, ps.errs)

/-- `Theo::parse`: standard macros, include phrase, scan, extraction, application, descent -/
def parseFiles (files : Files) (main : Bytes) (passes : Nat := ConstGen.macroPasses) : ParseOut' :=
  let files1 : Files :=
    if files.has ConstGen.stdFileName then files else files ++ [(ConstGen.stdFileName, ConstGen.stdMacroText)]
  let files2 : Files :=
    files1.map (fun e => if e.1 = main then (e.1, ConstGen.includePhrase ++ e.2) else e)
  let sr := scan files2 main
  let missing := sr.errs.filterMap (fun e =>
    if e.kind = PErrT.FILE_NOT_FOUND ∨ e.kind = PErrT.MAIN_FILE_NOT_FOUND then some e.req else none)
  let mer := extractMacros sr.toks
  let mar := applyMacros mer.toks mer.macros passes
  let (root, serrs) := parseTokens mar.toks
  let fwd := (sr.errs ++ mer.errs ++ mar.errs).map (fun e => (⟨.forwarded e.kind, e.file, e.line⟩ : SynErr))
  let errs := serrs ++ fwd
  ⟨missing, ⟨errs.isEmpty, errs, root⟩⟩

end Theo
