/-
  Model of the flex scanner specified by lexer.l: maximal munch over the generated
  rule list, earliest rule wins among equal lengths, `yylineno` counting.
-/
import Theo.Model.Regex
import Theo.Generated.LexRules
import Theo.Generated.Tokens

namespace Theo

structure Token where
  kind : Nat
  text : Bytes
  file : Bytes
  line : Int
  deriving Repr, DecidableEq, Inhabited

/-- a token of one buffer, before it is labelled with its file -/
structure RawTok where
  kind : Nat
  text : Bytes
  line : Nat
  deriving Repr, DecidableEq, Inhabited

/-- index of the first nullable regex -/
def firstNullable : List Rx → Nat → Option Nat
  | [], _ => none
  | r :: rs, i => if r.nullable then some i else firstNullable rs (i + 1)

/-- scan the input with the derivatives of all rules; `best` = (rule index, length) of the
    longest match seen so far, the earliest rule winning among equal lengths -/
def longestAux : List Rx → Bytes → Nat → Option (Nat × Nat) → Option (Nat × Nat)
  | _, [], _, best => best
  | rs, c :: cs, n, best =>
    let rs' := rs.map (Rx.deriv c)
    if rs'.all (fun r => r == Rx.empty) then best else
    let best' := match firstNullable rs' 0 with
      | some i => some (i, n + 1)
      | none => best
    longestAux rs' cs (n + 1) best'

def longest (rs : List Rx) (inp : Bytes) : Option (Nat × Nat) := longestAux rs inp 0 none

def countNl (s : Bytes) : Nat := s.count 10

/-- all tokens of one buffer; `line` is the current `yylineno`.  A token is labelled with
    the line on which it *ends* (flex counts the newlines of the match before the action). -/
def lexFrom (rules : List (Rx × Option Nat)) : Nat → Bytes → Nat → List RawTok
  | 0, _, _ => []
  | fuel + 1, inp, line =>
    match inp with
    | [] => []
    | _ :: _ =>
      match longest (rules.map (·.1)) inp with
      | none => []      -- cannot happen with a catch-all rule (C14_total)
      | some (i, n) =>
        let text := inp.take n
        let line' := line + countNl text
        let rest := lexFrom rules fuel (inp.drop n) line'
        match (rules[i]?).bind (·.2) with
        | some k => ⟨k, text, line'⟩ :: rest
        | none => rest

/-- `yy_scan_string` copies up to the first NUL byte -/
def cstr (s : Bytes) : Bytes := s.takeWhile (· ≠ 0)

/-- tokens of one file's content, `yylineno` starting at 1 -/
def lexBuffer (content : Bytes) : List RawTok :=
  let inp := cstr content
  lexFrom LexGen.rules (inp.length + 1) inp 1

end Theo
