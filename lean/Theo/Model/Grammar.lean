/-
  Model of Compiler/src/ParserGenerator/grammar.cpp: symbols, rules, FIRST sets.
-/
import Theo.Model.Basic

namespace Theo

/-- `Grammar::Symbol`; constructor order = the C++ `Type` order (ε < terminal < non-terminal) -/
inductive Sym where
  | eps
  | t (i : Nat)
  | n (i : Nat)
  deriving Repr, DecidableEq, Inhabited

def Sym.rank : Sym → Nat
  | .eps => 0 | .t _ => 1 | .n _ => 2
def Sym.index : Sym → Nat
  | .eps => 0 | .t i => i | .n i => i

/-- `operator<(Symbol, Symbol)` -/
def Sym.lt (a b : Sym) : Bool :=
  if a.rank < b.rank then true else if a.rank > b.rank then false else a.index < b.index

/-- A grammar: `numNT` = `total_non_terminals`; `alts n` = the alternatives of non-terminal `n`
    in the order they were added (`right_sides[n]`), ε symbols already removed by `add`. -/
structure Grammar where
  numNT : Nat
  prods : List (Nat × List (List Sym))    -- key order (ascending lhs), like the std::map
  deriving Repr, DecidableEq, Inhabited

def Grammar.alts (g : Grammar) (n : Nat) : List (List Sym) :=
  ((g.prods.find? (fun e => e.1 = n)).map (·.2)).getD []

/-- `SemanticGrammar::add` for an lhs `n` (ε stripped; new key inserted in key order) -/
def Grammar.add (g : Grammar) (n : Nat) (rhs : List Sym) : Grammar :=
  let rhs := rhs.filter (· ≠ .eps)
  let rec ins : List (Nat × List (List Sym)) → List (Nat × List (List Sym))
    | [] => [(n, [rhs])]
    | e :: es =>
      if e.1 = n then (e.1, e.2 ++ [rhs]) :: es
      else if n < e.1 then (n, [rhs]) :: e :: es
      else e :: ins es
  { g with prods := ins g.prods }

def Grammar.ofRules (numNT : Nat) (rules : List (Nat × List Sym)) : Grammar :=
  rules.foldl (fun g r => g.add r.1 r.2) ⟨numNT, []⟩

/-- all terminal indices used in rules -/
def Grammar.terminals (g : Grammar) : List Nat :=
  g.prods.flatMap (fun e => e.2.flatMap (fun a => a.filterMap (fun s =>
    match s with | .t i => some i | _ => none)))

/-- `max_used_terminal` -/
def Grammar.maxTerminal (g : Grammar) : Nat := g.terminals.foldl max 0

/-- FIRST information per non-terminal: terminals that can start it, and nullability -/
structure FirstInfo where
  firsts : List (List Nat)     -- index = non-terminal
  nullable : List Bool
  deriving Repr, DecidableEq, Inhabited

def FirstInfo.firstOf (fi : FirstInfo) (n : Nat) : List Nat := (fi.firsts[n]?).getD []
def FirstInfo.nullOf (fi : FirstInfo) (n : Nat) : Bool := (fi.nullable[n]?).getD false

def unionNat (a b : List Nat) : List Nat := b.foldl (fun acc x => if acc.contains x then acc else acc ++ [x]) a

/-- FIRST of a symbol string under `fi`: (terminals, all symbols nullable) -/
def firstOfString (fi : FirstInfo) : List Sym → List Nat × Bool
  | [] => ([], true)
  | .eps :: _ => ([], false)        -- `first_sets[ε]` is the empty set: the scan stops here
  | .t i :: _ => ([i], false)
  | .n k :: rest =>
    if fi.nullOf k then
      let (fs, nl) := firstOfString fi rest
      (unionNat (fi.firstOf k) fs, nl)
    else (fi.firstOf k, false)

/-- one round of the fixpoint of `calculateFirstSets` -/
def firstRound (g : Grammar) (fi : FirstInfo) : FirstInfo :=
  let upd := (List.range g.numNT).map (fun n =>
    (g.alts n).foldl (fun (acc : List Nat × Bool) a =>
      let (fs, nl) := firstOfString fi a
      (unionNat acc.1 fs, acc.2 || nl)) (fi.firstOf n, fi.nullOf n))
  ⟨upd.map (·.1), upd.map (·.2)⟩

def firstIter (g : Grammar) : Nat → FirstInfo → FirstInfo
  | 0, fi => fi
  | k + 1, fi =>
    let fi' := firstRound g fi
    if fi' = fi then fi else firstIter g k fi'

/-- `calculateFirstSets`: least fixpoint; the number of rounds is bounded by the number of
    facts that can be added (non-terminals × (terminals + 1)) -/
def firstSets (g : Grammar) : FirstInfo :=
  let init : FirstInfo := ⟨List.replicate g.numNT [], List.replicate g.numNT false⟩
  firstIter g (g.numNT * (g.terminals.eraseDups.length + 1) + 1) init

/-- `Grammar::first(string)` as a sorted symbol set: terminals (ascending), then ε -/
def firstSyms (fi : FirstInfo) (s : List Sym) : List Sym :=
  let (fs, nl) := firstOfString fi s
  let ts := (insertionSort (fun a b => decide (a < b)) fs).map Sym.t
  if nl then .eps :: ts else ts

end Theo
