/-
  Model of `Theo::extract_macros` (Compiler/src/macro.cpp:18-274): the S/D/MD/A
  recursive descent with its error recovery, and the `$n` range check.
-/
import Theo.Model.Scan
import Theo.Generated.DetectorGrammar
import Theo.Generated.Consts

namespace Theo

structure MacroDef where
  priority : Int
  rule : List Token
  cc : List Nat        -- content_constraint_token_indices
  tt : List Nat        -- template_token_indices
  body : List Token    -- replacement
  deriving Repr, DecidableEq, Inhabited

/-- value of a decimal digit string -/
def decVal (s : Bytes) : Nat := s.foldl (fun acc c => acc * 10 + (c.toNat - 48)) 0

def LONG_MAX : Nat := 9223372036854775807

/-- `strtol(text, NULL, 10)` on a digit string (saturating) -/
def strtolNat (s : Bytes) : Nat := min (decVal s) LONG_MAX

/-- `(int) long` as GCC does it: reduction modulo 2^32 into the signed range -/
def toInt32 (v : Nat) : Int :=
  let w := v % 4294967296
  if w < 2147483648 then (w : Int) else (w : Int) - 4294967296

/-- does the range guard of macro.cpp reject this value? (`v >= INT_MAX`, generated) -/
def macroRangeBad (v : Nat) : Bool :=
  if ConstGen.macroGuardRejectsMax then decide ((v : Int) ≥ INT_MAX) else decide ((v : Int) > INT_MAX)

structure ExSt where
  toks : List Token
  macros : List MacroDef      -- incomplete_macros; the last element is `.back()`
  errs : List PErr
  pos : Nat
  out : List Token
  deriving Repr, Inhabited

namespace ExSt

def la (es : ExSt) : Nat :=
  match es.toks[es.pos]? with
  | some t => t.kind
  | none => Tok.T_EOF

/-- `tokens[MIN(tok_pos, size-1)]` -/
def cur (es : ExSt) : Token :=
  (es.toks[min es.pos (es.toks.length - 1)]?).getD default

def err (es : ExSt) (k : Nat) : ExSt :=
  { es with errs := es.errs ++ [⟨k, es.cur.file, es.cur.line, []⟩] }

/-- `match`: on a mismatch an error is recorded; a token is consumed either way -/
def matchK (es : ExSt) (k : Nat) : ExSt × Bool :=
  if es.la ≠ k then ({ es.err PErrT.MACRO_EXTRACT_EXPECT with pos := es.pos + 1 }, false)
  else ({ es with pos := es.pos + 1 }, true)

def advance (es : ExSt) : ExSt := { es with pos := es.pos + 1 }

def copy (es : ExSt) : ExSt := { es with out := es.out ++ [es.cur] }

def pushMacro (es : ExSt) : ExSt := { es with macros := es.macros ++ [⟨0, [], [], [], []⟩] }

def popMacro (es : ExSt) : ExSt := { es with macros := es.macros.dropLast }

def modifyLast (es : ExSt) (f : MacroDef → MacroDef) : ExSt :=
  match es.macros.getLast? with
  | some m => { es with macros := es.macros.dropLast ++ [f m] }
  | none => es

def pushRule (es : ExSt) : ExSt :=
  let l := (es.toks[es.pos]?).getD default
  es.modifyLast (fun m =>
    let m1 := { m with rule := m.rule ++ [l] }
    if DetGen.textKinds.contains l.kind then { m1 with cc := m1.cc ++ [m1.rule.length - 1] }
    else if DetGen.slotKinds.contains l.kind then { m1 with tt := m1.tt ++ [m1.rule.length - 1] }
    else m1)

def pushBody (es : ExSt) : ExSt :=
  let l := (es.toks[es.pos]?).getD default
  es.modifyLast (fun m => { m with body := m.body ++ [l] })

/-- `strToInt(es, text)`: range error at the *current* position -/
def strToInt (es : ExSt) (text : Bytes) : ExSt × Int :=
  let v := strtolNat text
  let es' := if macroRangeBad v then es.err PErrT.RANGE else es
  (es', toInt32 v)

end ExSt

/-- grammar function `A` (macro body) -/
def exA : Nat → ExSt → ExSt
  | 0, es => es
  | f + 1, es =>
    let k := es.la
    if k = Tok.T_EOF then (es.matchK Tok.END_DEFINE).1
    else if k = Tok.END_DEFINE then es.advance
    else if k = Tok.DEFINE ∨ k = Tok.AS then exA f (es.err PErrT.MACRO_EXTRACT_NESTED).advance
    else exA f es.pushBody.advance

/-- grammar functions `D` (`first = true`) and `MD` -/
def exMD : Nat → Bool → ExSt → ExSt
  | 0, _, es => es
  | f + 1, first, es =>
    let k := es.la
    if k = Tok.T_EOF then
      (exA f (es.matchK Tok.AS).1).popMacro
    else if k = Tok.AS then
      if first then (exA f (es.err PErrT.MACRO_EXTRACT_EMPTY_DEFINE).advance).popMacro
      else exA f es.advance
    else if k = Tok.DEFINE then exMD f false (es.err PErrT.MACRO_EXTRACT_NESTED).advance
    else exMD f false es.pushRule.advance

/-- grammar function `S` -/
def exS : Nat → ExSt → ExSt
  | 0, es => es
  | f + 1, es =>
    let k := es.la
    if k = Tok.T_EOF then es.copy.advance
    else if k = Tok.DEFINE then
      let es1 := es.advance.pushMacro
      let es2 :=
        if es1.la = Tok.PRIORITY then
          let es1a := es1.advance
          let (es1b, ok) := es1a.matchK Tok.INT
          if ok then
            let text := ((es1b.toks[es1b.pos - 1]?).getD default).text
            let (es1c, v) := es1b.strToInt text
            es1c.modifyLast (fun m => { m with priority := v })
          else es1b
        else es1
      exS f (exMD (2 * es.toks.length + 4) true es2)
    else exS f es.copy.advance

/-- the `$n` check after extraction.  `strToInt` reports a value `≥ INT_MAX` at the position of
    `endTok` (= `tokens[min(tok_pos, size-1)]`, the scan is over); an index outside the slot range
    is reported at the token itself, which then becomes `ID "error"`. -/
def checkInsertions (endTok : Token) (ms : List MacroDef) (errs : List PErr) :
    List MacroDef × List PErr :=
  ms.foldl (fun (acc : List MacroDef × List PErr) m =>
    let (body', errs') := m.body.foldl (fun (a : List Token × List PErr) t =>
      if t.kind = Tok.INSERTION then
        let v := strtolNat (t.text.drop 1)
        let e1 := if macroRangeBad v then a.2 ++ [⟨PErrT.RANGE, endTok.file, endTok.line, []⟩] else a.2
        let ind := toInt32 v
        if ind < 0 ∨ ind ≥ (m.tt.length : Int) then
          (a.1 ++ [{ t with kind := Tok.ID, text := [101, 114, 114, 111, 114] }],
           e1 ++ [⟨PErrT.RANGE, t.file, t.line, []⟩])
        else (a.1 ++ [t], e1)
      else (a.1 ++ [t], a.2)) ([], acc.2)
    (acc.1 ++ [{ m with body := body' }], errs')) ([], errs)

structure ExtractOut where
  errs : List PErr
  toks : List Token
  macros : List MacroDef
  deriving Repr, Inhabited

/-- `Theo::extract_macros` -/
def extractMacros (toks : List Token) : ExtractOut :=
  let es := exS (toks.length + 2) ⟨toks, [], [], 0, []⟩
  let (ms, errs) := checkInsertions es.cur es.macros es.errs
  ⟨errs, es.out, ms⟩

end Theo
