/-
  Model of Compiler/src/gen.cpp: a state-passing transcription of `GenState` and the dispatch
  functions (registers, temporaries, labels, backpatching, breakpoint sites, tables).
  Written for the repaired behaviour of F1 (absent ports), F4 (repeated parameter names are an
  error) and F5 (`removeTopPotBreak` removes exactly the popped site).
-/
import Theo.Model.Parse
import Theo.Model.VM

namespace Theo

structure VReg where
  inUse : Bool
  isTemp : Bool
  name : Bytes
  deriving Repr, DecidableEq, Inhabited

structure FGS where
  name : Bytes
  regs : List VReg := []
  argnum : Nat := 0
  marks : List (Bytes × Nat) := []     -- std::map name ↦ label, in key order
  deriving Repr, Inhabited

structure ProgRec where
  ind : Int
  mi : Int
  argnum : Nat
  stackSize : Nat
  deriving Repr, DecidableEq, Inhabited

structure GErr where
  kind : Nat
  file : Bytes
  line : Int
  deriving Repr, DecidableEq, Inhabited

structure GS where
  code : List Instr := []
  stackMaps : List StackMap := []
  potBreaks : List (BreakPoint × List Int) := []
  lineInfo : List (Int × BreakPoint) := []
  errors : List GErr := []
  symbols : List FGS := []             -- head = `symbols.back()`
  funcAddrs : List (Bytes × ProgRec) := []
  labels : List Int := []
  todo : List Nat := []
  loops : Nat := 0
  fsName : Bytes := ConstGen.rootFsName     -- initial file context, regenerated from gen.cpp
  fsLine : Int := ConstGen.rootFsLine
  deriving Repr, Inhabited

def bTempName : Bytes := [84, 101, 109, 112, 111, 114, 97, 114, 121, 32, 86, 97, 114, 105, 97, 98, 108, 101]  -- "Temporary Variable"
def bLoopVar : Bytes := [76, 111, 111, 112, 32, 86, 97, 114, 105, 97, 98, 108, 101, 32]  -- "Loop Variable "
def bRoot : Bytes := [35, 114, 111, 111, 116]   -- "#root"
def bX0 : Bytes := [120, 48]                    -- "x0"
def bINC : Bytes := [95, 95, 73, 78, 67, 95, 95]
def bDEC : Bytes := [95, 95, 68, 69, 67, 95, 95]

namespace GS

def err (gs : GS) (k : Nat) : GS := { gs with errors := gs.errors ++ [⟨k, gs.fsName, gs.fsLine⟩] }
def nextPos (gs : GS) : Int := gs.code.length
def lastIsSite (gs : GS) : Bool := gs.code.getLast? == some Instr.potBreak
def markPos (gs : GS) : Int := if gs.lastIsSite then gs.nextPos - 1 else gs.nextPos
def emit (gs : GS) (i : Instr) : GS := { gs with code := gs.code ++ [i] }

def bpLt (a b : BreakPoint × List Int) : Bool := a.1.lt b.1
def liLt (a b : Int × BreakPoint) : Bool := a.1 < b.1

/-- `breakpoint()`: both tables are filled together with the emitted site -/
def breakpoint (gs : GS) : GS :=
  let bp : BreakPoint := ⟨gs.fsName, gs.fsLine⟩
  let pos := gs.nextPos
  let sites := ((gs.potBreaks.find? (fun e => e.1 = bp)).map (·.2)).getD []
  { gs with
    lineInfo := sortedInsert liLt true (pos, bp) gs.lineInfo
    potBreaks := sortedInsert bpLt true (bp, sites ++ [pos]) gs.potBreaks
    code := gs.code ++ [Instr.potBreak] }

/-- `removeTopPotBreak()` (F5 repair: exactly the popped site leaves both tables) -/
def removeTopPotBreak (gs : GS) : GS :=
  if gs.lastIsSite then
    let pos := gs.nextPos - 1
    match (gs.lineInfo.find? (fun e => e.1 = pos)).map (·.2) with
    | none => { gs with code := gs.code.dropLast }
    | some bp =>
      let pbs := gs.potBreaks.filterMap (fun e =>
        if e.1 = bp then
          let s := e.2.filter (· ≠ pos)
          if s.isEmpty then none else some (e.1, s)
        else some e)
      { gs with lineInfo := gs.lineInfo.filter (fun e => e.1 ≠ pos), potBreaks := pbs, code := gs.code.dropLast }
  else gs

/-- `advanceLine` -/
def advanceLine (gs : GS) (line : Int) (file : Bytes) : GS :=
  if file = ConstGen.genStdFileName then gs else
  let gs1 := if gs.fsName = file ∧ line ≠ gs.fsLine then ({ gs with fsLine := line } : GS).breakpoint else gs
  if gs1.fsName ≠ file then ({ gs1 with fsName := file, fsLine := line } : GS).breakpoint else gs1

def top (gs : GS) : FGS := gs.symbols.head?.getD ⟨[], [], 0, []⟩
def setTop (gs : GS) (f : FGS) : GS := { gs with symbols := f :: gs.symbols.drop 1 }
def pushSymbols (gs : GS) (name : Bytes) : GS := { gs with symbols := ⟨name, [], 0, []⟩ :: gs.symbols }

def firstFreeTemp : List VReg → Nat → Option Nat
  | [], _ => none
  | r :: rs, i => if r.isTemp && !r.inUse then some i else firstFreeTemp rs (i + 1)

/-- `fetchTemporary` -/
def fetchTemporary (gs : GS) : GS × Int :=
  let f := gs.top
  match firstFreeTemp f.regs 0 with
  | some i => (gs.setTop { f with regs := f.regs.modify i (fun r => { r with inUse := true }) }, i)
  | none => (gs.setTop { f with regs := f.regs ++ [⟨true, true, bTempName⟩] }, f.regs.length)

/-- `releaseTemporary` -/
def releaseTemporary (gs : GS) (i : Int) : GS :=
  let f := gs.top
  gs.setTop { f with regs := f.regs.modify i.toNat (fun r => if r.isTemp then { r with inUse := false } else r) }

def findReg : List VReg → Bytes → Nat → Option Nat
  | [], _, _ => none
  | r :: rs, n, i => if r.name = n then some i else findReg rs n (i + 1)

/-- `fetchVariableRegister` -/
def fetchVar (gs : GS) (name : Bytes) : GS × Int :=
  let f := gs.top
  match findReg f.regs name 0 with
  | some i => (gs, i)
  | none => (gs.setTop { f with regs := f.regs ++ [⟨true, false, name⟩] }, f.regs.length)

def createLabel (gs : GS) : GS × Nat := ({ gs with labels := gs.labels ++ [-1] }, gs.labels.length)
def setLabel (gs : GS) (l : Nat) (pos : Int) : GS := { gs with labels := gs.labels.set l pos }

def markLt (a b : Bytes × Nat) : Bool := bytesLt a.1 b.1

/-- label of a mark name in the current function, created on first use -/
def markLabel (gs : GS) (name : Bytes) : GS × Nat :=
  match gs.top.marks.find? (fun e => e.1 = name) with
  | some e => (gs, e.2)
  | none =>
    let (gs1, l) := gs.createLabel
    let f := gs1.top
    (gs1.setTop { f with marks := sortedInsert markLt false (name, l) f.marks }, l)

def emitBackpatched (gs : GS) (i : Instr) : GS :=
  let gs1 := gs.emit i
  { gs1 with todo := gs1.todo ++ [gs1.code.length - 1] }

/-- `popSymbols` -/
def popSymbols (gs : GS) (addr : Int) : GS :=
  let f := gs.top
  let gs1 := f.marks.foldl (fun g e =>
    if (g.labels[e.2]?).getD (-1) = -1 then g.err GErrT.UNKNOWN_MARK else g) gs
  let sm : StackMap := ⟨f.name, (f.regs.zipIdx.filter (fun p => !p.1.isTemp)).map (fun p => ((p.2 : Int), p.1.name))⟩
  let maps := gs1.stackMaps ++ [sm]
  let p : ProgRec := ⟨addr, (maps.length : Int) - 1, f.argnum, f.regs.length⟩
  { gs1 with stackMaps := maps,
             funcAddrs := (f.name, p) :: gs1.funcAddrs.filter (fun e => e.1 ≠ f.name),
             symbols := gs1.symbols.drop 1 }

def lookupFunc (gs : GS) (name : Bytes) : Option ProgRec :=
  (gs.funcAddrs.find? (fun e => e.1 = name)).map (·.2)

end GS

/-- does the literal guard of gen.cpp reject this value? (generated) -/
def genRangeBad (v : Nat) : Bool :=
  if ConstGen.genGuardRejectsMax then decide ((v : Int) ≥ INT_MAX) else decide ((v : Int) > INT_MAX)

/-- `strToInt` of gen.cpp -/
def genStrToInt (gs : GS) (tok : Bytes) : GS × Int :=
  let v := strtolNat tok
  ((if genRangeBad v then gs.err GErrT.INTERNAL_ERROR else gs), toInt32 v)

/-- 32-bit negation of the C++ `-cs` (see F12: `cs = INT_MIN` is undefined behaviour in the C++;
    the model wraps) -/
def negInt32 (c : Int) : Int := if c = INT_MIN then INT_MIN else -c

open GS in
/-- `dispatchArgs`: registers for the parameters (F4: a repeated name is an error) -/
def dispatchArgs : Nat → GS → Node → GS
  | 0, gs, _ => gs
  | _, gs, .nil => gs
  | f + 1, gs, .mk t tok _ _ l r =>
    if t = NodeT.SPLIT then dispatchArgs f (dispatchArgs f gs l) r
    else
      let top := gs.top
      let gs := if (findReg top.regs tok 0).isSome then gs.err GErrT.INTERNAL_ERROR else gs
      let top := gs.top
      (({ gs with symbols := { top with argnum := top.argnum + 1 } :: gs.symbols.drop 1 } : GS).fetchVar tok).1

mutual
/-- `dispatchValue` -/
def dispatchValue : Nat → GS → Node → Int → GS
  | 0, gs, _, _ => gs
  | _, gs, .nil, _ => gs
  | f + 1, gs, .mk t tok file line l r, tgt =>
    let gs := gs.advanceLine line file
    if t = NodeT.NAME then
      let (gs, src) := gs.fetchVar tok
      gs.emit (.add tgt src 0)
    else if t = NodeT.NUMBER then
      let (gs, cs) := genStrToInt gs tok
      gs.emit (.const tgt cs)
    else if t = NodeT.CALL then
      let (gs, arglocs) := dispatchCallArgs f gs r []
      let funcname := l.tok
      let rco := arglocs.length = 2 ∧ r.left.ty = NodeT.NAME ∧ r.right.left.ty = NodeT.NUMBER
      if (funcname = bINC ∨ funcname = bDEC) ∧ rco then
        let cs := toInt32 (strtolNat r.right.left.tok)
        let a0 := (arglocs[0]?).getD 0
        if funcname = bINC then gs.emit (.add tgt a0 cs) else gs.emit (.add tgt a0 (negInt32 cs))
      else
        match gs.lookupFunc funcname with
        | none => gs.err GErrT.UNKNOWN_PROGRAM_NAME
        | some p =>
          if p.argnum ≠ arglocs.length then gs.err GErrT.ARGSIZE_MISMATCH else
          let gs := gs.emit (.prepare p.stackSize p.mi tgt)
          let gs := arglocs.zipIdx.foldl (fun g a => (g.emit (.arg a.2 a.1)).releaseTemporary a.1) gs
          gs.emit (.exec p.ind)
    else gs.err GErrT.MALFORMED_AST

/-- `dispatchCallArgs` -/
def dispatchCallArgs : Nat → GS → Node → List Int → GS × List Int
  | 0, gs, _, acc => (gs, acc)
  | _, gs, .nil, acc => (gs, acc)
  | f + 1, gs, .mk t tok file line l r, acc =>
    if t = NodeT.SPLIT then
      let (gs, acc) := dispatchCallArgs f gs l acc
      dispatchCallArgs f gs r acc
    else
      let (gs, tmp) := gs.fetchTemporary
      (dispatchValue f gs (.mk t tok file line l r) tmp, acc ++ [tmp])
end

/-- `dispatchVoid` with the statement dispatchers inlined -/
def dispatchVoid : Nat → GS → Node → GS
  | 0, gs, _ => gs
  | _, gs, .nil => gs
  | f + 1, gs, .mk t _ file line l r =>
    let gs := gs.advanceLine line file
    if t = NodeT.SPLIT then dispatchVoid f (dispatchVoid f gs l) r
    else if t = NodeT.PROGRAM then
      let gs := gs.removeTopPotBreak
      -- dispatchProgram
      let (gs, after) := gs.createLabel
      let gs := gs.emitBackpatched (.jmp after)
      let nameNode := l.left
      let ports := l.right
      let argsNode := ports.left          -- F1 repair: absent ports = no parameters, default OUT
      let outNode := ports.right
      let gs := gs.pushSymbols nameNode.tok
      let gs := dispatchArgs f gs argsNode
      let outName := match outNode with | .nil => bX0 | n => n.tok
      let entry := gs.nextPos
      let gs := dispatchVoid f gs r
      let (gs, retVal) := gs.fetchVar outName
      let gs := gs.emit (.ret retVal)
      let gs := gs.popSymbols entry
      gs.setLabel after gs.nextPos
    else if t = NodeT.ASSIGN then
      let (gs, tind) := gs.fetchVar l.tok
      dispatchValue f gs r tind
    else if t = NodeT.LOOP then
      let gs := { gs with loops := gs.loops + 1 }
      let cname := bLoopVar ++ gs.fsName ++ [58] ++ intDec gs.fsLine ++ [91] ++ natDigits gs.loops ++ [93]
      let (gs, counter) := gs.fetchVar cname
      let gs := dispatchValue f gs l counter
      let (gs, startL) := gs.createLabel
      let (gs, endL) := gs.createLabel
      let gs := gs.setLabel startL gs.nextPos
      let gs := gs.emitBackpatched (.jmpc endL counter)
      let gs := dispatchVoid f gs r
      let gs := gs.emit (.add counter counter (-1))
      let gs := gs.emitBackpatched (.jmp startL)
      gs.setLabel endL gs.nextPos
    else if t = NodeT.WHILE then
      let (gs, startL) := gs.createLabel
      let (gs, endL) := gs.createLabel
      let (gs, cond) := gs.fetchTemporary
      let gs := gs.setLabel startL gs.nextPos
      let gs := dispatchValue f gs l cond
      let gs := gs.emitBackpatched (.jmpc endL cond)
      let gs := dispatchVoid f gs r
      let gs := gs.emitBackpatched (.jmp startL)
      let gs := gs.setLabel endL gs.nextPos
      gs.releaseTemporary cond
    else if t = NodeT.MARK then
      let (gs, lab) := gs.markLabel l.tok
      gs.setLabel lab gs.markPos
    else if t = NodeT.GOTO then
      let (gs, lab) := gs.markLabel l.tok
      gs.emitBackpatched (.jmp lab)
    else if t = NodeT.IF then
      let (gs, cond) := gs.fetchTemporary
      let (gs, op1) := gs.fetchTemporary
      let (gs, op2) := gs.fetchTemporary
      let gs := dispatchValue f gs l.left op1
      let gs := dispatchValue f gs l.right op2
      let gs := gs.emit (.test cond op1 op2)
      let (gs, lab) := gs.markLabel r.left.tok
      let gs := gs.emitBackpatched (.jmpc lab cond)
      ((gs.releaseTemporary cond).releaseTemporary op1).releaseTemporary op2
    else if t = NodeT.STOP then gs.emit .halt
    else gs.err GErrT.MALFORMED_AST

/-- one backpatching step at code location `loc` -/
def backpatchOne (g : GS) (loc : Nat) : GS :=
  match g.code[loc]? with
  | some (Instr.jmp lab) =>
    let tgt := (g.labels[lab.toNat]?).getD (-1)
    let g := if tgt = -1 then g.err GErrT.UNKNOWN_MARK else g
    { g with code := g.code.set loc (Instr.jmp (tgt - loc)) }
  | some (Instr.jmpc lab s) =>
    let tgt := (g.labels[lab.toNat]?).getD (-1)
    let g := if tgt = -1 then g.err GErrT.UNKNOWN_MARK else g
    { g with code := g.code.set loc (Instr.jmpc (tgt - loc) s) }
  | _ => g.err GErrT.INTERNAL_ERROR

/-- `backpatch` -/
def backpatch (gs : GS) : GS :=
  gs.todo.foldl backpatchOne { gs with todo := [] }

def nodeSize : Node → Nat
  | .nil => 1
  | .mk _ _ _ _ l r => nodeSize l + nodeSize r + 1

structure CodegenResult where
  ok : Bool
  errors : List GErr
  code : Program
  requests : List Bytes
  deriving Repr, Inhabited

/-- `Theo::gen` -/
def gen (a : AST) : CodegenResult :=
  let gs : GS := {}
  let gs := gs.emit (.prepare (-1) (-1) 0)
  let gs := gs.pushSymbols bRoot
  let gs :=
    if !a.ok then
      { gs with errors := gs.errors ++ a.errs.map (fun e => ⟨GErrT.PARSE_ERROR, e.file, e.line⟩) }
    else dispatchVoid (nodeSize a.root + 1) gs a.root
  let gs := gs.popSymbols 0
  let gs :=
    match gs.lookupFunc bRoot, gs.code with
    | some p, .prepare _ _ t :: rest => { gs with code := .prepare p.stackSize p.mi t :: rest }
    | _, _ => gs
  let gs := gs.emit .halt
  let gs := backpatch gs
  ⟨gs.errors.isEmpty, gs.errors, ⟨gs.code, gs.stackMaps, gs.potBreaks, gs.lineInfo⟩, []⟩

/-- `Theo::compile` -/
def compile (files : Files) (main : Bytes) : CodegenResult :=
  let pr := parseFiles files main
  { gen pr.ast with requests := pr.missing }

end Theo
