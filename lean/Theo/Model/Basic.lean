/-
  Basic representations shared by every stage of the model.
  Core Lean only (this file is in the import closure of the native driver).
-/
namespace Theo

/-- File contents, file names and token texts are byte strings (the scanner is 8-bit). -/
abbrev Bytes := List UInt8

/-- `INT_MAX` of the C++ side (32-bit `int`). -/
def INT_MAX : Int := 2147483647
def INT_MIN : Int := -2147483648

/-- Lexicographic comparison of byte strings, as `std::string::operator<`
    (`char_traits<char>::compare` compares as unsigned char). -/
def bytesLt : Bytes → Bytes → Bool
  | [], [] => false
  | [], _ :: _ => true
  | _ :: _, [] => false
  | a :: as, b :: bs => if a < b then true else if b < a then false else bytesLt as bs

def strBytes (s : String) : Bytes := s.toUTF8.toList

/-- the placeholder file name "-" and the text "EOF" as byte literals (kernel-reducible) -/
def bDash : Bytes := [45]
def bEOF : Bytes := [69, 79, 70]

/-- decimal rendering of a natural number as bytes (std::to_string on non-negative ints) -/
def natDigits (n : Nat) : Bytes := (Nat.toDigits 10 n).map (fun c => c.toNat.toUInt8)

def intDec (i : Int) : Bytes :=
  if i < 0 then (45 : UInt8) :: natDigits i.natAbs else natDigits i.toNat

/-- insertion into a list kept strictly sorted by `lt` (std::set / std::map key order);
    an equivalent element (neither less) is replaced when `replace`, else kept. -/
def sortedInsert {α} (lt : α → α → Bool) (replace : Bool) (x : α) : List α → List α
  | [] => [x]
  | y :: ys =>
    if lt x y then x :: y :: ys
    else if lt y x then y :: sortedInsert lt replace x ys
    else if replace then x :: ys else y :: ys

def sortedErase {α} (lt : α → α → Bool) (x : α) : List α → List α
  | [] => []
  | y :: ys => if lt x y || lt y x then y :: sortedErase lt x ys else ys

def insertionSort {α} (lt : α → α → Bool) (l : List α) : List α :=
  l.foldl (fun acc x => sortedInsert lt false x acc) []

end Theo
