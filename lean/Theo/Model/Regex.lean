/-
  Regular expressions over bytes with Brzozowski derivatives: the executable
  matcher behind the lexer model (the *specification* side is Theo/Spec/Tokenisation).
-/
import Theo.Model.Basic

namespace Theo

inductive Rx where
  | empty
  | eps
  | cls (rs : List (UInt8 × UInt8))     -- a byte inside one of the ranges
  | ncls (rs : List (UInt8 × UInt8))    -- a byte outside all of the ranges
  | seq (a b : Rx)
  | alt (a b : Rx)
  | star (a : Rx)
  deriving Repr, DecidableEq, Inhabited

def inRanges (rs : List (UInt8 × UInt8)) (c : UInt8) : Bool :=
  rs.any (fun r => r.1 ≤ c && c ≤ r.2)

namespace Rx

def nullable : Rx → Bool
  | empty => false
  | eps => true
  | cls _ => false
  | ncls _ => false
  | seq a b => nullable a && nullable b
  | alt a b => nullable a || nullable b
  | star _ => true

/-- smart constructors keep derivatives small; they preserve the language -/
def mkSeq : Rx → Rx → Rx
  | empty, _ => empty
  | _, empty => empty
  | eps, b => b
  | a, eps => a
  | a, b => seq a b

def mkAlt : Rx → Rx → Rx
  | empty, b => b
  | a, empty => a
  | a, b => if a = b then a else alt a b

def deriv (c : UInt8) : Rx → Rx
  | empty => empty
  | eps => empty
  | cls rs => if inRanges rs c then eps else empty
  | ncls rs => if inRanges rs c then empty else eps
  | seq a b => if nullable a then mkAlt (mkSeq (deriv c a) b) (deriv c b) else mkSeq (deriv c a) b
  | alt a b => mkAlt (deriv c a) (deriv c b)
  | star a => mkSeq (deriv c a) (star a)

def derivs : Bytes → Rx → Rx
  | [], r => r
  | c :: cs, r => derivs cs (deriv c r)

def matchesB (r : Rx) (s : Bytes) : Bool := nullable (derivs s r)

/-- literal byte string -/
def lit (s : Bytes) : Rx := s.foldr (fun b acc => seq (cls [(b, b)]) acc) eps

def alts (l : List Rx) : Rx := l.foldr alt empty

def plus (a : Rx) : Rx := seq a (star a)

end Rx
end Theo
