import Driver.Main
