"""Shared machinery: building the harness and the Lean model from the current
trees, running request batches against both with crash recovery, protocol helpers.
Everything is derived from this file's location; nothing lives under /tmp."""
import hashlib, os, subprocess, sys, time, shutil, json, threading, fcntl, tempfile
from concurrent.futures import ThreadPoolExecutor

VERIF = os.path.dirname(os.path.abspath(__file__))
REPO = os.environ.get('THEO_REPO', '/repo')
CACHE = os.path.join(VERIF, '.cache')
LEAN = os.path.join(VERIF, 'lean')
NCPU = min(16, os.cpu_count() or 4)
GUARD = 'THEO_IDE_LIBTHEO_VERIF'

SRC = ['Compiler/src/ast.cpp', 'Compiler/src/parse.cpp', 'Compiler/src/gen.cpp',
       'Compiler/src/compiler.cpp', 'Compiler/src/scan.cpp', 'Compiler/src/macro.cpp',
       'Compiler/src/ParserGenerator/grammar.cpp', 'Compiler/src/ParserGenerator/lrdea.cpp',
       'Compiler/src/lex.yy.c', 'VM/src/instr.cpp', 'VM/src/vm.cpp', 'VM/src/program.cpp']

VARIANTS = {
    'asan': ['-O1', '-g', '-fsanitize=address,undefined', '-fno-sanitize-recover=all',
             '-D_GLIBCXX_ASSERTIONS'],
    'plain': ['-O1', '-g'],
    'tsan': ['-O1', '-g', '-fsanitize=thread'],
}


def log(*a):
    print(*a, file=sys.stderr, flush=True)


def repo_files():
    out = []
    for top in ('Compiler', 'VM'):
        for d, _, fs in os.walk(os.path.join(REPO, top)):
            if '/test' in d:
                continue
            for f in fs:
                out.append(os.path.join(d, f))
    return sorted(out)


def repo_hash(extra=()):
    h = hashlib.sha256()
    for f in repo_files():
        h.update(f.encode())
        with open(f, 'rb') as fh:
            h.update(fh.read())
    for e in extra:
        with open(e, 'rb') as fh:
            h.update(fh.read())
    return h.hexdigest()[:16]


class Lock:
    def __init__(self, name):
        os.makedirs(CACHE, exist_ok=True)
        self.path = os.path.join(CACHE, name + '.lock')

    def __enter__(self):
        self.fh = open(self.path, 'w')
        fcntl.flock(self.fh, fcntl.LOCK_EX)

    def __exit__(self, *a):
        fcntl.flock(self.fh, fcntl.LOCK_UN)
        self.fh.close()


def prune_cache(prefix, keep):
    try:
        ds = [d for d in os.listdir(CACHE) if d.startswith(prefix) and os.path.isdir(os.path.join(CACHE, d))]
    except FileNotFoundError:
        return
    ds.sort(key=lambda d: os.path.getmtime(os.path.join(CACHE, d)))
    for d in ds[:-keep] if keep else ds:
        shutil.rmtree(os.path.join(CACHE, d), ignore_errors=True)


def build_harness(variant='asan', main='theo_harness.cpp'):
    """Compile every library source of /repo's working tree plus the harness.
    Returns (binary path, None) or (None, error text)."""
    hsrc = os.path.join(VERIF, 'harness', main)
    key = repo_hash([hsrc]) + '-' + variant + '-' + os.path.splitext(main)[0]
    out = os.path.join(CACHE, 'h-' + key)
    binp = os.path.join(out, 'harness')
    with Lock('harness-' + variant):
        if os.path.exists(binp):
            os.utime(out)
            return binp, None
        os.makedirs(out, exist_ok=True)
        flags = ['-std=c++20', '-D' + GUARD, '-I' + REPO, '-I' + os.path.join(REPO, 'Compiler/include')] + VARIANTS[variant]
        jobs = []
        for s in SRC:
            o = os.path.join(out, s.replace('/', '_') + '.o')
            jobs.append((['g++'] + flags + ['-x', 'c++', '-c', os.path.join(REPO, s), '-o', o], o))
        # a second scanner generated from the working tree's lexer.l (C14)
        fresh = os.path.join(out, 'fresh.yy.c')
        r = subprocess.run(['flex', '--prefix=fresh', '--noline', '--nounistd', '--outfile=' + fresh,
                            os.path.join(REPO, 'Compiler/src/lexer.l')], capture_output=True, text=True)
        have_fresh = r.returncode == 0
        if have_fresh:
            o = os.path.join(out, 'fresh.o')
            jobs.append((['g++'] + flags + ['-x', 'c++', '-c', fresh, '-o', o], o))
        o = os.path.join(out, 'main.o')
        jobs.append((['g++'] + flags + (['-DTHEO_FRESH_FLEX'] if have_fresh else []) +
                     ['-fno-access-control', '-c', hsrc, '-o', o], o))
        errs = []

        def cc(j):
            r = subprocess.run(j[0], capture_output=True, text=True)
            if r.returncode != 0:
                errs.append(' '.join(j[0]) + '\n' + r.stderr[-3000:])
        with ThreadPoolExecutor(NCPU) as ex:
            list(ex.map(cc, jobs))
        if errs:
            shutil.rmtree(out, ignore_errors=True)
            return None, errs[0]
        r = subprocess.run(['g++'] + VARIANTS[variant] + ['-pthread'] + [j[1] for j in jobs] + ['-o', binp + '.tmp'],
                           capture_output=True, text=True)
        if r.returncode != 0:
            shutil.rmtree(out, ignore_errors=True)
            return None, r.stderr[-3000:]
        os.rename(binp + '.tmp', binp)
        for j in jobs:
            try:
                os.remove(j[1])
            except OSError:
                pass
        prune_cache('h-', 6)
        return binp, None


HARNESS_ENV = dict(os.environ, ASAN_OPTIONS='detect_leaks=1:abort_on_error=0:exitcode=99:detect_stack_use_after_return=0',
                   UBSAN_OPTIONS='print_stacktrace=1:halt_on_error=1', TSAN_OPTIONS='halt_on_error=1:exitcode=98')


def _run_chunk(cmd, lines, per_line_timeout, env):
    """Feed lines to one process; on a crash/timeout record it for the offending
    line and restart after it.  Returns list of (response | 'CRASH …' | 'TIMEOUT')."""
    res = []
    i = 0
    n = len(lines)
    while i < n:
        with tempfile.TemporaryFile(dir=CACHE) as inp, tempfile.TemporaryFile(dir=CACHE) as errf:
            inp.write(('\n'.join(lines[i:]) + '\n').encode())
            inp.seek(0)
            p = subprocess.Popen(cmd, stdin=inp, stdout=subprocess.PIPE, stderr=errf, env=env)
            got = []
            last = [time.time()]
            killed = [False]

            def watchdog():
                while p.poll() is None:
                    if time.time() - last[0] > per_line_timeout:
                        killed[0] = True
                        p.kill()
                        return
                    time.sleep(0.2)
            th = threading.Thread(target=watchdog, daemon=True)
            th.start()
            for raw in p.stdout:
                got.append(raw.decode('latin1').rstrip('\n'))
                last[0] = time.time()
            p.wait()
            th.join()
            res.extend(got[: n - i])
            i += len(got)
            if i < n:
                errf.seek(0)
                err = errf.read().decode('latin1')
                if killed[0]:
                    res.append('TIMEOUT')
                else:
                    res.append('CRASH rc=%d %s' % (p.returncode, summarize_crash(err)))
                i += 1
            elif p.returncode != 0:
                # died after the last response (e.g. leak report at exit)
                errf.seek(0)
                err = errf.read().decode('latin1')
                res[-1] = res[-1] + ' ATEXIT rc=%d %s' % (p.returncode, summarize_crash(err))
    return res


def summarize_crash(err):
    keep = []
    for l in err.splitlines():
        l = l.strip()
        if 'ERROR: AddressSanitizer' in l or 'runtime error' in l or 'LeakSanitizer' in l or 'Assertion' in l \
                or 'ThreadSanitizer' in l or l.startswith('#0') or l.startswith('#1 ') or l.startswith('#2 ') or l.startswith('#3 ') or 'SUMMARY' in l:
            keep.append(l)
    s = ' ;; '.join(keep[:8])
    return s[:900] if s else err[-300:].replace('\n', ' ')


def run_batch(cmd, lines, per_line_timeout=20, env=None, workers=NCPU):
    if not lines:
        return []
    env = env or HARNESS_ENV
    os.makedirs(CACHE, exist_ok=True)
    workers = max(1, min(workers, (len(lines) + 7) // 8))
    size = (len(lines) + workers - 1) // workers
    chunks = [lines[k:k + size] for k in range(0, len(lines), size)]
    with ThreadPoolExecutor(workers) as ex:
        outs = list(ex.map(lambda c: _run_chunk(cmd, c, per_line_timeout, env), chunks))
    return [x for o in outs for x in o]


# ---------------- Lean side ----------------

def lean_build(targets=('Theo', 'theodrv')):
    """lake build in /verif/lean; returns (ok, output)."""
    with Lock('lake'):
        r = subprocess.run(['lake', 'build'] + list(targets), cwd=LEAN, capture_output=True, text=True)
    return r.returncode == 0, r.stdout + r.stderr


def driver_path():
    return os.path.join(LEAN, '.lake', 'build', 'bin', 'theodrv')


# ---------------- protocol helpers ----------------

def hx(b):
    if isinstance(b, str):
        b = b.encode('latin1')
    return 'x' + b.hex()


def unhx(s):
    return bytes.fromhex(s[1:])


def files_req(main, files):
    """files: dict name(bytes|str) -> content(bytes|str)"""
    parts = [hx(main), str(len(files))]
    for k in files:
        parts += [hx(k), hx(files[k])]
    return ' '.join(parts)


def fields(resp):
    d = {}
    for w in resp.split(' ')[1:]:
        if '=' in w:
            k, v = w.split('=', 1)
            d[k] = v
    return d


def lst(s, sep):
    return [] if s in ('-', '') else s.split(sep)
