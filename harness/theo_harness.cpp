// Correspondence harness: calls the real libtheo API in-process and prints
// canonical text, one response line per request line (protocol: DESIGN.md 3.2 /
// harness/PROTOCOL.md).  Compiled with -fno-access-control (this TU only) so that
// private VM / LRParser state can be read without source hooks.
#include <pthread.h>

#include <algorithm>
#include <cstdio>
#include <cstdlib>
#include <cstring>
#include <iostream>
#include <map>
#include <sstream>
#include <string>
#include <vector>

#include "Compiler/include/ParserGenerator/lrparser.hpp"
#include "Compiler/include/compiler.hpp"
#include "Compiler/include/gen.hpp"
#include "Compiler/include/lexer.hpp"
#include "Compiler/include/macro.hpp"
#include "Compiler/include/parse.hpp"
#include "Compiler/include/scan.hpp"
#include "VM/include/vm.hpp"

using namespace Theo;

#ifdef THEO_FRESH_FLEX
// second scanner generated from the working tree's lexer.l with prefix "fresh"
typedef void *yyscan_t_f;
extern "C++" {
int freshlex_init(void **);
int freshlex_destroy(void *);
struct yy_buffer_state *fresh_scan_string(const char *, void *);
void fresh_delete_buffer(struct yy_buffer_state *, void *);
void freshset_lineno(int, void *);
void freshset_extra(Theo::ScannerInfo *, void *);
int freshlex(Theo::Token *, void *);
}
#endif

static std::string hex(const std::string &s) {
  static const char *d = "0123456789abcdef";
  std::string o = "x";
  for (unsigned char c : s) {
    o += d[c >> 4];
    o += d[c & 15];
  }
  return o;
}
static int hv(char c) {
  if (c >= '0' && c <= '9') return c - '0';
  if (c >= 'a' && c <= 'f') return c - 'a' + 10;
  return 0;
}
static std::string unhex(const std::string &h) {
  std::string o;
  for (size_t i = 1; i + 1 < h.size(); i += 2)
    o += (char)(hv(h[i]) * 16 + hv(h[i + 1]));
  return o;
}
static std::vector<std::string> split(const std::string &s, char c) {
  std::vector<std::string> o;
  std::string cur;
  for (char x : s) {
    if (x == c) {
      o.push_back(cur);
      cur = "";
    } else
      cur += x;
  }
  o.push_back(cur);
  return o;
}
static std::vector<std::string> splitList(const std::string &s, char c) {
  if (s == "-" || s.empty()) return {};
  return split(s, c);
}

// ---------- serialisation ----------
static std::string tokStr(const Token &t) {
  return std::to_string((int)t.t) + ":" + hex(t.text) + ":" + hex(t.file) + ":" +
         std::to_string(t.line);
}
static std::string toksStr(const std::vector<Token> &ts) {
  if (ts.empty()) return "-";
  std::string o;
  for (size_t i = 0; i < ts.size(); i++) {
    if (i) o += ",";
    o += tokStr(ts[i]);
  }
  return o;
}
static Token parseTok(const std::string &s) {
  auto p = split(s, ':');
  return Token((Token::Type)std::stoi(p[0]), unhex(p[1]), unhex(p[2]),
               std::stoi(p[3]));
}
static std::vector<Token> parseToks(const std::string &s) {
  std::vector<Token> r;
  for (auto &x : splitList(s, ',')) r.push_back(parseTok(x));
  return r;
}
static std::string perrsStr(const std::vector<ParseError> &es) {
  if (es.empty()) return "-";
  std::string o;
  for (size_t i = 0; i < es.size(); i++) {
    if (i) o += ",";
    o += std::to_string((int)es[i].t) + ":" + hex(es[i].file) + ":" +
         std::to_string(es[i].line) + ":" + hex(es[i].file_request);
  }
  return o;
}
static std::string perrMsgs(const std::vector<ParseError> &es) {
  if (es.empty()) return "-";
  std::string o;
  for (size_t i = 0; i < es.size(); i++) {
    if (i) o += ",";
    o += hex(es[i].msg);
  }
  return o;
}
static std::string idxStr(const std::vector<unsigned int> &v) {
  if (v.empty()) return "-";
  std::string o;
  for (size_t i = 0; i < v.size(); i++) {
    if (i) o += ".";
    o += std::to_string(v[i]);
  }
  return o;
}
static std::string macroStr(const MacroDefinition &m) {
  return std::to_string(m.priority) + "|" + toksStr(m.rule) + "|" +
         idxStr(m.content_constraint_token_indices) + "|" +
         idxStr(m.template_token_indices) + "|" + toksStr(m.replacement);
}
static std::string macrosStr(const std::vector<MacroDefinition> &ms) {
  if (ms.empty()) return "-";
  std::string o;
  for (size_t i = 0; i < ms.size(); i++) {
    if (i) o += ";";
    o += macroStr(ms[i]);
  }
  return o;
}
static std::vector<unsigned int> parseIdx(const std::string &s) {
  std::vector<unsigned int> r;
  for (auto &x : splitList(s, '.')) r.push_back(std::stoul(x));
  return r;
}
static std::vector<MacroDefinition> parseMacros(const std::string &s) {
  std::vector<MacroDefinition> r;
  for (auto &m : splitList(s, ';')) {
    auto p = split(m, '|');
    MacroDefinition d;
    d.priority = std::stoi(p[0]);
    d.rule = parseToks(p[1]);
    d.content_constraint_token_indices = parseIdx(p[2]);
    d.template_token_indices = parseIdx(p[3]);
    d.replacement = parseToks(p[4]);
    r.push_back(d);
  }
  return r;
}
static std::string instrStr(const Instruction &i) {
  auto s = [](int v) { return std::to_string(v); };
  switch (i.op) {
    case OpCode::POTENTIAL_BREAK:
      return "PB";
    case OpCode::BREAK:
      return "BRK";
    case OpCode::HALT:
      return "HALT";
    case OpCode::ADD_CONST:
      return "ADD." + s(i.parameters.add.target) + "." +
             s(i.parameters.add.source) + "." + s(i.parameters.add.constant);
    case OpCode::JMP:
      return "JMP." + s(i.parameters.jmp.offset);
    case OpCode::JMPC:
      return "JMPC." + s(i.parameters.jmpc.offset) + "." +
             s(i.parameters.jmpc.source);
    case OpCode::PREPARE_EXEC:
      return "PREP." + s(i.parameters.prepare.count) + "." +
             s(i.parameters.prepare.index) + "." +
             s(i.parameters.prepare.target);
    case OpCode::ARG:
      return "ARG." + s(i.parameters.arg.target) + "." +
             s(i.parameters.arg.source);
    case OpCode::EXEC:
      return "EXEC." + s(i.parameters.exec.entry);
    case OpCode::RET:
      return "RET." + s(i.parameters.ret.source);
    case OpCode::CONST:
      return "CONST." + s(i.parameters.constant.target) + "." +
             s(i.parameters.constant.constant);
    case OpCode::TEST:
      return "TEST." + s(i.parameters.test.target) + "." +
             s(i.parameters.test.op1) + "." + s(i.parameters.test.op2);
  }
  return "?" + s((int)i.op);
}
static Instruction parseInstr(const std::string &x) {
  auto p = split(x, '.');
  auto a = [&](int k) { return std::stoi(p[k]); };
  if (p[0] == "PB") return Instruction::PotentialBreak();
  if (p[0] == "BRK") return Instruction::Break();
  if (p[0] == "HALT") return Instruction::Halt();
  if (p[0] == "ADD") return Instruction::Add(a(1), a(2), a(3));
  if (p[0] == "JMP") return Instruction::Jmp(a(1));
  if (p[0] == "JMPC") return Instruction::JmpC(a(1), a(2));
  if (p[0] == "PREP") return Instruction::PrepareExec(a(1), a(2), a(3));
  if (p[0] == "ARG") return Instruction::Arg(a(1), a(2));
  if (p[0] == "EXEC") return Instruction::Exec(a(1));
  if (p[0] == "RET") return Instruction::Ret(a(1));
  if (p[0] == "CONST") return Instruction::LoadConstant(a(1), a(2));
  if (p[0] == "TEST") return Instruction::Test(a(1), a(2), a(3));
  return Instruction::Halt();
}
static std::string bpStr(const BreakPoint &b) {
  return hex(b.file) + ":" + std::to_string(b.line);
}
static std::string programStr(Program &p) {
  std::string o = "code=";
  if (p.code.empty()) o += "-";
  for (size_t i = 0; i < p.code.size(); i++) {
    if (i) o += ",";
    o += instrStr(p.code[i]);
  }
  o += " maps=";
  if (p.stack_maps.empty()) o += "-";
  for (size_t i = 0; i < p.stack_maps.size(); i++) {
    if (i) o += ";";
    o += hex(p.stack_maps[i].func_name) + "/";
    if (p.stack_maps[i].map.empty()) o += "-";
    bool first = true;
    for (auto &e : p.stack_maps[i].map) {
      if (!first) o += ".";
      first = false;
      o += std::to_string(e.first) + ":" + hex(e.second);
    }
  }
  o += " pb=";
  if (p.potential_breaks.empty()) o += "-";
  {
    bool first = true;
    for (auto &e : p.potential_breaks) {
      if (!first) o += ",";
      first = false;
      o += bpStr(e.first) + "/";
      if (e.second.empty()) o += "-";
      for (size_t k = 0; k < e.second.size(); k++) {
        if (k) o += ".";
        o += std::to_string(e.second[k]);
      }
    }
  }
  o += " li=";
  if (p.line_info.empty()) o += "-";
  {
    bool first = true;
    for (auto &e : p.line_info) {
      if (!first) o += ",";
      first = false;
      o += std::to_string(e.first) + "/" + bpStr(e.second);
    }
  }
  return o;
}
static BreakPoint parseBp(const std::string &s) {
  auto p = split(s, ':');
  return BreakPoint{unhex(p[0]), std::stoi(p[1])};
}
static std::map<std::string, std::string> fields(std::stringstream &ss) {
  std::map<std::string, std::string> m;
  std::string tok;
  while (ss >> tok) {
    auto e = tok.find('=');
    if (e == std::string::npos) continue;
    m[tok.substr(0, e)] = tok.substr(e + 1);
  }
  return m;
}
static Program parseProgram(std::map<std::string, std::string> &f) {
  Program p;
  for (auto &x : splitList(f["code"], ',')) p.code.push_back(parseInstr(x));
  for (auto &x : splitList(f["maps"], ';')) {
    auto q = split(x, '/');
    Program::StackMap sm;
    sm.func_name = unhex(q[0]);
    for (auto &e : splitList(q[1], '.')) {
      auto kv = split(e, ':');
      sm.map[std::stoi(kv[0])] = unhex(kv[1]);
    }
    p.stack_maps.push_back(sm);
  }
  for (auto &x : splitList(f["pb"], ',')) {
    auto q = split(x, '/');
    std::vector<ProgramIndex> v;
    for (auto &e : splitList(q[1], '.')) v.push_back(std::stoi(e));
    p.potential_breaks[parseBp(q[0])] = v;
  }
  for (auto &x : splitList(f["li"], ',')) {
    auto q = split(x, '/');
    p.line_info[std::stoi(q[0])] = parseBp(q[1]);
  }
  return p;
}
static std::map<FileName, FileContent> readFiles(std::stringstream &ss,
                                                 std::string &mainf) {
  std::string m;
  int n;
  ss >> m >> n;
  mainf = unhex(m);
  std::map<FileName, FileContent> files;
  for (int i = 0; i < n; i++) {
    std::string a, b;
    ss >> a >> b;
    files[unhex(a)] = unhex(b);
  }
  return files;
}

// ---------- VM ----------
static std::string actsStr(VM &v) {
  std::string o;
  bool firstA = true;
  for (auto &a : v.getActivations()) {
    if (!firstA) o += "/";
    firstA = false;
    auto vars = a.getActivationVariables();
    o += hex(v.code.stack_maps[a.debug_info].func_name) + "@";
    if (vars.empty()) o += "-";
    bool first = true;
    for (auto &kv : vars) {
      if (!first) o += ",";
      first = false;
      o += hex(kv.first) + "=" + std::to_string(kv.second);
    }
  }
  if (o.empty()) o = "-";
  return o;
}
static std::string vmDump(VM &v, long ret, bool withActs) {
  std::string o = "r=" + std::to_string(ret);
  o += ";ip=" + std::to_string(v.instruction_pointer);
  o += ";done=" + std::to_string((int)v.isDone());
  o += ";st=" + std::to_string((int)v.isSteppingModeEnabled());
  BreakPoint cb = v.getCurrentBreak();
  o += ";cur=" + (cb.line == -1 && cb.file == "none" ? std::string("none")
                                                      : bpStr(cb));
  o += ";en=";
  {
    bool first = true;
    for (auto &b : v.getEnabledBreakPoints()) {
      if (!first) o += ",";
      first = false;
      o += bpStr(b);
    }
    if (first) o += "-";
  }
  o += ";data=";
  if (v.data.empty()) o += "-";
  for (size_t i = 0; i < v.data.size(); i++) {
    if (i) o += ".";
    o += std::to_string(v.data[i]);
  }
  o += ";stk=";
  if (v.stack.empty()) o += "-";
  for (size_t i = 0; i < v.stack.size(); i++) {
    if (i) o += ",";
    auto &a = v.stack[i];
    o += std::to_string(a.data_start) + "/" + std::to_string(a.seg_size) + "/" +
         std::to_string(a.ret_target) + "/" + std::to_string(a.ret_addr) + "/" +
         std::to_string(a.debug_info);
  }
  o += ";ops=";
  if (v.code.line_info.empty()) o += "-";
  for (auto &p : v.code.line_info) {
    auto op = v.code.code[p.first].op;
    o += (op == OpCode::BREAK ? 'B' : (op == OpCode::POTENTIAL_BREAK ? 'P' : '?'));
  }
  if (withActs) o += ";acts=" + actsStr(v);
  return o;
}

static void doVM(std::stringstream &ss) {
  auto f = fields(ss);
  Program p = parseProgram(f);
  long cap = f.count("cap") ? std::stol(f["cap"]) : 100000;
  bool withActs = f.count("acts") && f["acts"] == "1";
  VM v(p);
  std::string out;
  bool first = true;
  std::vector<VM::Activation> kept;   // value copies of activation objects a front end may hold on to (ops k / q)
  for (auto &op : splitList(f["ops"], ',')) {
    long ret = 0;
    if (op == "s")
      ret = v.executeSingle();
    else if (op == "e") {
      long n = 0;
      bool r = false;
      while (n < cap && !(r = v.executeSingle())) n++;
      ret = r ? 1 : -1;
    } else if (op == "E") {
      v.execute();
      ret = 1;
    } else if (op == "c")
      v.clearBreakpoints();
    else if (op == "r")
      v.reset();
    else if (op == "k") {
      kept = v.getActivations();
    } else if (op == "q") {
      // refresh the views of the kept copies: only those whose named registers all still lie inside the data segment
      // (anything else would be a read outside the segment already in the caller's request)
      for (auto &a : kept) {
        if (a.debug_info < 0 || (size_t)a.debug_info >= v.code.stack_maps.size()) continue;
        bool inside = true;
        for (auto &e : v.code.stack_maps[a.debug_info].map)
          if (e.first < 0 || (size_t)(a.data_start + e.first) >= v.data.size()) inside = false;
        if (inside) (void)a.getActivationVariables();
      }
    } else if (op == "v") {
      // a call-stack view: inspect every activation through the reference the API hands out, and the locations
      for (auto &a : v.getActivations()) (void)a.getActivationVariables();
      (void)v.getCurrentBreak();
      (void)v.getEnabledBreakPoints();
    } else if (op == "t1")
      v.setSteppingMode(true);
    else if (op == "t0")
      v.setSteppingMode(false);
    else if (op[0] == 'b' || op[0] == 'd') {
      BreakPoint bp = parseBp(op.substr(2));
      ret = v.setBreakPoint(bp.file, bp.line, op[0] == 'b');
    }
    if (!first) out += "|";
    first = false;
    out += vmDump(v, ret, withActs || op == "v");
  }
  if (first) out = "-";
  std::cout << "VM " << out << std::endl;
}

// compile and run: final activations, maxima; in stepping mode the stop trace
static void doRun(std::stringstream &ss, bool trace) {
  std::string mainf;
  auto files = readFiles(ss, mainf);
  long budget;
  ss >> budget;
  CodegenResult cr = compile(files, mainf);
  if (!cr.generated_correctly) {
    std::cout << "RUN ok=0" << std::endl;
    return;
  }
  VM v(cr.code);
  if (trace) v.setSteppingMode(true);
  long steps = 0;
  size_t maxStack = 0, maxData = 0;
  std::string tr;
  long stops = 0;
  long maxStops = 4000;
  while (!v.isDone() && steps < budget) {
    bool r = v.executeSingle();
    steps++;
    maxStack = std::max(maxStack, v.stack.size());
    maxData = std::max(maxData, v.data.size());
    BreakPoint cb = v.getCurrentBreak();
    // a stop at a site (also when the next instruction is HALT: the line of a STOP statement)
    if (trace && r && !(cb.line == -1 && cb.file == "none")) {
      if (stops < maxStops) {
        if (stops) tr += "|";
        tr += (cb.line == -1 && cb.file == "none" ? std::string("none") : bpStr(cb)) +
              ";" + actsStr(v);
      }
      stops++;
      if (stops >= maxStops) break;
    }
  }
  std::cout << "RUN ok=1 done=" << (int)v.isDone() << " steps=" << steps
            << " maxstack=" << maxStack << " maxdata=" << maxData
            << " nprogs=" << (cr.code.stack_maps.size() - 1)
            << " acts=" << actsStr(v);
  if (trace) std::cout << " stops=" << stops << " trace=" << (tr.empty() ? "-" : tr);
  std::cout << std::endl;
}

// ---------- front end ----------
static void doLex(std::stringstream &ss) {
  std::string which, c;
  ss >> which >> c;
  std::string content = unhex(c);
  std::vector<Token> res;
  ScannerInfo si{"f"};
  if (which == "c") {
    yyscan_t s;
    yylex_init(&s);
    YY_BUFFER_STATE buf = yy_scan_string(content.c_str(), s);
    yyset_lineno(1, s);
    yyset_extra(&si, s);
    Token t;
    while (yylex(&t, s) != 0) res.push_back(t);
    yy_delete_buffer(buf, s);
    yylex_destroy(s);
  }
#ifdef THEO_FRESH_FLEX
  else {
    void *s;
    freshlex_init(&s);
    auto buf = fresh_scan_string(content.c_str(), s);
    freshset_lineno(1, s);
    freshset_extra(&si, s);
    Token t;
    while (freshlex(&t, s) != 0) res.push_back(t);
    fresh_delete_buffer(buf, s);
    freshlex_destroy(s);
  }
#endif
  std::cout << "LEX toks=" << toksStr(res) << std::endl;
}

static void doScan(std::stringstream &ss) {
  std::string mainf;
  auto files = readFiles(ss, mainf);
  ScanResult sr = scan(files, mainf);
  std::cout << "SCAN toks=" << toksStr(sr.toks) << " errs=" << perrsStr(sr.errors)
            << " msgs=" << perrMsgs(sr.errors) << std::endl;
}

static void doExtract(std::stringstream &ss) {
  std::string t;
  ss >> t;
  auto toks = parseToks(t);
  auto mer = extract_macros(toks);
  std::cout << "EXTRACT out=" << toksStr(mer.tokens)
            << " macros=" << macrosStr(mer.macros)
            << " errs=" << perrsStr(mer.errors) << " msgs=" << perrMsgs(mer.errors)
            << std::endl;
}

static void doApply(std::stringstream &ss) {
  unsigned passes;
  std::string m, t;
  ss >> passes >> m >> t;
  auto macros = parseMacros(m);
  auto toks = parseToks(t);
  auto mar = apply_macros(toks, macros, passes);
  std::cout << "APPLY toks=" << toksStr(mar.transformed_sequence)
            << " errs=" << perrsStr(mar.errors) << " msgs=" << perrMsgs(mar.errors)
            << std::endl;
}

static void dumpNode(Node *n, std::string &o) {
  if (n == NULL) {
    o += "-";
    return;
  }
  o += "(" + std::to_string((int)n->t) + ":" + hex(n->tok) + ":" + hex(n->file) +
       ":" + std::to_string(n->line) + ",";
  dumpNode(n->left, o);
  o += ",";
  dumpNode(n->right, o);
  o += ")";
}

static void doParse(std::stringstream &ss) {
  std::string mainf;
  auto files = readFiles(ss, mainf);
  ParseResult pr = parse(files, mainf);
  std::string ast;
  dumpNode(pr.a.root, ast);
  std::string errs;
  for (size_t i = 0; i < pr.a.errors.size(); i++) {
    if (i) errs += ",";
    errs += hex(pr.a.errors[i].msg) + ":" + hex(pr.a.errors[i].file) + ":" +
            std::to_string(pr.a.errors[i].line);
  }
  if (errs.empty()) errs = "-";
  std::string req;
  for (size_t i = 0; i < pr.missing_files.size(); i++) {
    if (i) req += ",";
    req += hex(pr.missing_files[i]);
  }
  if (req.empty()) req = "-";
  std::cout << "PARSE ok=" << (int)pr.a.parsed_correctly << " errs=" << errs
            << " req=" << req << " ast=" << ast << std::endl;
  pr.a.clear();
}

static bool g_observe_before_dump = false;
static void doGen(std::stringstream &ss) {
  std::string mainf;
  auto files = readFiles(ss, mainf);
  CodegenResult cr = compile(files, mainf);
  if (g_observe_before_dump) {
    // what a front end does with a fresh result before using it: list the code, ask for the available locations
    std::ostringstream sink;
    cr.code.disassemble(sink);
    (void)cr.code.getAvailableBreakpoints();
    cr.code.disassemble(sink);
  }
  std::string errs;
  for (size_t i = 0; i < cr.errors.size(); i++) {
    if (i) errs += ",";
    errs += std::to_string((int)cr.errors[i].t) + ":" + hex(cr.errors[i].message) +
            ":" + hex(cr.errors[i].file) + ":" + std::to_string(cr.errors[i].line);
  }
  if (errs.empty()) errs = "-";
  std::string req;
  for (size_t i = 0; i < cr.file_requests.size(); i++) {
    if (i) req += ",";
    req += hex(cr.file_requests[i]);
  }
  if (req.empty()) req = "-";
  std::cout << "GEN ok=" << (int)cr.generated_correctly << " errs=" << errs
            << " req=" << req << " " << programStr(cr.code) << std::endl;
}

// parse once, generate k times from the SAME syntax tree (gen takes the tree by value; a front end may well call it again):
// every generation must give the same result, and that of compile()
static std::string genSummary(CodegenResult cr) {
  std::string errs;
  for (size_t i = 0; i < cr.errors.size(); i++) {
    if (i) errs += ",";
    errs += std::to_string((int)cr.errors[i].t) + ":" + hex(cr.errors[i].message) + ":" + hex(cr.errors[i].file) + ":" +
            std::to_string(cr.errors[i].line);
  }
  if (errs.empty()) errs = "-";
  return std::string("ok=") + (cr.generated_correctly ? "1" : "0") + " errs=" + errs + " " + programStr(cr.code);
}
static void doGenN(std::stringstream &ss) {
  std::string mainf;
  auto files = readFiles(ss, mainf);
  int k = 3;
  ss >> k;
  ParseResult pr = parse(files, mainf);
  std::vector<std::string> res;
  for (int i = 0; i < k; i++) res.push_back(genSummary(gen(pr.a)));
  pr.a.clear();
  int differ = -1;
  for (int i = 1; i < k; i++)
    if (res[i] != res[0] && differ < 0) differ = i;
  std::cout << "GENN differ=" << differ << " second=" << hex(differ >= 0 ? res[differ] : std::string("")) << " " << res[0] << std::endl;
}

// ---------- LR ----------
// grammar text: N;lhs:sym.sym|lhs:-|...;start;eof;prefix   symbols: tK / nK / e
struct LRReq {
  SemanticGrammar<std::string> G;
  std::vector<Grammar::Symbol> nts;
  int start;
  unsigned eof;
  bool prefix;
  bool precall = false;
};
static long g_lr_steps;
static LRReq parseGrammar(const std::string &g) {
  LRReq r;
  auto parts = split(g, ';');
  int N = std::stoi(parts[0]);
  for (int i = 0; i < N; i++) r.nts.push_back(r.G.createNonTerminal());
  int ridx = 0;
  for (auto &rule : splitList(parts[1], '|')) {
    auto lr = split(rule, ':');
    int lhs = std::stoi(lr[0]);
    std::vector<Grammar::Symbol> rhs;
    for (auto &tok : splitList(lr[1], '.')) {
      if (tok[0] == 't')
        rhs.push_back(Grammar::Symbol::Terminal(std::stoi(tok.substr(1))));
      else if (tok[0] == 'n')
        rhs.push_back(r.nts[std::stoi(tok.substr(1))]);
      else
        rhs.push_back(Grammar::Symbol::Epsilon());
    }
    int k = ridx++;
    r.G.add(std::make_pair(r.nts[lhs], rhs),
            [k](std::vector<std::string> ch) -> std::string {
              g_lr_steps++;
              std::string o = "(" + std::to_string(k);
              for (auto it = ch.begin(); it != ch.end(); ++it) o += "_" + *it;
              return o + ")";
            });
  }
  r.start = std::stoi(parts[2]);
  r.eof = std::stoul(parts[3]);
  r.prefix = parts[4] == "1" || parts[4] == "3";
  r.precall = parts[4] == "2" || parts[4] == "3";
  return r;
}
static std::string symStr(const Grammar::Symbol &s) {
  if (s.t == Grammar::Symbol::EPSILON) return "e";
  return (s.t == Grammar::Symbol::TERMINAL ? "t" : "n") + std::to_string(s.index);
}
struct StepLimit {};
static void doLR(std::stringstream &ss) {
  std::string g, inputs;
  ss >> g >> inputs;
  LRReq r = parseGrammar(g);
  // FIRST sets on a copy, before augmentation
  std::string first;
  {
    SemanticGrammar<std::string> G2 = r.G;
    G2.calculateFirstSets();
    for (size_t i = 0; i < r.nts.size(); i++) {
      if (i) first += ";";
      first += "n" + std::to_string(i) + ":";
      bool f1 = true;
      for (auto &s : G2.first_sets[r.nts[i]]) {
        if (!f1) first += ".";
        f1 = false;
        first += symStr(s);
      }
      if (f1) first += "-";
    }
    if (first.empty()) first = "-";
  }
  // a legal order of API calls: the caller looks at the FIRST sets of its own grammar object (once or twice) before
  // it hands that object to the parser generator
  if (r.precall) {
    r.G.calculateFirstSets();
    r.G.calculateFirstSets();
  }
  LRParser<std::string, int> p(
      r.G, r.prefix, [](int t) { return Grammar::Symbol::Terminal(t); },
      [](int t) {
        g_lr_steps++;
        if (g_lr_steps > 20000) throw StepLimit();
        return "t" + std::to_string(t);
      },
      r.nts[r.start], Grammar::Symbol::Terminal(r.eof));
  auto res = p.generateParseTables();
  std::string conf;
  for (size_t i = 0; i < res.size(); i++) {
    if (i) conf += ",";
    // message: "... error in state S on terminal T"
    std::string m = res[i].msg;
    auto a = m.find("state ");
    auto b = m.find(" on terminal ");
    conf += std::to_string((int)res[i].t) + ":" + m.substr(a + 6, b - a - 6) + ":" +
            m.substr(b + 13);
  }
  if (conf.empty()) conf = "-";
  // tables
  std::string act;
  for (size_t s = 0; s < p.action.size(); s++) {
    if (s) act += ";";
    for (size_t t = 0; t < p.action[s].size(); t++) {
      if (t) act += ".";
      auto &a = p.action[s][t];
      switch (a.t) {
        case decltype(a.t)::SHIFT:
          act += "s" + std::to_string(a.state);
          break;
        case decltype(a.t)::REDUCE:
          act += "r" + std::to_string(a.left) + "/" + std::to_string(a.beta) + "/" +
                 a.action(std::vector<std::string>{});
          break;
        case decltype(a.t)::ACCEPT:
          act += "a";
          break;
        default:
          act += "e";
      }
    }
  }
  if (act.empty()) act = "-";
  std::string jmp;
  for (size_t s = 0; s < p.jump.size(); s++) {
    if (s) jmp += ";";
    for (size_t t = 0; t < p.jump[s].size(); t++) {
      if (t) jmp += ".";
      jmp += std::to_string(p.jump[s][t]);
    }
  }
  if (jmp.empty()) jmp = "-";
  std::string outs;
  if (res.empty() || true) {
    bool f1 = true;
    for (auto &in : splitList(inputs, '/')) {
      std::vector<int> v;
      for (auto &x : splitList(in, '.')) v.push_back(std::stoi(x));
      if (!f1) outs += "/";
      f1 = false;
      if (!res.empty()) {
        outs += "X";  // tables with conflicts are not run
        continue;
      }
      g_lr_steps = 0;
      try {
        auto pr = p.parse(v);
        outs += (pr.t == pr.ACCEPT ? ("A" + pr.st) : std::string("R"));
      } catch (StepLimit &) {
        outs += "L";
      }
    }
  }
  if (outs.empty()) outs = "-";
  std::cout << "LR first=" << first << " nstates=" << p.action.size()
            << " conf=" << conf << " act=" << act << " jump=" << jmp
            << " parses=" << outs << std::endl;
}

// detector: conflicts and per-start detection for one macro on a token stream
static void doDetect(std::stringstream &ss) {
  std::string m;
  ss >> m;
  auto macros = parseMacros(m);
  std::string out;
  for (size_t i = 0; i < macros.size(); i++) {
    // only the NON_LR verdict is observable through the public API
    std::vector<MacroDefinition> one = {macros[i]};
    std::vector<Token> toks = {Token(Token::T_EOF, "EOF", "-", 1)};
    auto mar = apply_macros(toks, one, 0);
    if (i) out += ",";
    out += std::to_string(mar.errors.size());
  }
  if (out.empty()) out = "-";
  std::cout << "DETECT nonlr=" << out << std::endl;
}


// ---------- C18: several instances in one process / several threads ----------
static std::string compileAndRun(const std::map<FileName, FileContent> &files, const std::string &mainf, long budget) {
  CodegenResult cr = compile(files, mainf);
  std::string o = std::to_string((int)cr.generated_correctly) + " ";
  for (auto &e : cr.errors) o += std::to_string((int)e.t) + ":" + hex(e.message) + ":" + hex(e.file) + ":" + std::to_string(e.line) + ",";
  o += " " + programStr(cr.code);
  if (cr.generated_correctly) {
    VM v(cr.code);
    long steps = 0;
    while (!v.isDone() && steps < budget) {
      v.executeSingle();
      steps++;
    }
    o += " steps=" + std::to_string(steps) + " acts=" + actsStr(v);
  }
  return o;
}

// a debugged run of a machine built from the (possibly shared) Program object `p`:
// breakpoints on every second available line (parity = variant), resumed with execute() until done
static std::string runDebugged(Program &p, int variant, long cap) {
  VM v(p);
  int i = 0;
  for (auto &e : p.potential_breaks) {
    if ((i++ % 2) == (variant % 2)) v.setBreakPoint(e.first.file, e.first.line, true);
  }
  long stops = 0, steps = 0;
  std::string tr;
  while (!v.isDone() && steps < cap) {
    bool r = v.executeSingle();
    steps++;
    if (r && !v.isDone()) {
      stops++;
      if (stops <= 50) tr += bpStr(v.getCurrentBreak()) + ";";
    }
  }
  return "stops=" + std::to_string(stops) + " tr=" + tr + " steps=" + std::to_string(steps) + " acts=" + actsStr(v);
}

struct MTArg {
  std::vector<CodegenResult> *shared;
  std::vector<std::string> *expectedDbg;
  int t, rounds;
  std::vector<std::pair<std::string, std::map<FileName, FileContent>>> *sets;
  std::vector<std::string> *expected;
  int bad;
};
static void *mtWorker(void *p) {
  MTArg *a = (MTArg *)p;
  a->bad = 0;
  for (int j = 0; j < a->rounds; j++) {
    size_t k = (a->t + j) % a->sets->size();
    std::string r = compileAndRun((*a->sets)[k].second, (*a->sets)[k].first, 20000);
    if (r != (*a->expected)[k]) a->bad++;
    // machines built by several threads from one shared compilation result
    CodegenResult &cr = (*a->shared)[k];
    if (cr.generated_correctly) {
      int variant = (a->t + j) % 2;
      if (runDebugged(cr.code, variant, 20000) != (*a->expectedDbg)[2 * k + variant]) a->bad++;
    }
  }
  return NULL;
}
static void doMT(std::stringstream &ss) {
  int nthreads, rounds, k;
  ss >> nthreads >> rounds >> k;
  std::vector<std::pair<std::string, std::map<FileName, FileContent>>> sets;
  for (int i = 0; i < k; i++) {
    std::string mainf;
    auto files = readFiles(ss, mainf);
    sets.push_back({mainf, files});
  }
  std::vector<std::string> expected;
  for (auto &s : sets) expected.push_back(compileAndRun(s.second, s.first, 20000));
  // the same inputs again, after everything else was compiled: must be identical
  int seqbad = 0;
  for (size_t i = 0; i < sets.size(); i++)
    if (compileAndRun(sets[i].second, sets[i].first, 20000) != expected[i]) seqbad++;
  std::vector<CodegenResult> shared;
  std::vector<std::string> expectedDbg;
  for (auto &s : sets) {
    shared.push_back(compile(s.second, s.first));
    for (int variant = 0; variant < 2; variant++) {
      Program priv = shared.back().code;   // expected behaviour: a machine on a private copy
      expectedDbg.push_back(shared.back().generated_correctly ? runDebugged(priv, variant, 20000) : std::string("-"));
    }
  }
  // sequentially: two machines alive at once on the same Program object, different breakpoints
  for (size_t i = 0; i < shared.size(); i++) {
    if (!shared[i].generated_correctly) continue;
    VM other(shared[i].code);
    for (auto &e : shared[i].code.potential_breaks) other.setBreakPoint(e.first.file, e.first.line, true);
    for (int variant = 0; variant < 2; variant++)
      if (runDebugged(shared[i].code, variant, 20000) != expectedDbg[2 * i + variant]) seqbad++;
  }
  std::vector<pthread_t> th(nthreads);
  std::vector<MTArg> args(nthreads);
  pthread_attr_t attr;
  pthread_attr_init(&attr);
  pthread_attr_setstacksize(&attr, (size_t)256 << 20);
  for (int t = 0; t < nthreads; t++) {
    args[t] = {&shared, &expectedDbg, t, rounds, &sets, &expected, 0};
    pthread_create(&th[t], &attr, mtWorker, &args[t]);
  }
  int bad = 0;
  for (int t = 0; t < nthreads; t++) {
    pthread_join(th[t], NULL);
    bad += args[t].bad;
  }
  std::cout << "MT seqbad=" << seqbad << " mtbad=" << bad << " runs=" << nthreads * rounds << std::endl;
}

// several VM instances alive at once, operations interleaved: ops = i:op,i:op,...
static void doVMS(std::stringstream &ss) {
  auto f = fields(ss);
  int n = std::stoi(f["n"]);
  // programs live in stable storage and the machines are built from those objects, the way a front end
  // builds several machines from one compilation result; share=1: instances with the same program text are
  // built from the very same Program object
  bool share = f.count("share") && f["share"] == "1";
  std::vector<Program> progs;
  progs.reserve(n);
  std::vector<std::string> keys;
  std::vector<int> progOf;
  for (int i = 0; i < n; i++) {
    std::map<std::string, std::string> g;
    std::string key;
    for (auto k : {"code", "maps", "pb", "li"}) {
      g[k] = f[std::string(k) + std::to_string(i)];
      key += g[k] + " ";
    }
    int found = -1;
    if (share)
      for (size_t j = 0; j < keys.size(); j++)
        if (keys[j] == key) found = (int)j;
    if (found < 0) {
      progs.push_back(parseProgram(g));
      keys.push_back(key);
      found = (int)progs.size() - 1;
    }
    progOf.push_back(found);
  }
  std::vector<VM> vms;
  vms.reserve(n);
  for (int i = 0; i < n; i++) {
    Program &pr = progs[progOf[i]];
    vms.push_back(VM(pr));
  }
  std::string out;
  bool first = true;
  for (auto &iop : splitList(f["ops"], ',')) {
    auto c = iop.find(':');
    int i = std::stoi(iop.substr(0, c));
    std::string op = iop.substr(c + 1);
    VM &v = vms[i];
    long ret = 0;
    if (op == "s")
      ret = v.executeSingle();
    else if (op == "e") {
      long k = 0;
      bool r = false;
      while (k < 20000 && !(r = v.executeSingle())) k++;
      ret = r ? 1 : -1;
    } else if (op == "c")
      v.clearBreakpoints();
    else if (op == "r")
      v.reset();
    else if (op == "v") {
      for (auto &a : v.getActivations()) (void)a.getActivationVariables();
      (void)v.getCurrentBreak();
      (void)v.getEnabledBreakPoints();
    } else if (op == "t1")
      v.setSteppingMode(true);
    else if (op == "t0")
      v.setSteppingMode(false);
    else if (op[0] == 'b' || op[0] == 'd') {
      BreakPoint bp = parseBp(op.substr(2));
      ret = v.setBreakPoint(bp.file, bp.line, op[0] == 'b');
    }
    if (!first) out += "|";
    first = false;
    out += vmDump(v, ret, op == "v");
  }
  if (first) out = "-";
  std::cout << "VMS " << out << std::endl;
}

static void *mainLoop(void *) {
  std::string line;
  while (std::getline(std::cin, line)) {
    std::stringstream ss(line);
    std::string cmd;
    ss >> cmd;
    if (cmd == "VM")
      doVM(ss);
    else if (cmd == "RUN")
      doRun(ss, false);
    else if (cmd == "STEPTRACE")
      doRun(ss, true);
    else if (cmd == "LEX")
      doLex(ss);
    else if (cmd == "SCAN")
      doScan(ss);
    else if (cmd == "EXTRACT")
      doExtract(ss);
    else if (cmd == "APPLY")
      doApply(ss);
    else if (cmd == "PARSE")
      doParse(ss);
    else if (cmd == "GEN")
      doGen(ss);
    else if (cmd == "GENN")
      doGenN(ss);
    else if (cmd == "GEND") {
      g_observe_before_dump = true;
      doGen(ss);
      g_observe_before_dump = false;
    }
    else if (cmd == "LR")
      doLR(ss);
    else if (cmd == "DETECT")
      doDetect(ss);
    else if (cmd == "MT")
      doMT(ss);
    else if (cmd == "VMS")
      doVMS(ss);
    else
      std::cout << "BADREQ" << std::endl;
  }
  return NULL;
}

int main() {
  std::ios::sync_with_stdio(false);
  // deep recursion in parse.cpp / macro.cpp / gen.cpp is linear in the input and
  // ASan inflates frames: run on a thread with a large stack (DESIGN 3.2)
  if (getenv("THEO_DEFAULT_STACK")) {  // replay of F8: the process's own stack
    mainLoop(NULL);
    return 0;
  }
  pthread_attr_t attr;
  pthread_attr_init(&attr);
  pthread_attr_setstacksize(&attr, (size_t)1 << 30);
  pthread_t th;
  pthread_create(&th, &attr, mainLoop, NULL);
  pthread_join(th, NULL);
  return 0;
}
