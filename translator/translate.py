#!/usr/bin/env python3
"""Regenerates lean/Theo/Generated/*.lean from /repo's working tree.

Table-level extraction only (DESIGN 1, 2.3): enumerations, the lexer.l rule list as
regular expressions over bytes, keyword spellings, the detector grammar of macro.cpp,
constants.  Fails closed (exit 2 with a message) when a source no longer has the
shape it understands."""
import os, re, sys

REPO = os.environ.get('THEO_REPO', '/repo')
OUT = os.path.join(os.path.dirname(os.path.abspath(__file__)), '..', 'lean', 'Theo', 'Generated')


class Refuse(Exception):
    pass


def read(p):
    with open(os.path.join(REPO, p), 'rb') as f:
        return f.read().decode('latin1')


def strip_comments(s):
    s = re.sub(r'/\*.*?\*/', '', s, flags=re.S)
    s = re.sub(r'//[^\n]*', '', s)
    return s


def parse_enum(text, name, what):
    m = re.search(r'enum\s+(?:class\s+)?' + name + r'\s*\{(.*?)\}', strip_comments(text), flags=re.S)
    if not m:
        raise Refuse('enum %s not found in %s' % (name, what))
    items, val = [], 0
    for part in m.group(1).split(','):
        part = part.strip()
        if not part:
            continue
        mm = re.fullmatch(r'([A-Za-z_][A-Za-z0-9_]*)(?:\s*=\s*(-?\d+))?', part)
        if not mm:
            raise Refuse('enum %s: cannot parse %r' % (name, part))
        if mm.group(2) is not None:
            val = int(mm.group(2))
        items.append((mm.group(1), val))
        val += 1
    return items


def lean_bytes(b):
    return '[' + ', '.join(str(x) for x in b) + ']'


# ---------------- lexer.l ----------------
class RxParser:
    """flex regular expressions, the subset used by lexer.l"""

    def __init__(self, s, defs):
        self.s, self.i, self.defs = s, 0, defs

    def peek(self):
        return self.s[self.i] if self.i < len(self.s) else None

    def parse(self):
        r = self.alt()
        if self.i != len(self.s):
            raise Refuse('regex: trailing input in %r at %d' % (self.s, self.i))
        return r

    def alt(self):
        parts = [self.seq()]
        while self.peek() == '|':
            self.i += 1
            parts.append(self.seq())
        r = parts[-1]
        for p in reversed(parts[:-1]):
            r = ('alt', p, r)
        return r

    def seq(self):
        items = []
        while self.peek() is not None and self.peek() not in '|)':
            items.append(self.postfix())
        if not items:
            return ('eps',)
        r = items[-1]
        for p in reversed(items[:-1]):
            r = ('seq', p, r)
        return r

    def postfix(self):
        a = self.atom()
        while self.peek() in ('*', '+', '?'):
            c = self.peek()
            self.i += 1
            if c == '*':
                a = ('star', a)
            elif c == '+':
                a = ('seq', a, ('star', a))
            else:
                a = ('alt', a, ('eps',))
        return a

    def esc(self):
        # after a backslash
        c = self.peek()
        self.i += 1
        table = {'n': 10, 't': 9, 'r': 13, 'f': 12, 'v': 11, 'a': 7, 'b': 8, '0': 0}
        if c in table:
            return table[c]
        if c.isalnum():
            raise Refuse('regex: unsupported escape \\%s' % c)
        return ord(c)

    def atom(self):
        c = self.peek()
        if c == '(':
            self.i += 1
            r = self.alt()
            if self.peek() != ')':
                raise Refuse('regex: missing ) in %r' % self.s)
            self.i += 1
            return r
        if c == '[':
            return self.cls()
        if c == '{':
            j = self.s.index('}', self.i)
            name = self.s[self.i + 1:j]
            self.i = j + 1
            if name not in self.defs:
                raise Refuse('regex: unknown definition {%s}' % name)
            return self.defs[name]
        if c == '.':
            self.i += 1
            return ('ncls', [(10, 10)])
        if c == '\\':
            self.i += 1
            b = self.esc()
            return ('cls', [(b, b)])
        if c == '"':
            j = self.s.index('"', self.i + 1)
            lit = self.s[self.i + 1:j]
            self.i = j + 1
            r = ('eps',)
            for ch in reversed(lit):
                r = ('seq', ('cls', [(ord(ch), ord(ch))]), r)
            return r
        if c in '*+?|)]}^$/<>':
            if c in '<>':   # plain characters outside start conditions at this position
                self.i += 1
                return ('cls', [(ord(c), ord(c))])
            raise Refuse('regex: unexpected %r in %r' % (c, self.s))
        self.i += 1
        return ('cls', [(ord(c), ord(c))])

    def cls(self):
        assert self.peek() == '['
        self.i += 1
        neg = False
        if self.peek() == '^':
            neg = True
            self.i += 1
        ranges = []
        while self.peek() != ']':
            if self.peek() is None:
                raise Refuse('regex: unterminated class')
            c = self.peek()
            self.i += 1
            lo = self.esc() if c == '\\' else ord(c)
            if self.peek() == '-' and self.i + 1 < len(self.s) and self.s[self.i + 1] != ']':
                self.i += 1
                c2 = self.peek()
                self.i += 1
                hi = self.esc() if c2 == '\\' else ord(c2)
            else:
                hi = lo
            ranges.append((lo, hi))
        self.i += 1
        return ('ncls' if neg else 'cls', ranges)


def rx_lean(r):
    t = r[0]
    if t == 'eps':
        return 'Rx.eps'
    if t in ('cls', 'ncls'):
        return '(Rx.%s [%s])' % (t, ', '.join('(%d, %d)' % p for p in r[1]))
    if t == 'star':
        return '(Rx.star %s)' % rx_lean(r[1])
    return '(Rx.%s %s %s)' % (t, rx_lean(r[1]), rx_lean(r[2]))


def rx_literals(r):
    """the finite set of byte strings of a regex without star/classes>1, else None"""
    t = r[0]
    if t == 'eps':
        return [b'']
    if t == 'cls':
        if len(r[1]) == 1 and r[1][0][0] == r[1][0][1]:
            return [bytes([r[1][0][0]])]
        return None
    if t == 'seq':
        a, b = rx_literals(r[1]), rx_literals(r[2])
        if a is None or b is None:
            return None
        return [x + y for x in a for y in b]
    if t == 'alt':
        a, b = rx_literals(r[1]), rx_literals(r[2])
        if a is None or b is None:
            return None
        return a + b
    return None


def parse_lexer_l():
    txt = read('Compiler/src/lexer.l')
    secs = re.split(r'^%%\s*$', txt, flags=re.M)
    if len(secs) < 3:
        raise Refuse('lexer.l: expected three sections')
    head, rules_s = secs[0], secs[1]
    mm = re.search(r'#define\s+TOK\(t\)\s*\{\*ret\s*=\s*Theo::Token\(t,\s*std::string\(yytext\),\s*yyextra->filename,\s*yylineno\);\s*return 1;\}', head)
    if not mm:
        raise Refuse('lexer.l: TOK macro changed shape')
    opts = ' '.join(re.findall(r'^%option\s+(.*)$', head, flags=re.M)).split()
    for need in ('reentrant', 'yylineno', 'noyywrap'):
        if need not in opts:
            raise Refuse('lexer.l: %%option %s missing' % need)
    for bad in ('7bit', 'caseless', 'case-insensitive'):
        if bad in opts:
            raise Refuse('lexer.l: unsupported option ' + bad)
    # definitions: lines "name regex" outside %{ %} and %option
    defs, inblock = {}, False
    deforder = []
    for line in head.split('\n'):
        if line.startswith('%{'):
            inblock = True
            continue
        if line.startswith('%}'):
            inblock = False
            continue
        if inblock or not line.strip() or line.startswith('%') or line.startswith('#'):
            continue
        m = re.match(r'^([A-Za-z_][A-Za-z0-9_]*)\s+(\S.*?)\s*$', line)
        if not m:
            raise Refuse('lexer.l: cannot parse definition line %r' % line)
        defs[m.group(1)] = RxParser(m.group(2), defs).parse()
        deforder.append(m.group(1))
    rules = []
    for line in rules_s.split('\n'):
        if not line.strip():
            continue
        # pattern is the text up to the first unescaped whitespace (patterns in this file
        # escape their blanks), action is the rest
        i, pat = 0, ''
        while i < len(line):
            if line[i] == '\\' and i + 1 < len(line):
                pat += line[i:i + 2]
                i += 2
                continue
            if line[i] == '[':
                j = line.index(']', i + 1)
                pat += line[i:j + 1]
                i = j + 1
                continue
            if line[i] in ' \t':
                break
            pat += line[i]
            i += 1
        action = line[i:].strip()
        if action == '{}':
            kind = None
        else:
            m = re.fullmatch(r'\{TOK\(Theo::Token::Type::([A-Za-z_0-9]+)\)\}', action)
            if not m:
                raise Refuse('lexer.l: unknown action %r' % action)
            kind = m.group(1)
        m = re.fullmatch(r'\{([A-Za-z_][A-Za-z0-9_]*)\}', pat)
        rules.append((pat, RxParser(pat, defs).parse(), kind, m.group(1) if m else None))
    return defs, rules


# ---------------- macro.cpp detector grammar ----------------
def parse_detector_grammar(tokens):
    txt = strip_comments(read('Compiler/src/macro.cpp'))
    m = re.search(r'auto\s+(.*?);', txt[txt.index('SemanticGrammar<Accumulation> G'):], flags=re.S)
    nts = re.findall(r'([A-Z_]+)\s*=\s*G\.createNonTerminal\(\)', m.group(1))
    if nts != ['ID', 'INT', 'VALUE', 'ARGS', 'P', 'STATEMENT', 'ATOMIC_P', 'MACRO']:
        raise Refuse('macro.cpp: non-terminal list changed: %r' % nts)
    tokval = dict(tokens)
    rules = []
    seg = txt[txt.index('G.add('):txt.index('// construct start symbol') if '// construct' in txt else txt.index('std::vector<Grammar::Symbol> sym')]
    for mm in re.finditer(r'G\.add\(\s*([A-Z_]+)\s*>>\s*(.*?),\s*default_accumulator\s*\)\s*;', seg, flags=re.S):
        lhs, rhs = mm.group(1), mm.group(2).strip()
        rhs = re.sub(r'\s+', ' ', rhs)
        if rhs.startswith('(') and rhs.endswith(')'):
            rhs = rhs[1:-1]
        syms = []
        for part in re.split(r',\s*(?![^()]*\))', rhs):
            part = part.strip()
            t = re.fullmatch(r'term\(Token::([A-Za-z_0-9]+)\)', part)
            if t:
                if t.group(1) not in tokval:
                    raise Refuse('macro.cpp: unknown token ' + t.group(1))
                syms.append(('t', tokval[t.group(1)]))
            elif part in nts:
                syms.append(('n', nts.index(part)))
            else:
                raise Refuse('macro.cpp: cannot parse grammar symbol %r' % part)
        rules.append((nts.index(lhs), syms))
    if len(rules) != len(re.findall(r'G\.add\(', seg)):
        raise Refuse('macro.cpp: some G.add lines were not understood')
    # slot -> non-terminal switch
    # the loop over md.rule (any spelling: for_each with a lambda, range-for, index loop) that maps pattern tokens to symbols
    end_ = txt.index('G.add(MACRO')
    cands = [m.start() for m in re.finditer(r'md\.rule', txt[:end_])]
    starts = [c for c in cands if 'sym.push_back' in txt[c:end_] and 'switch' in txt[c:end_]]
    if not starts:
        raise Refuse('macro.cpp: the loop mapping pattern tokens to grammar symbols was not found')
    # the last occurrence of md.rule before the switch
    sw0 = max(c for c in starts if txt[c:end_].count('switch') >= 1 and txt.rfind('switch', 0, end_) > c)
    sw = txt[sw0:end_]
    slots = re.findall(r'case\s+Token::([A-Z_]+)\s*:\s*sym\.push_back\(([A-Z_]+)\)', sw)
    if not re.search(r'default:\s*sym\.push_back\(term\(t\.t\)\)', sw):
        raise Refuse('macro.cpp: default slot mapping changed')
    slotmap = []
    for tk, nt in slots:
        slotmap.append((tokval[tk], nts.index(nt)))
    # text constraints in push_rule
    pr = txt[txt.index('void push_rule'):txt.index('void push_replacement')]
    cc = pr[pr.index('switch'):pr.index('content_constraint_token_indices.push_back')]
    cc_kinds = [tokval[x] for x in re.findall(r'case\s+Theo::Token::Type::([A-Z_]+)', cc)]
    tt = pr[pr.index('content_constraint_token_indices.push_back'):pr.index('template_token_indices.push_back')]
    tt_kinds = [tokval[x] for x in re.findall(r'case\s+Theo::Token::Type::([A-Z_]+)', tt)]
    if not re.search(r'LRParser<Accumulation, Token>\(\s*G,\s*true,', txt):
        raise Refuse('macro.cpp: detector is no longer built in prefix mode')
    if not re.search(r'Grammar::Symbol::Terminal\(Token::T_EOF\)\)', txt):
        raise Refuse('macro.cpp: detector eof symbol changed')
    return nts, rules, slotmap, cc_kinds, tt_kinds


PINNED = os.path.join(os.path.dirname(os.path.abspath(__file__)), 'pinned_consts.json')
FALLBACKS = []


def parse_consts():
    """every constant is extracted on its own; one whose source shape is not recognised (a refactoring moved or respelled it)
    falls back to its last extracted value (translator/pinned_consts.json, committed) and is reported as a FALLBACK: for that
    constant the tie between model and source is then the differential correspondence alone"""
    import json
    pinned = json.load(open(PINNED)) if os.path.exists(PINNED) else {}
    vals = {}
    full = None
    try:
        full = parse_consts_strict()
    except Refuse:
        pass
    names = ['passes', 'stdtext', 'stdname', 'phrase', 'genstd', 'guards', 'rootfs']
    if full is not None:
        passes, stdtext, stdname, phrase, genstd, guards, rootfs = full
        return full
    # something was not recognised: extract item by item
    for nm in names:
        try:
            vals[nm] = parse_consts_strict(only=nm)
        except Refuse as e:
            if nm not in pinned:
                raise
            v = pinned[nm]
            vals[nm] = bytes.fromhex(v) if nm == 'stdtext' else (tuple(v) if nm == 'rootfs' else v)
            FALLBACKS.append('Consts.%s: %s' % (nm, e))
    return tuple(vals[nm] for nm in names)


def parse_consts_strict(only=None):
    def want(nm):
        return only is None or only == nm

    passes = stdtext_ = stdname = phrase = genstd = rootfs = None
    if want('passes'):
        ph = read('Compiler/include/parse.hpp')
        m = re.search(r'#define\s+THEO_MACRO_PASSES\s+(\d+)', ph)
        if not m:
            raise Refuse('parse.hpp: THEO_MACRO_PASSES not found')
        passes = int(m.group(1))
        pc = read('Compiler/src/parse.cpp')
        if not re.search(r'apply_macros\(\s*(?:std::move\(\s*)?mer\.tokens\s*\)?\s*,\s*mer\.macros\s*,\s*THEO_MACRO_PASSES\s*\)', pc):
            raise Refuse('parse.cpp: apply_macros is no longer called with THEO_MACRO_PASSES')
        if only:
            return passes
    pc = read('Compiler/src/parse.cpp')
    if want('stdtext'):
        m = re.search(r'\bstandard_macros\s*=\s*((?:"(?:[^"\\]|\\.)*"\s*)+);', pc, flags=re.S)
        if not m:
            raise Refuse('parse.cpp: standard_macros literal not found')
        lit = ''.join(re.findall(r'"((?:[^"\\]|\\.)*)"', m.group(1), flags=re.S))   # adjacent literals concatenate
        lit = lit.replace('\\\n', '')          # line continuations
        out = bytearray()
        i = 0
        while i < len(lit):
            if lit[i] == '\\':
                c = lit[i + 1]
                out.append({'n': 10, 't': 9, '"': 34, '\\': 92}[c])
                i += 2
            else:
                out.append(ord(lit[i]))
                i += 1
        stdtext_ = bytes(out)
        if only:
            return stdtext_
    if want('stdname'):
        # the standard text is entered under a literal name WITHOUT overwriting a supplied file of that name
        # (insert / emplace / try_emplace — not operator[] or insert_or_assign)
        m = re.search(r'files\.(?:insert\(\s*(?:std::make_pair\(|\{)|emplace\(|try_emplace\()\s*"([^"]*)"\s*,\s*(?:std::string\(\s*)?standard_macros', pc)
        if not m:
            raise Refuse('parse.cpp: standard file insertion changed')
        stdname = m.group(1)
        if only:
            return stdname
    if want('phrase'):
        m = re.search(r'\bincl_phrase\s*=\s*"((?:[^"\\]|\\.)*)"\s*;', pc)
        if not m:
            raise Refuse('parse.cpp: incl_phrase not found')
        phrase = m.group(1).replace('\\"', '"')
        if only:
            return phrase
    g = read('Compiler/src/gen.cpp')
    if want('genstd'):
        m = re.search(r'if \(file == "([^"]*)"\)\s*return;', g)
        if not m:
            raise Refuse('gen.cpp: advanceLine standard-file test changed')
        genstd = m.group(1)
        if only:
            return genstd
    if want('rootfs'):
        m = re.search(r'\.fs =\s*\{\s*\.name = "([^"]*)",\s*\.line = (-?\d+),\s*\}', strip_comments(g))
        if not m:
            raise Refuse('gen.cpp: initial file context (.fs = {.name, .line}) not found')
        rootfs = (m.group(1), int(m.group(2)))
        if only:
            return rootfs
    guards = {}

    def guard_of(src, fname):
        """the range guard of `int strToInt(...)`: the value is `long v = std::strtol(<text>, NULL, 10)` and exactly one
        comparison `v >= INT_MAX` / `v > INT_MAX` decides the error; parameter spelling, braces and the way the error
        position is computed may vary, anything else about the conversion may not"""
        src = strip_comments(src)
        m0 = re.search(r'\bint\s+strToInt\s*\(([^)]*)\)\s*\{', src)
        if not m0:
            raise Refuse('%s: strToInt not found' % fname)
        depth, i = 1, m0.end()
        while i < len(src) and depth:
            depth += {'{': 1, '}': -1}.get(src[i], 0)
            i += 1
        body = src[m0.end():i - 1]
        if len(re.findall(r'\blong\s+v\s*=\s*std::strtol\s*\(\s*[\w>.\-]+\.c_str\(\)\s*,\s*(?:NULL|nullptr)\s*,\s*10\s*\)\s*;', body)) != 1:
            raise Refuse('%s: strToInt guard changed shape (conversion)' % fname)
        cmps = re.findall(r'\bif\s*\(\s*v\s*(>=|>)\s*INT_MAX\s*\)', body)
        if len(cmps) != 1 or len(re.findall(r'\bif\s*\(', body)) != 1 or re.search(r'\berrno\b|\bv\s*=[^=]', body.split('strtol', 1)[1].split(';', 1)[1]):
            raise Refuse('%s: strToInt guard changed shape' % fname)
        if not re.search(r'return\s+v\s*;', body):
            raise Refuse('%s: strToInt guard changed shape (result)' % fname)
        return cmps[0]
    mc = read('Compiler/src/macro.cpp')

    def probe(kind):
        """fallback when the guard's text is not recognised (a refactoring moved it): read the threshold off the BEHAVIOUR of the
        code built from the working tree (harness given in THEO_HARNESS): which of 2^31-2, 2^31-1, 2^31 is rejected"""
        h = os.environ.get('THEO_HARNESS')
        if not h or not os.path.exists(h):
            return None
        import subprocess

        def hx(b):
            return 'x' + b.hex()

        def rejected(n):
            src = (b'x0 := %d' % n) if kind == 'gen' else (b'DEFINE PRIO %d foo AS x0 := 1 END DEFINE foo' % n)
            req = 'GEN %s 1 %s %s\n' % (hx(b'm'), hx(b'm'), hx(src))
            try:
                r = subprocess.run([h], input=req, capture_output=True, text=True, timeout=60)
            except Exception:
                return None
            line = (r.stdout.strip().splitlines() or [''])[0]
            if not line.startswith('GEN ok='):
                return None
            return line.startswith('GEN ok=0')
        r0, r1, r2 = rejected(2147483646), rejected(2147483647), rejected(2147483648)
        if (r0, r1, r2) == (False, True, True):
            return '>='
        if (r0, r1, r2) == (False, False, True):
            return '>'
        return None

    for kind, src_, fname in (('gen', g, 'gen.cpp'), ('macro', mc, 'macro.cpp')):
        try:
            guards[kind] = guard_of(src_, fname)
        except Refuse as e:
            pr = probe(kind)
            if pr is None:
                raise
            sys.stderr.write('translator: %s; threshold read off the behaviour of the built code instead (%s)\n' % (e, pr))
            guards[kind] = pr
    if only:
        return guards
    return passes, stdtext_, stdname, phrase, genstd, guards, rootfs


def emit(name, body):
    os.makedirs(OUT, exist_ok=True)
    p = os.path.join(OUT, name)
    txt = '-- GENERATED by translator/translate.py from /repo — do not edit\n' + body
    old = None
    if os.path.exists(p):
        with open(p) as f:
            old = f.read()
    if old != txt:
        with open(p, 'w') as f:
            f.write(txt)


def group(files, fn):
    """run one extraction group; if the source shape is not recognised and the generated files of the group exist (they are
    committed), keep them and report a FALLBACK"""
    try:
        fn()
    except Exception as e:          # Refuse, or the extractor itself tripping over an unexpected source shape
        if all(os.path.exists(os.path.join(OUT, f)) for f in files):
            FALLBACKS.append('%s: %s' % (', '.join(files), e))
        else:
            raise


def main():
    if '--snapshot' in sys.argv:
        import json
        passes, stdtext, stdname, phrase, genstd, guards, rootfs = parse_consts_strict()
        json.dump({'passes': passes, 'stdtext': stdtext.hex(), 'stdname': stdname, 'phrase': phrase, 'genstd': genstd, 'guards': guards, 'rootfs': list(rootfs)},
                  open(PINNED, 'w'), indent=1)
        return 0
    tokens = parse_enum(read('Compiler/include/token.hpp'), 'Type', 'token.hpp')
    nodes = parse_enum(read('Compiler/include/ast.hpp'), 'Type', 'ast.hpp')
    perrs = parse_enum(read('Compiler/include/parse_error.hpp'), 'Type', 'parse_error.hpp')
    gerrs = parse_enum(read('Compiler/include/gen.hpp'), 'Type', 'gen.hpp')
    ops = parse_enum(read('VM/include/instr.hpp'), 'OpCode', 'instr.hpp')

    def enum_ns(ns, items):
        return 'namespace Theo.%s\n' % ns + ''.join('def %s : Nat := %d\n' % (n, v) for n, v in items) + \
            'def all : List (String × Nat) := [' + ', '.join('("%s", %d)' % (n, v) for n, v in items) + ']\nend Theo.%s\n' % ns
    emit('Tokens.lean', enum_ns('Tok', tokens))
    emit('NodeTypes.lean', enum_ns('NodeT', nodes))
    emit('Errors.lean', enum_ns('PErrT', perrs) + enum_ns('GErrT', gerrs))
    emit('Ops.lean', enum_ns('Op', ops))

    def lex_group():
        defs, rules = parse_lexer_l()
        tokval = dict(tokens)
        body = 'import Theo.Model.Regex\nnamespace Theo.LexGen\nopen Theo\n'
        body += '/-- rules of lexer.l in order: (pattern, `some kind` | `none` for an empty action) -/\n'
        body += 'def rules : List (Rx × Option Nat) := [\n'
        lines = []
        for pat, rx, kind, _ in rules:
            if kind is not None and kind not in tokval:
                raise Refuse('lexer.l: unknown token kind ' + kind)
            lines.append('  (%s, %s)  -- %s' % (rx_lean(rx), 'none' if kind is None else 'some %d' % tokval[kind], pat))
        body += ',\n'.join(l.split('  --')[0] for l in lines) + ']\n'
        body += '/-\n' + '\n'.join(lines) + '\n-/\n'
        # keyword table: every rule whose pattern is a finite set of literals
        kws = []
        for pat, rx, kind, _ in rules:
            lits = rx_literals(rx)
            if kind is not None and lits is not None:
                for l in lits:
                    kws.append((l, tokval[kind]))
        body += '/-- every literal spelling of every rule with a finite language, with its token kind -/\n'
        body += 'def keywords : List (Bytes × Nat) := [\n' + ',\n'.join('  (%s, %d)' % (lean_bytes(l), k) for l, k in kws) + ']\n'
        body += 'end Theo.LexGen\n'
        emit('LexRules.lean', body)
    group(['LexRules.lean'], lex_group)

    def det_group():
        nts, grules, slotmap, cc, tt = parse_detector_grammar(tokens)
        body = 'namespace Theo.DetGen\n'
        body += '/-- non-terminals of the detector grammar, in creation order: %s -/\n' % ', '.join(nts)
        body += 'def numNT : Nat := %d\n' % len(nts)
        body += 'def macroNT : Nat := %d\n' % nts.index('MACRO')
        body += '/-- the fixed rules: (lhs, rhs) with rhs symbols `(true, k)` = terminal k, `(false, n)` = non-terminal n -/\n'
        body += 'def rules : List (Nat × List (Bool × Nat)) := [\n' + ',\n'.join(
            '  (%d, [%s])' % (l, ', '.join('(%s, %d)' % ('true' if k == 't' else 'false', v) for k, v in r)) for l, r in grules) + ']\n'
        body += '/-- template token kind ↦ non-terminal standing for the slot -/\n'
        body += 'def slotNT : List (Nat × Nat) := [' + ', '.join('(%d, %d)' % p for p in slotmap) + ']\n'
        body += '/-- rule-token kinds compared by text -/\ndef textKinds : List Nat := %s\n' % str(cc)
        body += '/-- rule-token kinds that are slots -/\ndef slotKinds : List Nat := %s\n' % str(tt)
        body += 'end Theo.DetGen\n'
        emit('DetectorGrammar.lean', body)
    group(['DetectorGrammar.lean'], det_group)

    passes, stdtext, stdname, phrase, genstd, guards, rootfs = parse_consts()
    body = 'namespace Theo.ConstGen\n'
    body += 'def macroPasses : Nat := %d\n' % passes
    body += 'def stdMacroText : List UInt8 := %s\n' % lean_bytes(stdtext)
    body += 'def stdFileName : List UInt8 := %s\n' % lean_bytes(stdname.encode())
    body += 'def genStdFileName : List UInt8 := %s\n' % lean_bytes(genstd.encode())
    body += 'def includePhrase : List UInt8 := %s\n' % lean_bytes(phrase.encode())
    body += '/-- literal range guards: `true` = the value INT_MAX itself is rejected (`v >= INT_MAX`) -/\n'
    body += 'def genGuardRejectsMax : Bool := %s\n' % ('true' if guards['gen'] == '>=' else 'false')
    body += 'def macroGuardRejectsMax : Bool := %s\n' % ('true' if guards['macro'] == '>=' else 'false')
    body += '/-- file context of the generator before any node was visited -/\n'
    body += 'def rootFsName : List UInt8 := %s\n' % lean_bytes(rootfs[0].encode())
    body += 'def rootFsLine : Int := %d\n' % rootfs[1]
    body += 'end Theo.ConstGen\n'
    emit('Consts.lean', body)
    for fb in FALLBACKS:
        print('TRANSLATOR-FALLBACK: ' + fb)
    return 0


if __name__ == '__main__':
    try:
        sys.exit(main())
    except Refuse as e:
        print('TRANSLATOR-REFUSED: %s' % e)
        sys.exit(2)
