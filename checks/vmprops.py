"""Checks for the VM / debugger properties C05, C06, C17, C19, C20 (and the VM stage of others)."""
import itertools
from checks.common import *
from gen import sources
from vlib import hx, unhx, fields, lst, files_req

INT_MAX = 2147483647


class Prog:
    """a compiled program as the implementation emitted it"""

    def __init__(self, f):
        self.text = ' '.join('%s=%s' % (k, f[k]) for k in ('code', 'maps', 'pb', 'li'))
        self.code = [c.split('.') for c in lst(f['code'], ',')]
        self.ops = [c[0] for c in self.code]
        self.li = {}
        for e in lst(f['li'], ','):
            i, bp = e.split('/')
            self.li[int(i)] = bp
        self.pb = {}
        for e in lst(f['pb'], ','):
            bp, idx = e.split('/')
            self.pb[bp] = [int(x) for x in lst(idx, '.')]
        self.maps = []
        for m in lst(f['maps'], ';'):
            name, es = m.split('/')
            self.maps.append((name, {int(e.split(':')[0]): e.split(':')[1] for e in lst(es, '.')}))
        self.sites = sorted(self.li)
        self.avail = sorted(self.pb)


def parse_dump(s):
    d = {}
    for part in s.split(';'):
        k, v = part.split('=', 1)
        d[k] = v
    return d


def compile_sources(ctx, n, big=False, layout='canonical', maxprogs=3):
    """generate n sources, compile them with the implementation; returns list of case dicts"""
    cases = []
    for _ in range(n):
        g = sources.Gen(ctx.rnd, big=big, maxprogs=maxprogs)
        defs, main = g.program()
        if layout == 'canonical':
            text, L = sources.canonical(defs, main, ctx.rnd)
        else:
            text, L = sources.text_of_tokens(sources.toks(defs, main), ctx.rnd), None
        cases.append({'defs': defs, 'main': main, 'files': {b'm': text.encode()}, 'mainf': b'm', 'L': L, 'text': text})
    reqs = ['GEN ' + files_req(c['mainf'], c['files']) for c in cases]
    outs = impl(ctx, reqs)
    good = []
    for c, o in zip(cases, outs):
        c['gen'] = o
        if is_crash(o):
            ctx.stage_broken('GEN crashed on a generated valid source', o[:300], c['text'])
            continue
        f = fields(o)
        if f.get('ok') != '1':
            continue
        c['prog'] = Prog(f)
        good.append(c)
    ctx.count('GEN', len(cases))
    return good


def fixed_programs():
    """hand-shaped small sources: several sites per line, sites in callees and loops"""
    return [
        "x0 := 1; x1 := 2;\nx2 := 3\n",
        "PROGRAM f IN a DO\n  x0 := a + 1\nEND\nx1 := 2;\nLOOP x1 DO\n  x2 := RUN f WITH x2 END\nEND\n",
        "x1 := 3; WHILE x1 != 0 DO x1 := x1 - 1;\n x2 := x2 + 2 END; x0 := x2\n",
        "PROGRAM g IN a, b OUT b DO\n  m: IF a = 0 THEN GOTO e;\n  a := a - 1; b := b + 2;\n  GOTO m;\n  e: b := b + 0\nEND\nx0 := RUN g WITH 2, 1 END;\nx0 := RUN g WITH x0, x0 END\n",
        "PROGRAM h IN a DO x0 := a; STOP END\nx1 := 1;\nx1 := RUN h WITH x1 END;\nx2 := 5\n",
        "x0 := 0\n",
        # STOP two and three calls below the script: the run ends with several activations open
        "PROGRAM h IN a DO x0 := a; STOP END\nPROGRAM g IN a, b DO x0 := RUN h WITH b END END\nPROGRAM k IN a DO x0 := RUN g WITH a, 4 END; x0 := 9 END\nx1 := 1;\nx1 := RUN k WITH x1 END;\nx2 := 5\n",
        "PROGRAM h IN a DO LOOP a DO STOP END END\nPROGRAM g IN a DO x0 := RUN h WITH a END END\nx1 := 2; x2 := RUN g WITH RUN g WITH 0 END END;\nx2 := RUN g WITH x1 END\n",
    ]


def deep_chain(d):
    lines = ['PROGRAM p1 IN a OUT a DO a := a + 1 END']
    for k in range(2, d + 1):
        lines.append('PROGRAM p%d IN a OUT a DO a := RUN p%d WITH a END END' % (k, k - 1))
    lines.append('x1 := 2;\nLOOP x1 DO\n  x0 := RUN p%d WITH x0 END\nEND' % d)
    return '\n'.join(lines) + '\n'


def boundary_depths():
    import glob, os, re
    out = {255, 256, 257, 300, 1025}
    for f in sorted(glob.glob(os.path.join(vlib.REPO, 'VM/src/*.cpp')) + glob.glob(os.path.join(vlib.REPO, 'VM/include/*.hpp'))):
        t = re.sub(r'//[^\n]*', '', open(f, errors='replace').read())
        for m in re.finditer(r'(?<![\w.])(\d{2,4})(?![\w.])', t):
            v = int(m.group(1))
            if 16 <= v <= 1100:
                out |= {v - 1, v, v + 1}
        for m in re.finditer(r'1u?\s*<<\s*(\d+)', t):
            if 4 <= int(m.group(1)) <= 10:
                out |= {2 ** int(m.group(1)) - 1, 2 ** int(m.group(1)), 2 ** int(m.group(1)) + 1}
    return sorted(out)


def get_path(ctx, progs, maxsteps):
    """the uninterrupted instruction path of each program (single steps, stepping off)"""
    reqs = ['VM %s ops=%s cap=10' % (p.text, ','.join(['s'] * maxsteps)) for p in progs]
    outs = impl(ctx, reqs, timeout=60)
    res = []
    for p, o in zip(progs, outs):
        if is_crash(o) or not o.startswith('VM '):
            res.append(('crash', o))
            continue
        st = [parse_dump(x) for x in o[3:].split('|')]
        init = {'ip': '0', 'data': '-', 'stk': '-'}
        path = [init] + st
        # cut after HALT is reached
        for k, s in enumerate(path):
            if p.ops[int(s['ip'])] == 'HALT':
                path = path[:k + 1]
                break
        res.append(path)
    return res


def random_history(rnd, p, length):
    hist = []
    bps = p.avail + p.avail + [hx(b'm') + ':%d' % rnd.randint(0, 30), hx(b'zz') + ':1']
    for _ in range(length):
        k = rnd.random()
        if k < 0.03:
            hist.append('k')       # keep value copies of the activation objects
        elif k < 0.06:
            hist.append('q')       # refresh the views of the kept copies (those still inside the data segment)
        elif k < 0.12:
            hist.append('v')       # inspect every activation and the locations
        elif k < 0.3:
            hist.append('s')
        elif k < 0.5:
            hist.append('e')
        elif k < 0.7:
            hist.append('b:' + rnd.choice(bps))
        elif k < 0.8:
            hist.append('d:' + rnd.choice(bps))
        elif k < 0.85:
            hist.append('c')
        elif k < 0.9:
            hist.append('r')
        else:
            hist.append(rnd.choice(['t1', 't0']))
    return hist


def expected_view(p, e):
    """the name -> value view of every activation of the path state `e`, computed from its raw memory and the stack maps"""
    data = lst(e['data'], '.')
    out = []
    for fr in lst(e['stk'], ','):
        start, size, rt, ra, dbg = [int(x) for x in fr.split('/')]
        name, m = p.maps[dbg]
        view = {}
        for reg in sorted(m):
            view[m[reg]] = data[start + reg]
        out.append(name + '@' + (','.join('%s=%s' % (k, view[k]) for k in sorted(view)) or '-'))
    return '/'.join(out) or '-'


def expected_history(p, path, hist):
    """Abstract debugger: position on the uninterrupted path + enabled set + stepping flag.
    Returns list of expected dicts (or None from the point where the recorded path is too short)."""
    k, stepping, enabled = 0, False, set()
    out = []
    complete = p.ops[int(path[-1]['ip'])] == 'HALT'
    for op in hist:
        ret = 0
        cut = False
        if op in ('s', 'e', 'E'):
            while True:
                ip = int(path[k]['ip'])
                opc = p.ops[ip]
                if opc == 'HALT':
                    r1 = True
                else:
                    r1 = (ip in p.li) and (stepping or p.li[ip] in enabled)
                    if k + 1 >= len(path):
                        cut = True
                        break
                    k += 1
                if op == 's' or r1:
                    break
            if cut:
                out.append(None)
                return out
            ret = 1 if r1 else 0
        elif op[0] == 'b':
            bp = op[2:]
            ret = 1 if bp in p.pb else 0
            if ret:
                enabled.add(bp)
        elif op[0] == 'd':
            bp = op[2:]
            ret = 1 if bp in p.pb else 0
            if ret:
                enabled.discard(bp)
        elif op == 'c':
            enabled = set()
        elif op == 'r':
            enabled, stepping, k = set(), False, 0
        elif op == 't1':
            stepping = True
        elif op == 't0':
            stepping = False
        ip = int(path[k]['ip'])
        out.append({'k': k, 'r': str(ret), 'ip': path[k]['ip'], 'data': path[k]['data'], 'stk': path[k]['stk'],
                    'st': str(int(stepping)), 'en': set(enabled),
                    'ops': ''.join('B' if p.li[s] in enabled else 'P' for s in p.sites) or '-',
                    'cur': p.li.get(ip - 1, 'none'), 'done': str(int(p.ops[ip] == 'HALT'))})
    return out


def tiles_ok(d):
    """C19 oracle on one dump: frames contiguous in call order and covering data exactly"""
    data = lst(d['data'], '.')
    pos = 0
    for a in lst(d['stk'], ','):
        start, size = a.split('/')[:2]
        if int(start) != pos or int(size) < 0:
            return False
        pos += int(size)
    return pos == len(data)


def range_ok(d):
    return all(0 <= int(w) <= INT_MAX for w in lst(d['data'], '.'))


def run_histories(ctx, cases, hists, with_acts=False):
    """send (program, history) pairs to both sides; returns list of (impl dumps | None, model line, impl line)"""
    reqs = ['VM %s ops=%s cap=20000%s' % (c['prog'].text, ','.join(h), ' acts=1' if with_acts else '') for c, h in zip(cases, hists)]
    a = impl(ctx, reqs, timeout=60)
    b = model(ctx, reqs, timeout=120) if ctx.driver else [None] * len(reqs)
    ctx.count('VM', len(reqs))
    ctx.count('VM', sum(len(h) for h in hists), 'calls')
    return a, b


def vm_correspondence(ctx, cases, hists, a, b):
    """model vs implementation on the VM stage (state after every call)"""
    for c, h, x, y in zip(cases, hists, a, b):
        if y is None:
            continue
        if is_crash(x):
            if 'FAULT' in y:
                continue   # both sides agree the C++ is undefined here
            ctx.stage_broken('VM stage: implementation crashed where the model is defined', x[:400],
                             {'source': c.get('text'), 'history': h})
            continue
        if x != y:
            xs, ys = x[3:].split('|'), y[3:].split('|')
            i = next((i for i, (p, q) in enumerate(zip(xs, ys)) if p != q), min(len(xs), len(ys)))
            ctx.stage_broken('VM stage: model and implementation differ after call %d (%s)' % (i, h[i] if i < len(h) else '?'),
                             'impl  %s\nmodel %s' % (xs[i] if i < len(xs) else '-', ys[i] if i < len(ys) else '-'),
                             {'source': c.get('text'), 'history': h[:i + 1]})


def debugger_suite(ctx, n_random, hist_len, exhaustive_len, big=False):
    """builds programs + histories, runs them, returns tuples for the per-property oracles"""
    cases = compile_sources(ctx, n_random - n_random // 3, big=big)
    if not big:
        # some programs whose values reach the top of the word range (saturating additions): the two ways of resuming
        # (execute / instruction by instruction) must agree there too
        cases += compile_sources(ctx, max(6, n_random // 6), big=True)
        for src in ("x0 := 2147483646;\nx1 := x0 + 5;\nx2 := x1 - 7\n",
                    "x0 := 2147483640;\nLOOP x0 DO x1 := x1 + 2147483646; x2 := x1 - 1; STOP END\n"):
            o = impl(ctx, ['GEN ' + files_req(b'm', {b'm': src.encode()})])[0]
            if not is_crash(o) and fields(o).get('ok') == '1':
                cases.append({'defs': [], 'main': [], 'files': {b'm': src.encode()}, 'mainf': b'm', 'text': src, 'prog': Prog(fields(o)), 'bigfixed': True})
    # two callees with frames of different sizes called one after the other (an activation object of the first kept while
    # the second runs)
    # (OUT declared, so that every NAMED register of the first callee has a small index: its frame is larger than the second
    # callee's only by temporaries)
    for src in ("PROGRAM h IN u, v OUT w DO w := u END\nPROGRAM f IN a OUT b DO\n  b := RUN h WITH a + 1, a + 2 END;\n  b := b + 1\nEND\n"
                "PROGRAM g IN p, q, r OUT p DO\n  p := q;\n  q := r\nEND\nx1 := RUN f WITH 1 END;\nx2 := RUN g WITH 1, 2, 3 END;\nx3 := 4\n",
                "PROGRAM h IN u, v DO x0 := u END\nPROGRAM f IN a DO\n  b := RUN h WITH a + 1, a + 2 END;\n  b := b + 1\nEND\n"
                "PROGRAM g IN p, q, r DO\n  p := q;\n  q := r\nEND\nx1 := RUN f WITH 1 END;\nx2 := RUN g WITH 1, 2, 3 END;\nx3 := 4\n",
                "PROGRAM g IN p DO\n  p := p + 1\nEND\nPROGRAM f IN a, b, c, d DO\n  a := RUN g WITH b END;\n  b := c\nEND\n"
                "LOOP x0 DO x1 := 1 END;\nx1 := RUN f WITH 1, 2, 3, 4 END;\nx2 := RUN g WITH RUN g WITH 5 END END;\nx3 := 4\n"):
        o = impl(ctx, ['GEN ' + files_req(b'm', {b'm': src.encode()})])[0]
        if not is_crash(o) and fields(o).get('ok') == '1':
            cases.append({'defs': [], 'main': [], 'files': {b'm': src.encode()}, 'mainf': b'm', 'text': src, 'prog': Prog(fields(o)), 'twocallees': True})
    # scripts that name no variable at all (a library file used as main file): the root frame has no register
    for src in ("STOP\n", "PROGRAM f IN a DO\n  x0 := a\nEND\nSTOP\n", "GOTO e;\ne: STOP\n"):
        o = impl(ctx, ['GEN ' + files_req(b'm', {b'm': src.encode()})])[0]
        if not is_crash(o) and fields(o).get('ok') == '1':
            cases.append({'defs': [], 'main': [], 'files': {b'm': src.encode()}, 'mainf': b'm', 'text': src, 'prog': Prog(fields(o))})
    # non-canonical layouts: several statements per line, headers sharing a line with other code, pieces in included files
    from checks import front as _front
    for (m, f, meta) in _front.program_files(ctx, n_random // 3, mutate_frac=0.0, multi_frac=0.6, big=big):
        o = impl(ctx, ['GEN ' + files_req(m, f)])[0]
        if not is_crash(o) and fields(o).get('ok') == '1':
            cases.append({'defs': meta['defs'], 'main': meta['main'], 'files': f, 'mainf': m, 'text': meta['text'], 'prog': Prog(fields(o))})
    # headers that continue a line after an include (a line is left for another file and re-entered)
    for _ in range(max(10, n_random // 4)):
        g = sources.Gen(ctx.rnd, big=big)
        defs, main = g.program()
        if not defs:
            continue
        fl = {k.encode(): v.encode() for k, v in sources.header_after_include(defs, main, ctx.rnd).items()}
        o = impl(ctx, ['GEN ' + files_req(b'm', fl)])[0]
        if not is_crash(o) and fields(o).get('ok') == '1':
            cases.append({'defs': defs, 'main': main, 'files': fl, 'mainf': b'm', 'text': {k.decode(): v.decode() for k, v in fl.items()}, 'prog': Prog(fields(o))})
    # call chains at boundary depths (powers of two around 256 / 1024 and every constant of the VM sources, +-1): the
    # language has no recursion, so depth d needs d chained definitions
    for d_ in boundary_depths():
        src = deep_chain(d_)
        o = impl(ctx, ['GEN ' + files_req(b'm', {b'm': src.encode()})], timeout=120)[0]
        if not is_crash(o) and fields(o).get('ok') == '1':
            cases.append({'defs': [], 'main': [], 'files': {b'm': src.encode()}, 'mainf': b'm', 'text': 'deep_chain(%d): p1 .. p%d, each calling the previous one, the last called twice in a LOOP' % (d_, d_),
                          'prog': Prog(fields(o)), 'deep': d_})
    fixed = []
    for src in fixed_programs():
        fixed.append({'defs': None, 'main': None, 'files': {b'm': src.encode()}, 'mainf': b'm', 'text': src})
    outs = impl(ctx, ['GEN ' + files_req(c['mainf'], c['files']) for c in fixed])
    for c, o in zip(fixed, outs):
        if not is_crash(o) and fields(o).get('ok') == '1':
            c['prog'] = Prog(fields(o))
    fixed = [c for c in fixed if 'prog' in c]
    allc = fixed + cases
    paths = get_path(ctx, [c['prog'] for c in allc], 700)
    keep = []
    for c, p in zip(allc, paths):
        if isinstance(p, tuple):
            msg = p[1]
            if 'signed integer overflow' in msg or 'cannot be represented' in msg:
                ctx.violation('vm-arith-ub', 'undefined arithmetic in the VM during an uninterrupted run: ' + msg[:300], {'source': c['text'], 'history': ['s'] * 700})
            else:
                ctx.violation('vm-crash', 'the VM crashed / timed out during an uninterrupted run (single steps): ' + msg[:300], {'source': c['text'], 'history': ['s'] * 700})
            continue
        c['path'] = p
        keep.append(c)
    jobs = []
    # exhaustive short histories on the fixed programs
    for c in [k for k in keep if k['defs'] is None]:
        p = c['prog']
        l1 = p.avail[0] if p.avail else hx(b'm') + ':1'
        l2 = p.avail[-1] if p.avail else hx(b'm') + ':2'
        alpha = ['s', 'e', 'v', 'b:' + l1, 'd:' + l1, 'b:' + l2, 'c', 't1', 't0', 'r']
        for ln in range(1, exhaustive_len + 1):
            for h in itertools.product(alpha, repeat=ln):
                jobs.append((c, list(h)))
    nex = len(jobs)
    for c in keep:
        for _ in range(2 if c['defs'] is not None else 4):
            jobs.append((c, random_history(ctx.rnd, c['prog'], ctx.rnd.randint(5, hist_len)) + ['v']))
    # call-stack views between the steps: stepping with a view at every stop; single steps with views at random points
    for c in keep:
        r = ctx.rnd
        jobs.append((c, ['t1'] + ['e', 'v'] * r.randint(3, 25) + ['t0', 'c'] + ['s', 'v'] * r.randint(3, 30)))
        h = []
        for _ in range(r.randint(10, 120)):
            h.append('s')
            if r.random() < 0.4:
                h.append('v')
        jobs.append((c, h + ['v']))
    for c in keep:
        if c.get('bigfixed'):
            # resumed by execute() itself, from the start and from a stop in the middle
            jobs.append((c, ['E', 'v']))
            jobs.append((c, ['s', 's', 'E', 'v']))
            if c['prog'].avail:
                jobs.append((c, ['b:' + c['prog'].avail[-1], 'E', 'v', 'E', 'v']))
    for c in keep:
        if c.get('deep'):
            jobs.append((c, ['e', 'v', 'e', 'e', 'v']))
            jobs.append((c, ['s'] * (4 * c['deep'] + 40) + ['v', 'e', 'v']))
    # activation objects kept across calls and returns: copies taken at every stop of a stepping run, refreshed later
    for c in keep:
        if c['defs'] is not None and c['defs'] != [] and len(c['defs']) >= 1:
            r = ctx.rnd
            h = ['t1']
            for _ in range(r.randint(4, 30)):
                h += ['e'] + (['k'] if r.random() < 0.4 else []) + (['q'] if r.random() < 0.5 else [])
            jobs.append((c, h + ['t0', 'e', 'q', 'v']))
    for c in keep:
        if c.get('twocallees') or (c['defs'] and len(c['defs']) >= 2):
            # one copy taken at the j-th stop, refreshed at every later stop
            for j in range(1, 9):
                jobs.append((c, ['t1'] + ['e'] * j + ['k'] + ['e', 'q'] * 16 + ['v']))
    for c in [k_ for k_ in keep if k_['defs'] is None]:
        jobs.append((c, ['t1'] + ['e', 'k', 'e', 'q'] * 12 + ['v']))
        jobs.append((c, ['s', 'k'] * 3 + ['s', 'q'] * 40 + ['v']))
    # toggling the line one is stopped on: step to the j-th stop, enable (or disable and re-enable) exactly that line, leave
    # stepping mode and resume — the next time the path comes by, it stops there
    for c in keep:
        for j in range(1, 7):
            pre = ['t1'] + ['e'] * j
            exp_ = expected_history(c['prog'], c['path'], pre)
            if not exp_ or exp_[-1] is None or exp_[-1]['cur'] == 'none' or exp_[-1]['done'] == '1':
                break
            cur = exp_[-1]['cur']
            jobs.append((c, pre + ['b:' + cur, 't0'] + ['e'] * 5 + ['v']))
            if j % 2 == 0:
                jobs.append((c, pre + ['b:' + cur, 'd:' + cur, 'b:' + cur, 't0'] + ['e'] * 4))
    # lines that own SEVERAL sites: enabled, then cleared / reset / disabled, then run — every one of their sites must be passive
    # again (and armed while enabled)
    for c in keep:
        multi = [bp for bp in c['prog'].avail if len(c['prog'].pb[bp]) >= 2]
        for bp in multi[:3]:
            for undo in ('c', 'r', 'd:' + bp):
                jobs.append((c, ['b:' + bp, undo] + ['e'] * 6 + ['v']))
            jobs.append((c, ['b:' + bp] + ['e'] * 8 + ['c', 'e', 'e']))
    # every available line enabled at once, then run: a stale or misplaced site shows up as a changed computation
    for c in keep:
        if c['defs'] is not None and len(c.get('files', {})) > 1:
            jobs.append((c, ['b:' + bp for bp in c['prog'].avail] + ['e'] * 12 + ['c', 'e']))
    # VM::execute() itself (op E) instead of the capped loop (op e) wherever the uninterrupted run is known to finish
    out = []
    for (c, h) in jobs:
        p_ = c['prog']
        complete = p_.ops[int(c['path'][-1]['ip'])] == 'HALT'
        if complete:
            h = [('E' if (op == 'e' and ctx.rnd.random() < 0.5) else op) for op in h]
        out.append((c, h))
    ctx.cov['exhaustive_histories'] = nex
    return out


def check_history_oracles(ctx, jobs, a, which):
    """property oracles on the implementation's outputs.  which ⊆ {'C05','C06','C17','C19','C20'}"""
    for (c, h), x in zip(jobs, a):
        p = c['prog']
        if is_crash(x):
            kind = 'crash'
            if ('signed integer overflow' in x or 'cannot be represented' in x) and 'C20' in which:
                ctx.violation('vm-arith-ub', 'undefined arithmetic in the VM: ' + x[:300], {'source': c['text'], 'history': h})
            elif which & {'C05', 'C06', 'C17', 'C19'}:
                ctx.violation('vm-crash', 'VM crashed / timed out during a debugger history: ' + x[:300], {'source': c['text'], 'history': h})
            continue
        dumps = [parse_dump(s) for s in x[3:].split('|')]
        exp = expected_history(p, c['path'], h)
        ctx.cov['evaluations'] += 1
        nstops = 0
        for i, (op, d) in enumerate(zip(h, dumps)):
            e = exp[i] if i < len(exp) else None
            if 'C19' in which and not tiles_ok(d):
                ctx.violation('frames-not-tiling', 'after call %d (%s) data memory is not exactly the live frames: data=%s stk=%s' % (i, op, d['data'], d['stk']),
                              {'source': c['text'], 'history': h[:i + 1]})
                break
            if 'C20' in which and not range_ok(d):
                ctx.violation('value-out-of-range', 'after call %d a stored value left [0, 2^31-1]: %s' % (i, d['data']), {'source': c['text'], 'history': h[:i + 1]})
                break
            if e is None:
                break
            if d['r'] == '1' and op in ('s', 'e', 'E') and d['done'] == '0':
                nstops += 1
            if 'C05' in which:
                if 'acts' in d and (d['ip'], d['data'], d['stk']) == (e['ip'], e['data'], e['stk']) and d['acts'] != expected_view(p, e):
                    ctx.violation('wrong-variable-view', 'after call %d (%s) the variables reported for the activations (%s) are not those of the uninterrupted run at the same point (%s)' % (
                        i, op, d['acts'][:300], expected_view(p, e)[:300]), {'source': c['text'], 'history': h[:i + 1]})
                    break
                if (d['ip'], d['data'], d['stk']) != (e['ip'], e['data'], e['stk']):
                    ctx.violation('off-path', 'after call %d (%s) the machine left the uninterrupted path: ip=%s data=%s, path[%d] has ip=%s data=%s' % (
                        i, op, d['ip'], d['data'], e['k'], e['ip'], e['data']), {'source': c['text'], 'history': h[:i + 1]})
                    break
            if 'C06' in which:
                bad = None
                if d['r'] != e['r'] and not (op == 'e' and d['r'] == '-1'):
                    bad = 'return value %s, expected %s' % (d['r'], e['r'])
                elif d['ip'] != e['ip']:
                    bad = 'stopped at ip %s, expected %s (path index %d)' % (d['ip'], e['ip'], e['k'])
                elif d['cur'] != e['cur']:
                    bad = 'current location %s, expected %s' % (d['cur'], e['cur'])
                elif set(lst(d['en'], ',')) != e['en']:
                    bad = 'enabled set %s, expected %s' % (d['en'], sorted(e['en']))
                elif d['st'] != e['st']:
                    bad = 'stepping flag %s' % d['st']
                if bad:
                    ctx.violation('wrong-stop', 'after call %d (%s): %s' % (i, op, bad), {'source': c['text'], 'history': h[:i + 1]})
                    break
            if 'C17' in which:
                if op == 'r':
                    fresh = d['ip'] == '0' and d['data'] == '-' and d['stk'] == '-' and d['st'] == '0' and d['en'] == '-' and \
                        d['cur'] == 'none' and set(d['ops']) <= {'P', '-'}
                    if not fresh:
                        ctx.violation('reset-not-fresh', 'after reset (call %d) the machine differs from a new one: %s' % (i, x.split('|')[i][:200]),
                                      {'source': c['text'], 'history': h[:i + 1]})
                        break
                if i > 0 and dumps[i - 1]['done'] == '1' and op in ('s', 'e', 'E'):
                    prev, curd = dict(dumps[i - 1]), dict(d)
                    prev.pop('r'), curd.pop('r')
                    prev.pop('acts', None), curd.pop('acts', None)
                    if prev != curd or d['r'] != '1':
                        ctx.violation('end-not-absorbing', 'a step after the end changed the machine (call %d)' % i, {'source': c['text'], 'history': h[:i + 1]})
                        break
                if (d['ops'], d['ip'], d['data'], d['stk'], d['st']) != (e['ops'], e['ip'], e['data'], e['stk'], e['st']) or set(lst(d['en'], ',')) != e['en']:
                    ctx.violation('history-after-reset-differs', 'after call %d (%s) the machine differs from the fresh-machine run of the suffix' % (i, op),
                                  {'source': c['text'], 'history': h[:i + 1]})
                    break
        key = str(c['text']) + '|' + ','.join(h)
        if 'C17' in which:
            if 'r' in h[:-1]:
                ctx.nontrivial(key)
        elif 'C19' in which:
            if any(len(lst(d['stk'], ',')) > 1 for d in dumps):
                ctx.nontrivial(key)
        elif 'C20' in which:
            if any(int(w) > 1000000 for d in dumps for w in lst(d['data'], '.')):
                ctx.nontrivial(key)
        elif nstops > 0 or any(o[0] in 'bd' for o in h):
            ctx.nontrivial(key)
        ctx.dist('history_len_%d' % (min(len(h), 40) // 10 * 10))


LEAN_VM = {
    'C05': (['Theo.Props.C05'], ['Theo.C05_on_path', 'Theo.C05_code_only_breaks', 'Theo.C05_same_end']),
    'C06': (['Theo.Props.C06'], ['Theo.C06_single_stops_iff', 'Theo.C06_execute_stops', 'Theo.C06_current_break',
                                 'Theo.C06_initial_none', 'Theo.C06_enable_iff', 'Theo.C06_enabled_set']),
    'C17': (['Theo.Props.C17'], ['Theo.C17_end_absorbing', 'Theo.C17_reset_fresh', 'Theo.C17_reset_history']),
    'C19': (['Theo.Props.C19'], ['Theo.C19_frames_tile', 'Theo.C19_memory_is_live_frames']),
    'C20': (['Theo.Props.C20', 'Theo.Props.C20Guards'],
            ['Theo.C20_values_in_range', 'Theo.C20_sub_truncates', 'Theo.C20_add_saturates', 'Theo.C20_add_exact',
             'Theo.C20_guard_threshold', 'Theo.C20_literal_guard', 'Theo.C20_literal_exact', 'Theo.C20_number_node_guard',
             'Theo.C20_priority_guard', 'Theo.C20_const_in_range']),
}


def hypotheses_on_programs(ctx, cases):
    """the theorems' hypotheses are decidable facts about the loaded program; evaluate them on every
    program the implementation emitted (so that the theorems apply to each of them)"""
    for c in cases:
        p = c['prog']
        bad = None
        for bp, idx in p.pb.items():
            for i in idx:
                if not (0 <= i < len(p.ops)) or p.ops[i] != 'PB':
                    bad = 'SitesOK: listed site %d of %s is not POTENTIAL_BREAK' % (i, bp)
        if 'BRK' in p.ops:
            bad = 'SitesOK: loaded program contains BREAK'
        for ins in p.code:
            if ins[0] == 'PREP' and int(ins[1]) < 0:
                bad = 'NonNegPrepare: PREPARE count %s' % ins[1]
            if ins[0] == 'CONST' and not (0 <= int(ins[2]) <= INT_MAX):
                bad = 'ConstOK: constant %s' % ins[2]
        inv = {}
        for bp, idx in p.pb.items():
            for i in idx:
                inv[i] = bp
        if inv != p.li or set(i for i, o in enumerate(p.ops) if o == 'PB') != set(p.li):
            bad = 'TablesInverse fails'
        if bad:
            ctx.violation('hypothesis-' + bad.split(':')[0], 'a compiled program violates a hypothesis of the VM theorems: ' + bad, {'source': c['text']})


BOUNDARY_LITS = ['0', '7', '2147483645', '2147483646', '2147483647', '2147483648', '4294967295', '4294967296', '4294967297',
                 '9223372036854775807', '9223372036854775808', '18446744073709551616', '99999999999999999999', '1' + '0' * 24]
LITERAL_TEMPLATES = ['x0 := %s\n', 'x0 := x1 + %s\n', 'x0 := x1 - %s\n', 'IF x0 = %s THEN GOTO m; m: x1 := 1\n',
                     'PROGRAM f IN a DO x0 := a END\nx1 := RUN f WITH %s END\n',
                     'DEFINE PRIO %s foo AS x0 := 1 END DEFINE\nfoo\n', 'DEFINE foo <ID> AS $%s := 1 END DEFINE\nfoo x\n',
                     # in a definition that is used and later redefined; in a definition that is never called
                     'PROGRAM f IN a DO x0 := %s END\nPROGRAM g IN a DO x0 := RUN f WITH a END END\nPROGRAM f IN a DO x0 := a END\nx1 := RUN g WITH 1 END\n',
                     'PROGRAM f IN a DO x0 := a + %s END\nx1 := 1\n']


def literal_guard_oracle(ctx):
    """integer literals and priorities that do not fit the word are rejected at compile time"""
    lits = list(BOUNDARY_LITS)
    for _ in range(ctx.n(10, 60)):
        lits.append(str(ctx.rnd.choice([2 ** 31 - 1, 2 ** 32, 2 ** 63, 10 ** ctx.rnd.randint(1, 24)]) + ctx.rnd.randint(-3, 3)))
    tmpl = LITERAL_TEMPLATES
    cases = [(t % l, l, k) for l in lits for k, t in enumerate(tmpl)]
    reqs = ['GEN ' + files_req(b'm', {b'm': c[0].encode()}) for c in cases]
    a = impl(ctx, reqs)
    b = model(ctx, reqs) if ctx.driver else [None] * len(reqs)
    ctx.count('GEN', len(reqs))
    for (src, lit, k), x, y in zip(cases, a, b):
        ctx.cov['evaluations'] += 1
        if is_crash(x):
            ctx.violation('literal-ub', 'compiling a source with the literal %s crashed / hit undefined behaviour: %s' % (lit, x[:250]), {'source': src})
            continue
        ok = fields(x)['ok'] == '1'
        v = int(lit)
        # insertion index: must additionally name a slot (only $0 exists)
        should_fail = v >= INT_MAX or (k == 6 and v != 0)
        if ok == should_fail:
            ctx.violation('literal-guard', 'literal %s in `%s`: %s, expected %s' % (lit, src.strip()[:60], 'accepted' if ok else 'rejected',
                                                                                    'a range error' if should_fail else 'acceptance'), {'source': src})
        if y is not None and not is_crash(y) and fields(y).get('ok') != fields(x).get('ok'):
            ctx.stage_broken('GEN stage: verdict differs on a literal', 'impl %s model %s' % (fields(x).get('ok'), fields(y).get('ok')), {'source': src})
        if v >= INT_MAX - 2:
            ctx.nontrivial(src)
    # the literal in a SUPPLIED file bearing the hidden standard file's name (a project prelude repeating the built-in operators):
    # it is a source file like any other
    from checks.frontprops import std_macro_text
    stdt = std_macro_text()
    sreqs, smeta = [], []
    for lit in lits:
        for body in (b'PROGRAM f IN a DO x0 := %s END\n', b'PROGRAM f IN a DO x0 := a + %s END\n', b'x9 := %s ;\n'):
            fl = {b'm': b'x1 := RUN f WITH 1 END\n' if body.startswith(b'PROGRAM') else b'x1 := 1\n', b'__standards__': stdt + b'\n' + body % lit.encode()}
            sreqs.append('GEN ' + files_req(b'm', fl))
            smeta.append((lit, fl))
    for (lit, fl), o in zip(smeta, impl(ctx, sreqs)):
        ctx.cov['evaluations'] += 1
        desc = {k.decode(): v.decode('latin1') for k, v in fl.items()}
        if is_crash(o):
            ctx.violation('literal-ub', 'compiling a source with the literal %s in a supplied standard file crashed: %s' % (lit, o[:200]), desc)
        elif (fields(o)['ok'] == '1') == (int(lit) >= INT_MAX):
            ctx.violation('literal-guard', 'literal %s in a supplied file named like the standard file: %s' % (lit, 'accepted' if fields(o)['ok'] == '1' else 'rejected'), desc)
    # the same sources parsed ONCE and generated three times from the same syntax tree: every generation gives the verdict,
    # the errors and the code of compile()
    n_ = impl(ctx, ['GENN ' + files_req(b'm', {b'm': c[0].encode()}) + ' 3' for c in cases])
    ctx.count('GEN', 3 * len(cases), 'generations from a shared tree')
    for (src, lit, k), x, o in zip(cases, a, n_):
        ctx.cov['evaluations'] += 1
        if is_crash(o):
            if not is_crash(x):
                ctx.violation('literal-ub', 'generating three times from one syntax tree crashed: ' + o[:250], {'source': src, 'api': 'parse once, gen three times'})
            continue
        fo = fields(o)
        if fo['differ'] != '-1':
            ctx.violation('regeneration-differs', 'generation %s from the same syntax tree differs from the first one (source with the literal %s): %s' % (
                fo['differ'], lit, unhx(fo['second']).decode('latin1')[:200]), {'source': src, 'api': 'parse once, gen three times'})
        elif not is_crash(x) and (fo['ok'], fo['errs'], fo['code']) != (fields(x)['ok'], fields(x)['errs'], fields(x)['code']):
            ctx.violation('regeneration-differs', 'gen on a parsed tree gives another verdict / errors / code than compile() on the same files', {'source': src, 'api': 'parse, gen vs compile'})


def check_vm_property(ctx):
    pid = ctx.pid
    mods, thms = LEAN_VM[pid]
    build_all(ctx, mods, thms)
    if ctx.harness is None:
        return finish(ctx)
    big = pid == 'C20'
    jobs = debugger_suite(ctx, ctx.n(60, 600), ctx.n(30, 200), ctx.n(3, 4) if pid in ('C05', 'C06', 'C17') else 2, big=big)
    if pid == 'C19':
        # calls inside long-running loops
        for src in ["PROGRAM f IN a DO x0 := a END\nx1 := 50;\nLOOP x1 DO\n  x2 := RUN f WITH x2 END\nEND\n",
                    "PROGRAM f IN a DO x0 := a + 1 END\nPROGRAM g IN a DO x0 := RUN f WITH RUN f WITH a END END END\nx1 := 9;\nLOOP x1 DO x2 := RUN g WITH x2 END END\n"]:
            o = impl(ctx, ['GEN ' + files_req(b'm', {b'm': src.encode()})])[0]
            if not is_crash(o) and fields(o).get('ok') == '1':
                c = {'defs': None, 'text': src, 'prog': Prog(fields(o))}
                c['path'] = get_path(ctx, [c['prog']], 1500)[0]
                if isinstance(c['path'], tuple):
                    ctx.violation('vm-crash', 'the VM crashed during calls inside a long-running loop: ' + c['path'][1][:300], {'source': src, 'history': ['s'] * 1500})
                elif c['path']:
                    jobs.append((c, ['s'] * 1200))
                    jobs.append((c, ['t1'] + ['e'] * 150))
    if pid in ('C19', 'C05', 'C17'):
        # frames at the edges of small integer types: the callee's frame size (the count of its PREPARE) raised to
        # 255 … 70000 registers in otherwise unchanged compiler output; a few calls in a loop
        src = "PROGRAM f IN a OUT r DO r := a + 1 END\nx1 := 3;\nLOOP x1 DO x2 := RUN f WITH x2 END END\n"
        o = impl(ctx, ['GEN ' + files_req(b'm', {b'm': src.encode()})])[0]
        if not is_crash(o) and fields(o).get('ok') == '1':
            f0 = fields(o)
            ins = f0['code'].split(',')
            calls = [i for i, x in enumerate(ins) if x.startswith('PREP.') and i > 0]
            for size in (255, 256, 257, 32767, 32768, 65535, 65536, 65537, 70000):
                if len(calls) != 1:
                    break
                parts = ins[calls[0]].split('.')
                ins2 = list(ins)
                ins2[calls[0]] = '.'.join([parts[0], str(size)] + parts[2:])
                f2 = dict(f0)
                f2['code'] = ','.join(ins2)
                c = {'defs': None, 'text': src + '// callee frame size raised to %d' % size, 'prog': Prog(f2)}
                c['path'] = get_path(ctx, [c['prog']], 200)[0]
                if isinstance(c['path'], tuple):
                    ctx.violation('vm-crash', 'the VM crashed with a callee frame of %d registers: %s' % (size, c['path'][1][:200]), {'source': c['text'], 'history': ['s'] * 200})
                elif c['path']:
                    jobs.append((c, ['s'] * 60))
                    jobs.append((c, ['t1', 'e', 'e', 'e', 'e', 't0', 'e', 'r', 'e']))
    if pid == 'C20':
        literal_guard_oracle(ctx)
        for src in ["x0 := 2147483646;\nx0 := x0 + 5\n", "x0 := 2147483646; x1 := x0 + 2147483646; x2 := x1 + 2147483646\n",
                    "x0 := 1073741824;\nLOOP x0 DO x0 := x0 + 1073741823; STOP END\n", "x0 := 3; x0 := x0 - 2147483646; x1 := x0 - 1\n",
                    "x1 := 2147483646;\nx0 := 31;\nLOOP x0 DO x2 := x2 + 2147483646; x2 := x2 + 2147483646 END\n"]:
            o = impl(ctx, ['GEN ' + files_req(b'm', {b'm': src.encode()})])[0]
            if not is_crash(o) and fields(o).get('ok') == '1':
                c = {'defs': None, 'text': src, 'prog': Prog(fields(o))}
                pth = get_path(ctx, [c['prog']], 300)[0]
                if isinstance(pth, tuple):
                    ctx.violation('vm-arith-ub', 'the VM crashed on an addition near 2^31: ' + pth[1][:300], {'source': src, 'history': ['s'] * 40})
                    continue
                c['path'] = pth
                jobs.append((c, ['s'] * 200))
    cases = [j[0] for j in jobs]
    hists = [j[1] for j in jobs]
    a, b = run_histories(ctx, cases, hists)
    vm_correspondence(ctx, cases, hists, a, b)
    check_history_oracles(ctx, jobs, a, {pid})
    seen = {}
    for c in cases:
        seen[id(c)] = c
    hypotheses_on_programs(ctx, list(seen.values()))
    ctx.cov['programs'] = len(seen)
    ctx.cov['rule'] = {
        'C05': 'debugger histories (exhaustive up to the stated length on 6 fixed programs + random on compiled random sources); non-trivial = history with a breakpoint call or a stop at a site',
        'C06': 'same histories; non-trivial = history containing a breakpoint call or a stop at a site',
        'C17': 'same histories; non-trivial = history with a reset that is followed by further calls',
        'C19': 'single-step and stepping runs; non-trivial = run in which a callee frame is live at some point',
        'C20': 'runs of sources with literals near 2^31; non-trivial = run in which a stored value exceeds 10^6',
    }[pid]
    if jobs:
        ctx.sample({'source': jobs[-1][0]['text'], 'history': jobs[-1][1][:40]})
        ctx.sample({'source': jobs[0][0]['text'], 'history': jobs[0][1][:40]})
    return finish(ctx)
