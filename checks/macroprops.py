"""Checks for C09 (faithful substitution), C12 (ambiguous patterns rejected), C13 (LR(1) generator)."""
import itertools
from checks.common import *
from checks import front
from checks.frontprops import parse_toks, parse_perrs
from gen import macrooracle as mo
from vlib import hx, unhx, fields, lst, files_req

C09_THMS = ['Theo.C09_step_splice', 'Theo.C09_instantiate', 'Theo.C09_detect_leftmost', 'Theo.C09_detect_none', 'Theo.C09_step_none',
            'Theo.C09_highest_priority', 'Theo.C09_leftmost_longest', 'Theo.C09_runs_to_fixpoint',
            'Theo.C09_match_derives', 'Theo.C09_text_constraints', 'Theo.C09_match_complete']
C12_THMS = ['Theo.C12_rejected_reported', 'Theo.C12_accepted_silent', 'Theo.C12_never_applied', 'Theo.C12_independent',
            'Theo.C12_detector_is_prefix_lr', 'Theo.C12_accepted_deterministic', 'Theo.C12_nondeterministic_rejected',
            'Theo.C12_ends_in_P_or_ARGS', 'Theo.C12_lr1_accepted', 'Theo.C12_conflict_not_lr1', 'Theo.C13_lr1_no_conflict', 'Theo.C13_lr1_satisfiable',
            'Theo.C12_accepted_lr1', 'Theo.C12_accepted_iff_lr1', 'Theo.C12_rejected_iff_not_lr1', 'Theo.C12ConverseExample.assignMacro_lr1']
C13_THMS = ['Theo.C13_first_correct', 'Theo.C13_nullable_correct', 'Theo.C13_sound_full', 'Theo.C13_sound_prefix',
            'Theo.C13_value_is_fold', 'Theo.C13_reject', 'Theo.C13_complete_full', 'Theo.C13_complete_prefix', 'Theo.C13_fuel_mono',
            'Theo.C13_unambiguous', 'Theo.C13_ambiguous_conflict', 'Theo.C13_prefix_unique', 'Theo.C13_no_conflict_lr1', 'Theo.C13_no_conflict_iff_lr1']

TOKK = {'(': 5, ')': 4, ',': 6, ';': 7, ':': 8, ':=': 9, '=': 11, 'DO': 12, 'LOOP': 13, 'GOTO': 15, 'THEN': 17, 'STOP': 18, 'END': 19,
        'RUN': 36, 'WITH': 37, '<P>': 29, '<V>': 30, '<ID>': 31, '<INT>': 32, '<A>': 33, 'IF': 16, 'WHILE': 14, '!= 0': 10}


def tok(text):
    if text in TOKK:
        return (TOKK[text], text)
    if text[0] == '$':
        return (34, text)
    if text[0] == '#':
        return (35, text)
    if text.isdigit():
        return (3, text)
    if text[0].isalpha():
        return (1, text)
    return (2, text)


def macro_families():
    """fixed families: ties, overlaps, literal constraints, each slot kind"""
    return [
        [(1, ['foo', '<ID>'], ['(', '$0', ')']), (1, ['foo'], ['bar'])],                       # same start, different length
        [(2, ['<V>', '+', '<V>'], ['add', '(', '$0', ',', '$1', ')']), (3, ['<V>', '*', '<V>'], ['mul', '(', '$0', ',', '$1', ')'])],
        [(1, ['<ID>', '(', '<A>', ')'], ['RUN', '$0', 'WITH', '$1', 'END'])],
        [(1, ['{', '<P>', '}'], ['$0', ';', '$0'])],
        [(1, ['a', 'b'], ['x']), (1, ['b', 'c'], ['y']), (2, ['c'], ['z'])],                  # overlapping candidates, priorities
        [(1, ['<INT>', '<INT>'], ['$1', '$0']), (1, ['1', '<INT>'], ['one'])],                  # literal INT constraint
        [(1, ['foo', '<V>', 'bar'], ['$0'])],
        # equal priority, later definition starts further right but is longer, overlapping
        [(1, ['a', 'b'], ['x']), (1, ['b', 'c', 'c'], ['y'])],
        [(2, ['<V>', '-', '<V>'], ['sub', '(', '$0', ',', '$1', ')']), (2, ['<V>', '+', '<V>'], ['add', '(', '$0', ',', '$1', ')'])],
        [(1, ['c'], ['z']), (1, ['b', 'c'], ['y']), (1, ['a', 'b', 'c'], ['x'])],            # same end, different starts
        [(1, ['a', '<ID>'], ['p']), (1, ['<ID>', 'b', '<ID>'], ['q'])],
        [(3, ['a'], ['b']), (2, ['b'], ['c']), (1, ['c'], ['d'])],                             # chains through priorities
    ]


def build_case(rnd, fam, stream_len):
    VOC = ['foo', 'bar', 'a', 'b', 'c', '1', '2', '+', '*', '(', ')', '{', '}', ';', ',', ':=', 'RUN', 'WITH', 'END', 'x']
    stream = [rnd.choice(VOC) for _ in range(stream_len)]
    src = '\n'.join('DEFINE PRIO %d %s AS %s END DEFINE' % (pr, ' '.join(pat), ' '.join(body)) for (pr, pat, body) in fam) + '\n' + ' '.join(stream)
    return fam, stream, src


def check_C09(ctx):
    build_all(ctx, ['Theo.Props.C09', 'Theo.Props.C09Semantic'], C09_THMS)
    if ctx.harness is None:
        return finish(ctx)
    r = ctx.rnd
    cases = []
    for fam in macro_families():
        for _ in range(ctx.n(40, 400)):
            cases.append(build_case(r, fam, r.randint(1, 7)))
        # exhaustive short streams over the family's own literals (plus one filler)
        lits = sorted({t for (_, pat, _) in fam for t in pat if t not in front.SLOTS} | {'k'})[:5]
        if len(lits) <= 4:
            for ln in range(1, ctx.n(4, 5) + 1):
                for st in itertools.product(lits, repeat=ln):
                    src = '\n'.join('DEFINE PRIO %d %s AS %s END DEFINE' % (pr, ' '.join(pat), ' '.join(body)) for (pr, pat, body) in fam) + '\n' + ' '.join(st)
                    cases.append((fam, list(st), src))
    # wide macros: 9 to 22 slots, bodies that insert slots with one- and two-digit numbers; use sites with all fillers distinct
    for k in (9, 10, 11, 12, 13, 21, 22):
        for _ in range(ctx.n(3, 12)):
            kinds = [r.choice(['<ID>', '<INT>']) for _ in range(k)]
            pat = ['w%d' % k] + kinds
            idx = sorted(set([0, 1, k - 1, min(10, k - 1), min(11, k - 1), min(12, k - 1), min(20, k - 1)] + [r.randrange(k) for _ in range(3)]))
            r.shuffle(idx)
            body = []
            for j in idx:
                body += ['$%d' % j, ',']
            inst = ['w%d' % k] + [('v%d' % j if kinds[j] == '<ID>' else str(100 + j)) for j in range(k)]
            fam = [(1, pat, body[:-1])]
            stream = ['x', ':='] + inst + [';', 'k']
            src = 'DEFINE PRIO 1 %s AS %s END DEFINE\n%s' % (' '.join(pat), ' '.join(body[:-1]), ' '.join(stream))
            cases.append((fam, stream, src))
    # every slot kind at the START of a pattern (and behind a literal), filled with content that begins with EVERY token the
    # slot's grammar can begin with: statements starting with an identifier, a label, LOOP, WHILE, GOTO, IF, STOP; values
    # starting with an identifier, a number, RUN
    FIRSTS = {
        '<P>': [['a', ':=', '1'], ['m', ':', 'a', ':=', '1'], ['LOOP', 'a', 'DO', 'b', ':=', '1', 'END'], ['WHILE', 'a', '!=', '0', 'DO', 'a', ':=', 'b', 'END'],
                ['GOTO', 'm'], ['IF', 'a', '=', '2', 'THEN', 'GOTO', 'm'], ['STOP'], ['STOP', ';', 'a', ':=', '1'], ['a', ':=', '1', ';', 'STOP']],
        '<V>': [['b'], ['7'], ['RUN', 'f', 'WITH', 'a', ',', '1', 'END'], ['RUN', 'f', 'WITH', 'END']],
        '<A>': [['b'], ['7', ',', 'b'], ['RUN', 'f', 'WITH', 'a', 'END', ',', '2']],
        '<ID>': [['b'], ['stop0'], ['Loop1']],
        '<INT>': [['0'], ['7'], ['2147483646']],
    }
    for slot, fills in FIRSTS.items():
        for (pat, body) in (([slot, 'WHEN', '<ID>'], ['LOOP', '$1', 'DO', '$0', 'END'] if slot == '<P>' else ['k', '(', '$0', ')', '$1']),
                            (['ON', '<ID>', 'TAKE', slot, 'OK'], ['$1', '#0', '$0'])):
            fam = [(2, pat, body)]
            for f in fills:
                for pre, post in (([], []), (['q', ':=', '3', ';'], [';', 'z']), (['STOP', ';'], [])):
                    inst = []
                    for t in pat:
                        inst += f if t == slot else (['e'] if t == '<ID>' else [t])
                    stream = pre + inst + post
                    src = 'DEFINE PRIO 2 %s AS %s END DEFINE\n%s' % (' '.join(pat), ' '.join(body), ' '.join(stream))
                    cases.append((fam, stream, src))
    # operators of the same SHAPE (`<V> op <V>`) in different priority bins, with shared operands, multi-token left operands and
    # parentheses whose removal completes a use far to the left
    ARITH = [(10, ['<V>', '+', '<V>'], ['RUN', 'add', 'WITH', '$0', ',', '$1', 'END']), (20, ['<V>', '*', '<V>'], ['RUN', 'mul', 'WITH', '$0', ',', '$1', 'END']),
             (5, ['(', '<V>', ')'], ['$0'])]
    for fam in (ARITH, [ARITH[1], ARITH[0], ARITH[2]], ARITH[:2], [(20, ARITH[0][1], ARITH[0][2]), (10, ARITH[1][1], ARITH[1][2])]):
        for stream in (['r', ':=', 'a', '+', 'b', '*', 'c'], ['r', ':=', 'a', '*', 'b', '+', 'c', '*', 'a'], ['r', ':=', 'b', '*', 'c', '+', 'a'],
                       ['r', ':=', 'RUN', 'twice', 'WITH', '3', 'END', '+', '(', '4', '*', '5', ')'], ['r', ':=', '(', 'a', '+', 'b', ')', '*', 'c'],
                       ['r', ':=', 'RUN', 'f', 'WITH', 'RUN', 'g', 'WITH', '1', ',', '2', 'END', 'END', '*', '(', '(', 'a', ')', ')', '+', '1'],
                       ['r', ':=', 'a', '+', 'b', '+', 'c', '*', 'd', '*', 'e']):
            src = '\n'.join('DEFINE PRIO %d %s AS %s END DEFINE' % (pr, ' '.join(pat), ' '.join(body)) for (pr, pat, body) in fam) + '\n' + ' '.join(stream)
            cases.append((fam, stream, src))
    # layered macros: the inner macro's keyword / punctuation occurs NOWHERE in the source outside the definitions — it reaches
    # the stream only through the outer macro's body
    for K in ['(', ')', ':=', '=', ';', ',', ':', 'GOTO', 'IF', 'THEN', 'LOOP', 'DO', 'WHILE', 'STOP', 'RUN', 'WITH', 'END', '+', '7']:
        for prio_in, prio_out in ((2, 2), (5, 1), (1, 5)):
            fam = [(prio_out, ['aa', '<ID>'], ['bb', K, '$0']), (prio_in, ['bb', K, '<ID>'], ['zz', '$0', 'zz'])]
            for stream in (['aa', 'x'], ['q', 'aa', 'x', 'q', 'aa', 'y']):
                src = '\n'.join('DEFINE PRIO %d %s AS %s END DEFINE' % (pr, ' '.join(pat), ' '.join(body)) for (pr, pat, body) in fam) + '\n' + ' '.join(stream)
                cases.append((fam, stream, src))
    for _ in range(ctx.n(300, 3000)):
        macros, stream, src = front.macro_case(r)
        cases.append((macros, stream, src))
    # permuted definition order (the chosen step must be order-independent when the optimum is unique)
    perm = []
    for (macros, stream, src) in cases[:ctx.n(150, 1000)]:
        if len(macros) > 1:
            m2 = list(macros)
            r.shuffle(m2)
            src2 = '\n'.join('DEFINE PRIO %d %s AS %s END DEFINE' % (pr, ' '.join(pat), ' '.join(body)) for (pr, pat, body) in m2) + '\n' + ' '.join(stream)
            perm.append((m2, stream, src2))
    cases += perm
    texts = [c[2] for c in cases]
    toks = front.scan_tokens(ctx, texts)
    ex = impl(ctx, ['EXTRACT ' + t for t in toks])
    jobs, meta = [], []
    budgets = [1, 2, 3, 4]
    for c, e in zip(cases, ex):
        if is_crash(e):
            ctx.violation('extract-crash', 'extract_macros crashed: ' + e[:200], {'source': c[2]})
            continue
        f = fields(e)
        for b in budgets:
            jobs.append((b, f['macros'], f['out']))
            meta.append((c, b, f))
    a, m = front.corr_apply(ctx, jobs, [x[0][2] for x in meta])
    P = front.pe()
    per = {}
    for (c, b, f), x in zip(meta, a):
        if is_crash(x):
            ctx.violation('apply-crash', 'apply_macros crashed: ' + x[:200], {'source': c[2], 'passes': b})
            continue
        per.setdefault(id(c), {'case': c, 'ex': f})[b] = fields(x)
    for _, d in per.items():
        c = d['case']
        fam = c[0]
        ctx.cov['evaluations'] += 1
        # pattern / body tokens as the extraction saw them
        mtoks = []
        for ms in lst(d['ex']['macros'], ';'):
            pr, rule, cc, tt, body = ms.split('|')
            mtoks.append((int(pr), [(t[0], t[1].decode('latin1')) for t in parse_toks(rule)], [(t[0], t[1].decode('latin1')) for t in parse_toks(body)]))
        if 1 not in d:
            continue
        rejected_pos = set((e[1], e[2]) for e in parse_perrs(d[1]['errs']) if e[0] == P['MACRO_COMPILE_NON_LR'])
        rule_pos = [parse_toks(ms.split('|')[1])[0][2:4] if parse_toks(ms.split('|')[1]) else None for ms in lst(d['ex']['macros'], ';')]
        usable = [i for i in range(len(mtoks)) if rule_pos[i] not in rejected_pos]
        cur = [(t[0], t[1].decode('latin1')) for t in parse_toks(d['ex']['out'])]
        ncand = 0
        for b in budgets:
            if b not in d:
                break
            got = [(t[0], t[1].decode('latin1')) for t in parse_toks(d[b]['toks'])]
            st = mo.spec_step(cur, mtoks, usable)
            cands = mo.candidates(cur, mtoks, usable) if b == 1 else []
            ncand = max(ncand, len(cands))
            if st is None:
                if got != cur:
                    ctx.violation('step-without-candidate', 'pass %d rewrote the stream although no pattern matches anywhere' % b, {'source': c[2], 'passes': b})
                break
            mi, i, ln, slots = st
            pr, pat, body = mtoks[mi]
            rep = []
            for (k, t) in body:
                if k == 34:
                    a_, b_ = slots[int(t[1:])]
                    rep += cur[a_:b_]
                elif k == 35:
                    rep.append((1, None))           # temporary: name checked by C10
                else:
                    rep.append((k, t))
            exp = cur[:i] + rep + cur[i + ln:]
            ok = len(exp) == len(got) and all(e[0] == g[0] and (e[1] is None or e[1] == g[1]) for e, g in zip(exp, got))
            if not ok:
                ctx.violation('step-not-optimal-or-unfaithful',
                              'pass %d: the specification (highest priority, leftmost, longest; $n := slot tokens) gives %s but apply_macros produced %s' % (
                                  b, ' '.join(str(t[1]) for t in exp), ' '.join(t[1] for t in got)), {'source': c[2], 'passes': b})
                break
            cur = got
        if ncand >= 2:
            ctx.nontrivial(c[2])
        ctx.dist('candidates_%d' % min(ncand, 5))
    ctx.cov['rule'] = ('macro families (ties, overlaps, literal constraints, every slot kind) x random short streams, random macro sets, permuted definition orders; '
                       'budgets 1..4 give the stream after every pass; oracle = brute-force CFG matcher over the detector grammar (no LR); '
                       'non-trivial = at least two candidate matches in the first pass')
    ctx.sample({'source': cases[0][2]})
    ctx.sample({'source': cases[-1][2]})
    return finish(ctx)


def check_C12(ctx):
    build_all(ctx, ['Theo.Props.C12', 'Theo.Props.C12Semantic', 'Theo.Props.C12Converse', 'Theo.Props.C12Iff'], C12_THMS)
    if ctx.harness is None:
        return finish(ctx)
    ALPH = ['foo', ';', ',', '<ID>', '<INT>', '<V>', '<A>', '<P>']
    L = ctx.n(3, 4)
    pats = [list(p) for n in range(1, L + 1) for p in itertools.product(ALPH, repeat=n)]
    # one length further over the symbols that make patterns open-ended or separator-ambiguous
    RED = ['foo', ';', ',', '<A>', '<P>']
    pats += [list(p) for p in itertools.product(RED, repeat=L + 1)]
    # keywords and punctuation of the statement grammar right after a slot-and-separator (or at the start), followed by each
    # slot kind: what may CONTINUE a statement sequence / argument list decides whether the pattern is prefix-deterministic
    KWS = ['GOTO', 'LOOP', 'WHILE', 'IF', 'STOP', 'RUN', 'WITH', 'END', 'DO', 'THEN', ':=', '=', ':', '(', ')', '!= 0']
    for pre in ([], ['<P>', ';'], ['<A>', ','], ['<V>'], ['<ID>']):
        for kw in KWS:
            for tail in ([], ['<ID>'], ['<INT>'], ['<V>'], ['<A>'], ['<P>'], ['foo'], ['<ID>', '=', '<INT>', 'THEN', 'GOTO', '<V>'], ['<ID>', 'DO', '<P>', 'END']):
                if pre or tail:
                    pats.append(pre + [kw] + tail)
    ctx.cov['exhaustive'] = True
    ctx.cov['patterns'] = len(pats)
    # each pattern alone, with a second harmless macro to see that a rejected one does not block others
    texts = ['DEFINE %s AS x END DEFINE\nDEFINE @ AS yy END DEFINE\n@' % ' '.join(p) for p in pats]
    toks = front.scan_tokens(ctx, texts)
    ex = impl(ctx, ['EXTRACT ' + t for t in toks])
    jobs = [(1, fields(e)['macros'], fields(e)['out']) for e in ex]
    a, m = front.corr_apply(ctx, jobs, texts)
    P = front.pe()
    BASE, SLOT, TEXTK, NN, MNT = mo.load_detector_grammar()
    for p, x, t in zip(pats, a, texts):
        ctx.cov['evaluations'] += 1
        if is_crash(x):
            ctx.violation('apply-crash', 'apply_macros crashed on pattern %s: %s' % (' '.join(p), x[:200]), {'source': t})
            continue
        f = fields(x)
        errs = parse_perrs(f['errs'])
        rej = [e for e in errs if e[0] == P['MACRO_COMPILE_NON_LR']]
        conflicts, nstates = mo.lr1_conflicts(mo.rule_of([tok(s) for s in p], SLOT, TEXTK))
        if bool(rej) != (conflicts > 0):
            ctx.violation('nonlr-verdict', 'pattern `%s`: independent LR(1) construction for L(MACRO)·Σ* finds %d clashing cells, implementation %s it' % (
                ' '.join(p), conflicts, 'rejects' if rej else 'accepts'), {'source': t})
        if rej and (rej[0][1], rej[0][2]) != (b'm', 1):
            ctx.violation('nonlr-position', 'non-linear error reported at %r:%d instead of the definition (m:1)' % (rej[0][1], rej[0][2]), {'source': t})
        out = [tk[1] for tk in parse_toks(f['toks'])]
        if out[:1] != [b'yy']:
            ctx.violation('rejected-blocks-others', 'the second macro was not applied (stream %s)' % out, {'source': t})
        if p[-1] in ('<P>', '<A>') and not rej:
            ctx.violation('open-ended-accepted', 'a pattern ending in %s was accepted' % p[-1], {'source': t})
        ctx.nontrivial(' '.join(p))
        ctx.dist('rejected' if rej else 'accepted')
    # several macros in one source, rejected and accepted ones mixed in every order: the errors are exactly those of the
    # rejected definitions (at their lines), accepted ones are applied, rejected ones are not
    r = ctx.rnd
    verdict = {}
    pool = [p for p in pats if len(p) <= 3]
    FILL = {'<ID>': 'a', '<INT>': '2', '<V>': 'b', '<A>': 'a , 2', '<P>': 'a := 1'}
    sets = []
    for _ in range(ctx.n(150, 1500)):
        k = r.randint(2, 5)
        ms = []
        for i in range(k):
            body = r.choice(pool) if r.random() < 0.6 else r.choice([['<P>'], ['<A>'], ['<V>', ';'], ['<P>', ';', 'foo'], ['<ID>', '<A>'], ['<P>', ';', '<P>']])
            ms.append(['k%d' % i] + list(body))
        orders = list(itertools.permutations(range(k))) if k <= 3 else [tuple(r.sample(range(k), k)) for _ in range(4)]
        for od in orders:
            sets.append([ms[i] for i in od])
    # token-boundary twins: patterns whose concatenated spelling coincides but whose tokens differ (`x 1` / `x1`, `a b` / `ab`),
    # so that their verdicts differ or agree independently; both orders, alone and next to others (no private keyword in front)
    twin_sets = []
    for base in (['<P>', ';', 'x', '1'], ['<A>', ',', 'a', 'b'], ['foo', '<P>', ';', 'x', '2'], ['<V>', 'x', '1'], ['<P>', ';', 'a', 'b', '<ID>'],
                 ['<ID>', '<A>', ',', 'q', '7']):
        for j in range(len(base) - 1):
            if re.fullmatch(r'[a-z]+', base[j]) and re.fullmatch(r'[a-z0-9]+', base[j + 1]):
                twin = base[:j] + [base[j] + base[j + 1]] + base[j + 2:]
                for pair in ([base, twin], [twin, base]):
                    twin_sets.append([list(x) for x in pair])
                    twin_sets.append([['kk', '<ID>']] + [list(x) for x in pair])
    stexts = []
    for ms in twin_sets:
        sets.append(ms)
    for ms in sets:
        keyed = all(re.fullmatch(r'k\d+', m[0]) for m in ms)
        defs = '\n'.join('DEFINE %s AS r%s END DEFINE' % (' '.join(m), m[0][1:] if keyed else str(i)) for i, m in enumerate(ms))
        uses = ' @ '.join(' '.join(FILL.get(x, x) for x in m) for m in ms) if keyed else '@'
        stexts.append(defs + '\n' + uses)
    stoks = front.scan_tokens(ctx, stexts)
    sex = impl(ctx, ['EXTRACT ' + t for t in stoks])
    sjobs = [(12, fields(e)['macros'], fields(e)['out']) for e in sex]
    sa, sm = front.corr_apply(ctx, sjobs, stexts)
    for ms, x, t in zip(sets, sa, stexts):
        ctx.cov['evaluations'] += 1
        if is_crash(x):
            ctx.violation('apply-crash', 'apply_macros crashed on a macro set: ' + x[:200], {'source': t})
            continue
        f = fields(x)
        rej_lines = sorted(e[2] for e in parse_perrs(f['errs']) if e[0] == P['MACRO_COMPILE_NON_LR'])
        want = []
        for i, m in enumerate(ms):
            key = ' '.join(m)
            if key not in verdict:
                verdict[key] = mo.lr1_conflicts(mo.rule_of([tok(s_) for s_ in m], SLOT, TEXTK))[0] > 0
            if verdict[key]:
                want.append(i + 1)
        if rej_lines != want:
            ctx.violation('nonlr-set-verdict', 'macro set: non-linear errors reported at lines %s, the independent LR(1) construction rejects the definitions at lines %s' % (rej_lines, want), {'source': t})
            continue
        out = [tk[1].decode('latin1') for tk in parse_toks(f['toks'])]
        if not all(re.fullmatch(r'k\d+', m[0]) for m in ms):
            ctx.nontrivial('twins:' + t[:200])
            continue
        for i, m in enumerate(ms):
            name = m[0]
            if verdict[' '.join(m)] and name not in out:
                ctx.violation('rejected-applied', 'the rejected macro %s was applied' % name, {'source': t})
            if not verdict[' '.join(m)] and ('r' + name[1:]) not in out:
                ctx.violation('rejected-blocks-others', 'the accepted macro %s was not applied (stream %s)' % (name, ' '.join(out)[:200]), {'source': t})
        ctx.nontrivial('set:' + t[:200])
        ctx.dist('set_rejected_%d' % len(want))
    ctx.cov['macro_sets'] = len(sets)
    # the same sets with every definition in a FILE OF ITS OWN, all on line 1 (equal line numbers in different files): each
    # rejected definition is reported at its own file
    msets = [ms for ms in sets if all(re.fullmatch(r'k\d+', m[0]) for m in ms)][:ctx.n(80, 600)]
    mreqs = []
    for ms in msets:
        fl = {('d%d' % i).encode(): ('DEFINE %s AS r%s END DEFINE\n' % (' '.join(m), m[0][1:])).encode() for i, m in enumerate(ms)}
        fl[b'm'] = (' '.join('include "d%d"' % i for i in range(len(ms))) + '\n' + ' @ '.join(' '.join(FILL.get(x, x) for x in m) for m in ms)).encode()
        mreqs.append(fl)
    msc = impl(ctx, ['SCAN ' + files_req(b'm', fl) for fl in mreqs])
    mex = impl(ctx, ['EXTRACT ' + (fields(o)['toks'] if not is_crash(o) else '-') for o in msc])
    mapp = impl(ctx, ['APPLY 12 %s %s' % (fields(e)['macros'], fields(e)['out']) if not is_crash(e) else 'APPLY 12 - -' for e in mex])
    for ms, fl, x in zip(msets, mreqs, mapp):
        ctx.cov['evaluations'] += 1
        if is_crash(x):
            continue
        got = sorted((e[1].decode('latin1'), e[2]) for e in parse_perrs(fields(x)['errs']) if e[0] == P['MACRO_COMPILE_NON_LR'])
        want = sorted(('d%d' % i, 1) for i, m in enumerate(ms) if verdict.get(' '.join(m)))
        if got != want:
            ctx.violation('nonlr-set-verdict', 'definitions in files of their own (all on line 1): non-linear errors reported at %s, expected at %s' % (got, want),
                          {'files': {k.decode(): v.decode() for k, v in fl.items()}})
            break
    # uses of a rejected macro stay unrewritten
    t = 'DEFINE foo <P> AS x END DEFINE\nfoo a := 1'
    tk = front.scan_tokens(ctx, [t])[0]
    e = impl(ctx, ['EXTRACT ' + tk])[0]
    x = impl(ctx, ['APPLY 5 %s %s' % (fields(e)['macros'], fields(e)['out'])])[0]
    if not is_crash(x) and [q[1] for q in parse_toks(fields(x)['toks'])][:1] != [b'foo']:
        ctx.violation('rejected-applied', 'a rejected macro was applied', {'source': t})
    ctx.cov['rule'] = ('all patterns up to the stated length over {foo ; , <ID> <INT> <V> <A> <P>}, each defined next to a harmless second macro; oracle = independent '
                       'canonical LR(1) construction for L(MACRO)·Σ* counting only clashes between different actions; every pattern is a distinct non-trivial case')
    ctx.sample({'pattern': pats[0]})
    ctx.sample({'pattern': pats[-1]})
    return finish(ctx)


def chain_grammar(r):
    """nullability / FIRST information that has to travel through a chain of unit rules, with the
    non-terminals created top-down or bottom-up, plus a start rule that needs the result"""
    k = r.randint(2, 5)
    order = list(range(1, k + 2))
    if r.random() < 0.5:
        order.reverse()
    # non-terminal 0 = start; chain members order[0] -> order[1] -> ... -> last
    rules = []
    for a, b in zip(order, order[1:]):
        rules.append((a, [('n', b)]))
    last = order[-1]
    rules.append((last, [] if r.random() < 0.7 else [('t', 2)]))
    if r.random() < 0.5:
        rules.append((order[0], [('t', 3)]))
    pre = [('t', 1)] if r.random() < 0.7 else []
    post = [('t', 1)] if r.random() < 0.7 else []
    rules.insert(0, (0, pre + [('n', order[0])] + post))
    r.shuffle(rules) if r.random() < 0.3 else None
    return k + 2, rules


def nullable_context_grammar(r):
    """a non-terminal followed by a NULLABLE non-terminal, the same item reached under two different lookaheads, and
    something that depends on the lookahead that is seen second:  S -> X t | X u [| C u];  X -> B O;  O -> eps | o;  B -> b;  C -> b"""
    ts = r.sample([1, 2, 3, 4], 4)
    t, u, o, b = ts
    S, X, O, B, C = 0, 1, 2, 3, 4
    rules = [(S, [('n', X), ('t', t)]), (S, [('n', X), ('t', u)]), (X, [('n', B), ('n', O)] + ([('n', O)] if r.random() < 0.3 else [])),
             (O, []), (B, [('t', b)])]
    if r.random() < 0.7:
        rules.append((O, [('t', o)]))
    N = 4
    if r.random() < 0.5:
        rules.append((S, [('n', C), ('t', r.choice([t, u]))]))
        rules.append((C, [('t', b)]))
        N = 5
    if r.random() < 0.5:
        r.shuffle(rules)
    return N, rules


def random_grammar(r):
    k = r.random()
    if k < 0.2:
        return chain_grammar(r)
    if k < 0.35:
        return nullable_context_grammar(r)
    big = r.random() < 0.25
    N = r.randint(1, 5 if big else 3)
    T = r.randint(1, 4 if big else 3)
    rules = []
    for _ in range(r.randint(1, 10 if big else 6)):
        l = r.randrange(N)
        a = []
        for _ in range(r.choice([0, 1, 1, 2, 2, 3])):
            a.append(('n', r.randrange(N)) if r.random() < 0.45 else ('t', r.randint(1, T)))
        rules.append((l, a))
    return N, rules


def check_C13(ctx, thms=None):
    build_all(ctx, ['Theo.Props.C13', 'Theo.Props.C13Complete', 'Theo.Props.C12Iff'], thms or C13_THMS)
    if ctx.harness is None:
        return finish(ctx)
    r = ctx.rnd
    cases = []
    Lmax = ctx.n(4, 6)
    for _ in range(ctx.n(300, 4000)):
        N, rules = random_grammar(r)
        used = [s[1] for (_, a) in rules for s in a if s[0] == 't']
        mt = max(used) if used else 0
        prefix = r.random() < 0.5
        inputs = [list(p) for n in range(Lmax + 1) for p in itertools.product(range(1, mt + 1), repeat=n)] if mt > 0 else [[]]
        if len(inputs) > 150:
            inputs = r.sample(inputs, 150)
        cases.append((N, rules, prefix, inputs, mt))
    # recursive grammars with inputs much longer than their number of LR states: the work of the driver (deferred reductions
    # of right recursion, stack depth) grows with the INPUT, not with the tables
    t_, n_ = (lambda k: ('t', k)), (lambda k: ('n', k))
    fixed = [
        (1, [(0, [t_(1), n_(0)]), (0, [t_(1)])], [[1] * k for k in range(0, 41)]),                               # A -> a A | a
        (1, [(0, [t_(1), n_(0)]), (0, [])], [[1] * k for k in range(0, 41)]),                                    # A -> a A | eps
        (1, [(0, [n_(0), t_(1)]), (0, [t_(1)])], [[1] * k for k in range(0, 41)]),                               # L -> L a | a
        (1, [(0, [t_(1), n_(0), t_(2)]), (0, [])], [[1] * k + [2] * j for k in range(0, 21) for j in (k, k + 1) if k + j <= 40]),   # S -> a S b | eps
        (2, [(0, [n_(1)]), (1, [t_(1), t_(2), n_(1)]), (1, [t_(1)])], [[1, 2] * k + [1] for k in range(0, 20)] + [[1, 2] * 5]),      # x ; x ; x
        (2, [(0, [t_(1), n_(1)]), (1, [t_(1), n_(1)]), (1, [t_(2)])], [[1] * k + [2] for k in range(0, 40)]),   # a+ b, right recursive
    ]
    fixed += [
        (3, [(0, [n_(2), t_(3)]), (0, [n_(1)]), (1, [t_(1), n_(1)]), (1, [t_(2)])], [[1] * k + [2] for k in range(0, 8)] + [[3], [1, 3]]),   # S -> U x | A (U without rules)
        (3, [(0, [n_(1)]), (0, [n_(2), t_(3)]), (1, [t_(1), n_(1)]), (1, [t_(2)])], [[1] * k + [2] for k in range(0, 8)] + [[3]]),          # S -> A | U x
        (3, [(0, [t_(1), n_(2)]), (0, [t_(1), n_(1)]), (1, [t_(2)]), (1, [n_(2), t_(2)])], [[1, 2], [1], [1, 2, 2]]),                        # useless symbol behind a terminal
    ]
    for (N, rules, inputs) in fixed:
        mt = max(s_[1] for (_, a_) in rules for s_ in a_ if s_[0] == 't')
        for prefix in (False, True):
            cases.append((N, rules, prefix, inputs, mt))
    reqs = []
    for (N, rules, prefix, inputs, mt) in cases:
        # the API also accepts explicit epsilon symbols anywhere inside a right-hand side (they mean nothing): some
        # rules are written that way — `e` alone for the empty rule, `e` before / between / behind other symbols
        def spell(a):
            toks_ = [('t%d' % s_[1]) if s_[0] == 't' else ('n%d' % s_[1]) for s_ in a]
            if r.random() < 0.2:
                for _ in range(r.randint(1, 2)):
                    toks_.insert(r.randrange(len(toks_) + 1), 'e')
            return '.'.join(toks_) or '-'
        rs = '|'.join('%d:%s' % (l, spell(a)) for (l, a) in rules)
        ins = '/'.join('.'.join(map(str, i + [0])) for i in inputs)
        # mode: 1 = prefix mode; +2 = the caller computes the FIRST sets of the grammar object before handing it over
        reqs.append('LR %d;%s;0;0;%d %s' % (N, rs, (1 if prefix else 0) + (2 if r.random() < 0.3 else 0), ins))
    key = front.canon_plain(['first', 'nstates', 'conf', 'act', 'jump', 'parses'])
    a, b = front.compare_stage(ctx, 'LR', reqs, key, key, describe=lambda i: {'grammar': reqs[i].split(' ')[1], 'prefix_mode': cases[i][2]})
    for (N, rules, prefix, inputs, mt), x, q in zip(cases, a, reqs):
        ctx.cov['evaluations'] += 1
        desc = {'grammar': q.split(' ')[1], 'prefix_mode': prefix}
        if is_crash(x):
            ctx.violation('lr-crash', 'parser generator / driver crashed: ' + x[:300], desc)
            continue
        f = fields(x)
        nconf = len(lst(f['conf'], ','))
        F = mo.g_first(rules, N)
        for fp in lst(f['first'], ';'):
            name, vals = fp.split(':')
            got = set(v for v in lst(vals, '.'))
            if got != F[int(name[1:])]:
                ctx.violation('first-set', 'FIRST(%s) = %s, textbook fixpoint gives %s' % (name, sorted(got), sorted(F[int(name[1:])])), desc)
        res = lst(f['parses'], '/')
        amb = False
        for idx, w in enumerate(inputs):
            Cn = mo.g_counts(rules, N, w)
            n = len(w)
            if any(Cn[0][0][j] >= 2 for j in ([n] if not prefix else range(n + 1))):
                amb = True
            if nconf == 0:
                cand = ([n] if Cn[0][0][n] else []) if not prefix else [j for j in range(n + 1) if Cn[0][0][j]]
                got = res[idx] if idx < len(res) else '?'
                if len(cand) == 0:
                    exp = 'R'
                elif len(cand) > 1 or Cn[0][0][cand[0]] >= 2:
                    exp = 'AMBIG'
                else:
                    exp = 'A' + mo.g_tree(rules, Cn, w, 0, 0, cand[0])
                if got != exp:
                    ctx.violation('lr-verdict', 'input %s: expected %s, parser says %s' % (w, exp, got), dict(desc, input=w))
                    break
        if amb and nconf == 0:
            ctx.violation('ambiguous-no-conflict', 'the grammar is ambiguous (two derivations of one input) but generation reported no conflict', desc)
        if nconf == 0 and len(rules) >= 2:
            ctx.nontrivial(q.split(' ')[1] + str(prefix))
        ctx.dist('conflict_free' if nconf == 0 else 'conflicting')
    ctx.cov['rule'] = ('random context-free grammars (≤3 non-terminals, ≤6 rules, ε-rules, recursion, useless symbols), both modes, all end-marked inputs up to the stated '
                       'length; tables compared cell by cell with the model; oracle = CYK tree counting and textbook FIRST; non-trivial = conflict-free grammar with ≥2 rules')
    ctx.sample({'request': reqs[0][:300]})
    ctx.sample({'request': reqs[-1][:300]})
    return finish(ctx)
