"""Checks for C01 (reference semantics), C03 (well-formed bytecode), C07 (stepping is faithful),
C16 (no recursion, bounded stack, LOOP programs halt)."""
from checks.common import *
from checks import front, vmprops
from gen import sources
from vlib import hx, unhx, fields, lst, files_req

C03_THMS = ['Theo.C03_checker_sound', 'Theo.C03_wfCheck_sound', 'Theo.C03_structure', 'Theo.C03_gen_wf', 'Theo.C03_compile_wf', 'Theo.C03_compiled_sound']
C16_THMS = ['Theo.C16_calls_go_down', 'Theo.C16_stack_bounded', 'Theo.C16_stack_bounded_wf',
            'Theo.C16_compiled_stack_bounded', 'Theo.C16_compile_loop_halts', 'Theo.C16_loop_source_halts', 'Theo.C16_loop_halts', 'Theo.C16_loop_iterations', 'Theo.C16_toSource_distinctLoopIds']
C01_THMS = ['Theo.C01_never_stuck', 'Theo.C01_halts_same_values', 'Theo.C01_diverges',
            'Theo.C01_gen_shape', 'Theo.C01_gen_shape_parsed', 'Theo.C01_gen_halts_same_values', 'Theo.C01_gen_diverges',
            'Theo.C01_compile_correct', 'Theo.C01_compile_shape', 'Theo.C01_front_end_identifiers',
            'Theo.C01_budget', 'Theo.C01_budget_upper', 'Theo.C01_compile_budget', 'Theo.C01_compile_budget_upper', 'Theo.C01_budget_statement_false']
C07_THMS = ['Theo.C07_step_trace', 'Theo.C07_no_extra_stops', 'Theo.C07_stepping_stops_at_sites',
            'Theo.C07_gen_sites', 'Theo.C07_compile_step_trace', 'Theo.C07_compile_sites']


def envs(acts, keep_counters=False):
    out = []
    for a in lst(acts, '/'):
        name, vs = a.split('@')
        d = {}
        for kv in lst(vs, ','):
            k, v = kv.split('=')
            k = unhx(k).decode('latin1')
            if k.startswith('Loop Variable') and not keep_counters:
                continue
            if k.startswith('#'):
                continue          # macro temporaries are not user variables
            d[k] = int(v)
        out.append((unhx(name).decode('latin1'), d))
    return out


def same_envs(a, b):
    if len(a) != len(b):
        return False
    for (n1, e1), (n2, e2) in zip(a, b):
        if n1 != n2:
            return False
        for k in set(e1) | set(e2):
            if e1.get(k, 0) != e2.get(k, 0):
                return False
    return True


MACRO_LIB = ("DEFINE PRIO 30 <ID> ( <ARGS> ) AS RUN $0 WITH $1 END END DEFINE\n"
             "DEFINE PRIO 5 ZERO <ID> AS $0 := 0 END DEFINE\n"
             "DEFINE PRIO 5 TWICE { <P> } AS #0 := 2; LOOP #0 DO $0 END END DEFINE\n"
             # LOOP through a temporary: the bound is copied at entry, so what the body does to the temporary is irrelevant
             "DEFINE PRIO 5 REPN <ID> { <P> } AS #0 := $0; LOOP #0 DO $1 END END DEFINE\n"
             "DEFINE PRIO 5 REPZ <ID> { <P> } AS #0 := $0; LOOP #0 DO $1; #0 := 0 END END DEFINE\n"
             "DEFINE PRIO 5 REPUP <ID> { <P> } AS #0 := $0; LOOP #0 DO #0 := #0 + 1; $1 END END DEFINE\n"
             # a WHILE over a temporary that counts down: here the temporary must survive the body (a nested use of the same
             # macro must get its own)
             "DEFINE PRIO 5 REPW <ID> { <P> } AS #0 := $0; WHILE #0 != 0 DO $1; #0 := #0 - 1 END END DEFINE\n"
             "DEFINE PRIO 5 ROT12 <ID> <ID> <ID> <ID> <ID> <ID> <ID> <ID> <ID> <ID> <ID> <ID> AS $11 := $0 ; $10 := $1 ; $2 := $11 END DEFINE\n")


def has_zero_call(v):
    if v[0] != 'call':
        return False
    return (not v[2]) or any(has_zero_call(a) for a in v[2])


def has_zero_call_anywhere(v):
    if v[0] != 'call':
        return False
    return (not v[2]) or any(has_zero_call_anywhere(a) for a in v[2])


def pv_macro(v):
    """value printer that writes calls through the `f ( args )` macro; the detector grammar's ARGS
    needs at least one value, so a call (transitively) containing a zero-argument RUN stays in RUN syntax"""
    if v[0] == 'call':
        if v[2] and not has_zero_call(v):
            return '%s ( %s )' % (v[1], ' , '.join(pv_macro(a) for a in v[2]))
        return 'RUN %s WITH %s END' % (v[1], ' , '.join(pv_macro(a) if not has_zero_call(a) else sources.pv(a) for a in v[2]))
    return sources.pv(v)


def gen_programs(ctx, n, big=False, layouts=('canonical', 'random', 'multi', 'macro', 'reentry', 'canonical_multi', 'backjump', 'oneline', 'repeat', 'redefmarks', 'taillabel'), looponly=False):
    """sources with their typed form; returns list of dicts {defs, main, main_file, files, layout, L}"""
    r = ctx.rnd
    out = []
    for _ in range(n):
        lay = r.choice(layouts)
        g = sources.Gen(r, big=big, looponly=looponly or (lay == 'repeat' and r.random() < 0.7))
        defs, main = sources.reentry_program(r) if lay == 'reentry' else (sources.backjump_program(r) if lay == 'backjump' else (sources.redef_marks_program(r) if lay == 'redefmarks' else (sources.taillabel_program(r) if lay == 'taillabel' else g.program())))
        L = None
        if lay == 'canonical_multi':
            fl, L = sources.canonical_multi(defs, main, r)
            files = {k.encode(): v.encode() for k, v in fl.items()}
        elif lay in ('canonical', 'reentry', 'backjump', 'redefmarks'):
            text, L = sources.canonical(defs, main, r)
            files = {b'm': text.encode()}
        elif lay == 'random':
            files = {b'm': sources.text_of_tokens(sources.respell(sources.toks(defs, main), r), r).encode()}
        elif lay == 'repeat':
            # the same file included several times (directly or over two include paths): INCLUDE is textual, every copy counts
            import copy
            gb = sources.Gen(r, looponly=True)
            raw = [st for st in gb.stmts([], [], 1, r.randint(0, 2)) if st[0] != 'stop']
            # every copy leaves a trace: an accumulator that nothing else touches
            raw.insert(r.randrange(len(raw) + 1), ['assign', 'rr', ('inc', 'rr', r.randint(1, 3))])
            k = r.randint(2, 3)
            copies = []
            for _ in range(k):
                copies += sources.number([], copy.deepcopy(raw))[1]
            blk = sources.st_toks(sources.number([], copy.deepcopy(raw))[1]) + [';']
            head = sources.toks(defs, [])
            if r.random() < 0.5:
                inc = ['include "rep"'] * k
                fl = {'rep': blk}
            else:
                inc = ['include "p%d"' % j for j in range(k)]
                fl = {'rep': blk}
                for j in range(k):
                    fl['p%d' % j] = ['include "rep"']
            fl['m'] = head + inc + sources.st_toks(main)
            main = copies + main
            files = {kk.encode(): sources.text_of_tokens(v, r).encode() for kk, v in fl.items()}
        elif lay == 'repeat_canon':
            # as `repeat`, one statement per line: the lines of the repeated file are visited once per inclusion
            import copy
            gb = sources.Gen(r, looponly=True)
            raw = [st for st in gb.stmts([], [], 1, r.randint(0, 2)) if st[0] not in ('stop', 'label')]
            raw.insert(r.randrange(len(raw) + 1), ['assign', 'rr', ('inc', 'rr', r.randint(1, 3))])
            if len(raw) < 2:
                # two adjacent inclusions of a one-statement file put two statements on the same line of the same file:
                # that is not the one-statement-per-line layout (one stop, as for `a := 1; b := 2` on one line)
                raw.append(['assign', 'rq', ('inc', 'rq', 1)])
            k = r.randint(2, 3)
            fl, L = sources.canonical_multi(defs, [], r)
            copies = []
            pad = r.randint(0, 2)
            for _ in range(k):
                cp = sources.number([], copy.deepcopy(raw))[1]
                trep, lr = sources.canonical([], cp, None)
                for kk, v in lr.items():
                    L[kk] = ('rep', v + pad)
                copies += cp
            fl['rep'] = '// r\n' * pad + trep + ';\n'
            via = r.random() < 0.5
            if via:
                for j in range(k):
                    fl['p%d' % j] = 'include "rep"\n'
            mlines = fl['m'].rstrip('\n').split('\n') if fl['m'].strip('\n') else []
            mlines += ['include "%s"' % (('p%d' % j) if via else 'rep') for j in range(k)]
            tmain, lm = sources.canonical([], main, r)
            for kk, v in lm.items():
                L[kk] = ('m', v + len(mlines))
            fl['m'] = '\n'.join(mlines) + '\n' + tmain
            main = copies + main
            files = {kk.encode(): v.encode() for kk, v in fl.items()}
        elif lay == 'taillabel':
            # the tail on one line (several statements share it), or a few line breaks, or one statement per line
            k_ = r.random()
            if k_ < 0.6:
                files = {b'm': sources.text_of_tokens(sources.toks(defs, main), r, r.choice([0.0, 0.05, 0.15])).encode()}
            else:
                text, L = sources.canonical(defs, main, r)
                files = {b'm': text.encode()}
        elif lay == 'oneline':
            # everything on one line (or very few): all constructs share their line number
            files = {b'm': sources.text_of_tokens(sources.toks(defs, main), r, r.choice([0.0, 0.0, 0.02])).encode()}
        elif lay == 'multi':
            fl = sources.split_files(sources.respell(sources.toks(defs, main), r), r)
            files = {k.encode(): sources.text_of_tokens(v, r).encode() for k, v in fl.items()}
        else:
            # macro layer: calls with arguments go through a user macro defined in an included library
            fmt = {}

            def zero_call_in(ss):
                for st in ss:
                    if st[0] == 'assign' and has_zero_call_anywhere(st[2]):
                        return True
                    if st[0] in ('loop', 'while') and zero_call_in(st[2]):
                        return True
                return False

            # half of the programs write all their loops through ONE macro (nested uses of the same macro are then common)
            onefmt = r.choice(['REPN', 'REPZ', 'REPUP'] + ([] if looponly else ['REPW', 'REPW', 'REPW'])) if r.random() < 0.5 else None

            def loopfmt(st):
                if st[-1] not in fmt and onefmt is not None:
                    fmt[st[-1]] = None if zero_call_in(st[2]) else onefmt
                if st[-1] not in fmt:
                    # the detector grammar's <P> cannot derive a RUN without arguments: such bodies stay in LOOP syntax
                    fmt[st[-1]] = None if zero_call_in(st[2]) else r.choice([None, None, 'REPN', 'REPZ', 'REPUP'] + ([] if looponly else ['REPW', 'REPW']))
                return fmt[st[-1]]
            if r.random() < 0.4:
                # a wide macro (12 slots, two-digit `$n` in the body) at the start of the main script:
                # `ROT12 v0 … v11` means `v11 := v0 ; v10 := v1 ; v2 := v11`
                # twelve DIFFERENT variables, the two sources set to different non-zero constants first, the targets
                # of the two-digit slots fresh (nothing else writes them)
                vs = r.sample(list(dict.fromkeys(g.vars + ['w%d' % j for j in range(10)])), 10) + ['wa', 'wb']
                c0, c1 = r.randint(1, 4), r.randint(5, 9)
                pre = sources.number([], [['assign', vs[0], ('num', c0)], ['assign', vs[1], ('num', c1)],
                                          ['assign', vs[11], ('var', vs[0])], ['assign', vs[10], ('var', vs[1])], ['assign', vs[2], ('var', vs[11])]])[1]
                tdefs, _ = sources.canonical(defs, [], r, pv=pv_macro, loopfmt=loopfmt)
                tmain, _ = sources.canonical([], main, r, pv=pv_macro, loopfmt=loopfmt)
                text = tdefs + '%s := %d;\n%s := %d;\nROT12 %s' % (vs[0], c0, vs[1], c1, ' '.join(vs)) + (';\n' if main else '\n') + tmain
                main = pre + main
            else:
                text, L0 = sources.canonical(defs, main, r, pv=pv_macro, loopfmt=loopfmt)
            if r.random() < 0.4:
                # all macro uses start on the same line
                text = text.replace('\n', ' ')
            files = {b'm': b'include "lib"\n' + text.encode(), b'lib': MACRO_LIB.encode()}
        out.append({'defs': defs, 'main': main, 'mainf': b'm', 'files': files, 'layout': lay, 'L': L,
                    'text': {k.decode(): v.decode('latin1') for k, v in files.items()}})
    return out


def nested_macro_loops(looponly=False):
    """every loop macro of the library nested in itself two and three deep (counts 3, 2, 2), written on one line and one
    statement per line: each use must get its own temporaries wherever it stands"""
    out = []
    for fm, samevar in [(f_, sv_) for f_ in (None, 'REPN', 'REPZ', 'REPUP', 'REPW') for sv_ in (False, True)]:
        if looponly and fm == 'REPW':
            continue
        for depth in (2, 3):
            for oneline in (False, True):
                body = [['assign', 'x0', ('inc', 'x0', 1)]]
                for lv in range(depth, 0, -1):
                    body = [['loop', 'x1' if samevar else 'x%d' % lv, body], ['assign', 'x%d' % (lv + 3), ('inc', 'x%d' % (lv + 3), 1)]]
                main = sources.number([], [['assign', 'x1', ('num', 3)], ['assign', 'x2', ('num', 2)], ['assign', 'x3', ('num', 2)]] + body)[1]
                text, _ = sources.canonical([], main, None, pv=pv_macro, loopfmt=(lambda st: fm) if fm else None)
                if oneline:
                    text = text.replace('\n', ' ')
                files = {b'm': b'include "lib"\n' + text.encode(), b'lib': MACRO_LIB.encode()}
                out.append({'defs': [], 'main': main, 'mainf': b'm', 'files': files, 'layout': 'macro', 'L': None,
                            'text': {k.decode(): v.decode('latin1') for k, v in files.items()}})
    return out


def arithmetic_pairs():
    """two consecutive built-in additions / truncated subtractions on one variable, every combination of operators and small
    constants, from start values below, at and above the constants; on one line and one statement per line; target equal to
    the operand or not; at top level and inside a called program"""
    out = []
    import itertools
    for (o1, a), (o2, b) in itertools.product([('inc', 1), ('inc', 2), ('dec', 1), ('dec', 3), ('inc', 0)], repeat=2):
        for v0 in (0, 2, 5):
            for same in (True, False):
                t = 'x1' if same else 'x2'
                body = [['assign', 'x1', ('num', v0)], ['assign', t, (o1, 'x1', a)], ['assign', t, (o2, t, b)]]
                for oneline in (True, False):
                    for incallee in (False, True):
                        if incallee and (not same or v0 == 5):
                            continue
                        if incallee:
                            defs_, main_ = sources.number([('p', ['x1'], 'x1', [list(s_) for s_ in body[1:]])], [['assign', 'x0', ('call', 'p', [('num', v0)])]])
                        else:
                            defs_, main_ = sources.number([], [list(s_) for s_ in body])
                        text, _ = sources.canonical(defs_, main_, None)
                        if oneline:
                            text = text.replace('\n', ' ')
                        out.append({'defs': defs_, 'main': main_, 'mainf': b'm', 'files': {b'm': text.encode()}, 'layout': 'canonical', 'L': None, 'text': {'m': text}})
    return out


def translation_validation(ctx, cases, gen_out, want_shape=True):
    """run the proved validators (wfCheck, shapeCheck) of the Lean driver on every program the
    implementation emitted"""
    reqs, idx = [], []
    for i, (c, x) in enumerate(zip(cases, gen_out)):
        if is_crash(x):
            continue
        f = fields(x)
        if f.get('ok') != '1':
            continue
        prog = ' '.join('%s=%s' % (k, f[k]) for k in ('code', 'maps', 'pb', 'li'))
        reqs.append(('SHAPE %s %s' % (files_req(c['mainf'], c['files']), prog)) if want_shape else ('WF ' + prog))
        idx.append(i)
    outs = model(ctx, reqs, timeout=120) if ctx.driver else []
    ctx.count('VALIDATE', len(reqs))
    res = {}
    for i, o in zip(idx, outs):
        res[i] = o
    return res


def check_C03(ctx):
    build_all(ctx, ['Theo.Props.C03', 'Theo.Props.C03GenWF'], C03_THMS)
    if ctx.harness is None:
        return finish(ctx)
    cases = gen_programs(ctx, ctx.n(700, 7000))
    corner = [
        "PROGRAM f IN a OUT a DO a := a + 1 END\nx0 := RUN f WITH 3 END\n",            # OUT equal to a parameter
        "PROGRAM f DO x0 := 7 END\nx1 := RUN f WITH END\n",                            # no parameters
        "PROGRAM f IN a DO STOP END\nx1 := RUN f WITH 1 END\n",                        # only STOP
        "PROGRAM f IN a DO x0 := a END\nPROGRAM f IN a, b DO x0 := b END\nx1 := RUN f WITH 1, 2 END\n",   # redefinition
        "PROGRAM f IN a OUT q DO m: a := a END\nx1 := RUN f WITH RUN f WITH 1 END END\n",  # label at routine start, unassigned OUT
        "PROGRAM f IN a, b, c DO x0 := c END\nx0 := RUN f WITH 1, 2, 3 END\n",
        "x0 := 0\n", "STOP\n",
    ]
    for s in corner:
        cases.append({'defs': None, 'main': None, 'mainf': b'm', 'files': {b'm': s.encode()}, 'layout': 'corner', 'text': {'m': s}})
    # token neighbours of valid programs (one or two edits; plus every call given one argument more / one fewer): most are
    # rejected, but WHATEVER is accepted must be well-formed bytecode — the validator does not care whether the source was meant
    from gen import strict
    for _ in range(ctx.n(500, 5000)):
        g = sources.Gen(ctx.rnd)
        d_, m_ = g.program()
        base = sources.toks(d_, m_)
        if ctx.rnd.random() < 0.5:
            ts = sources.mutate(base, ctx.rnd, nedits=ctx.rnd.randint(1, 2), vocab=strict.VOCAB)
        else:
            ts = list(base)
            w = [i for i, t in enumerate(ts) if t == 'WITH']
            if not w:
                continue
            i = ctx.rnd.choice(w)
            if ts[i + 1] == 'END':
                ts[i + 1:i + 1] = ctx.rnd.choice([['5'], ['x0'], ['5', ',', '6'], ['x0', ',', 'x1', ',', '7']])
            elif ctx.rnd.random() < 0.5:
                ts[i + 1:i + 1] = [ctx.rnd.choice(['5', 'x0']), ',']
            else:
                # drop the first argument
                j = i + 1
                depth = 0
                while j < len(ts) and not (depth == 0 and ts[j] in (',', 'END')):
                    depth += ts[j] == 'WITH'
                    depth -= ts[j] == 'END'
                    j += 1
                del ts[i + 1:j + (1 if j < len(ts) and ts[j] == ',' else 0)]
        text = sources.text_of_tokens(ts, ctx.rnd)
        cases.append({'defs': None, 'main': None, 'mainf': b'm', 'files': {b'm': text.encode()}, 'layout': 'neighbour', 'text': {'m': text}})
    # every (parameter count, argument count) pair up to 3 x 4, as a statement-level and as a nested call
    for np_ in range(4):
        for na_ in range(5):
            hdr = 'PROGRAM f' + (' IN ' + ', '.join('p%d' % j for j in range(np_)) if np_ else '') + ' DO x0 := 1 END\n'
            call = 'RUN f WITH ' + ', '.join(str(5 + j) for j in range(na_)) + ' END'
            for src in (hdr + 'x1 := ' + call + '\n', hdr + 'PROGRAM g IN q DO x0 := q END\nx1 := RUN g WITH ' + call + ' END\n'):
                cases.append({'defs': None, 'main': None, 'mainf': b'm', 'files': {b'm': src.encode()}, 'layout': 'arity', 'text': {'m': src}})
    # jumps to a mark that is not set in the routine (a typo, another letter case, a mark of another routine), referenced by a
    # conditional jump only, by a plain jump only, by both
    for refs in (['IF a = 0 THEN GOTO done'], ['GOTO done'], ['IF a = 0 THEN GOTO done', 'GOTO done'], ['IF a = 0 THEN GOTO done', 'IF a = 1 THEN GOTO done']):
        for mark in ('Done', 'don', 'other', None):
            body = ' ; '.join(['a := 0'] + refs + ['a := 2'] + ([mark + ' : a := 3'] if mark else []))
            for src in (body + '\n', 'PROGRAM p IN a DO ' + body + ' END\nother : x := RUN p WITH 0 END\n'):
                cases.append({'defs': None, 'main': None, 'mainf': b'm', 'files': {b'm': src.encode()}, 'layout': 'arity', 'text': {'m': src}})
    # the built-in operators called by name, with every operand shape (only `variable, literal` is the built-in form; whatever
    # else is accepted must still be well-formed code)
    for nm in ('__INC__', '__DEC__'):
        for args in ('a , 3', 'a , b', '7 , 3', '3 , a', 'RUN __INC__ WITH a , 1 END , 2', 'a , RUN __INC__ WITH a , 1 END', 'a', 'a , 1 , 2', ''):
            for ctxt in ('a := 5 ; b := 2 ; c := RUN %s WITH %s END\n', 'PROGRAM p IN a , b DO c := RUN %s WITH %s END END\nx := RUN p WITH 1 , 2 END\n',
                         'DEFINE <ID> PLUS <ID> AS RUN %s WITH %s END END DEFINE\na := 1 ; b := 2 ; c := a PLUS b\n'):
                src = ctxt % (nm, args)
                cases.append({'defs': None, 'main': None, 'mainf': b'm', 'files': {b'm': src.encode()}, 'layout': 'arity', 'text': {'m': src}})
    # ports whose names differ only in letter case, in routines whose frame holds nothing but the ports
    for names in (['n', 'N'], ['ab', 'aB', 'Ab'], ['q', 'Q', 'q0', 'Q0'], ['x0', 'X0']):
        for body in ('', names[-1] + ' := ' + names[0], names[0] + ' := 1'):
            for outp in ('', ' OUT ' + names[-1], ' OUT ' + names[0].upper() + 'z'):
                src = 'PROGRAM f IN %s%s DO %s END\nx1 := RUN f WITH %s END\n' % (', '.join(names), outp, body, ', '.join(str(3 + j) for j in range(len(names))))
                cases.append({'defs': None, 'main': None, 'mainf': b'm', 'files': {b'm': src.encode()}, 'layout': 'arity', 'text': {'m': src}})
    dup = "PROGRAM f IN a, a OUT a DO a := a END\nx1 := RUN f WITH 1, 2 END\n"
    cases.append({'defs': None, 'main': None, 'mainf': b'm', 'files': {b'm': dup.encode()}, 'layout': 'dup-params', 'text': {'m': dup}})
    tri = [(c['mainf'], c['files'], c) for c in cases]
    a, b = front.corr_gen(ctx, tri, keys=['ok', 'code', 'maps'])
    val = translation_validation(ctx, cases, a, want_shape=False)
    runs = impl(ctx, ['RUN %s 200000' % files_req(c['mainf'], c['files']) for c in cases], timeout=60)
    for i, (c, x, rn) in enumerate(zip(cases, a, runs)):
        ctx.cov['evaluations'] += 1
        if is_crash(x):
            ctx.violation('compile-crash', 'compile crashed: ' + x[:300], c['text'])
            continue
        f = fields(x)
        if f['ok'] != '1':
            ctx.dist('rejected')
            continue
        o = val.get(i)
        if o is None or ' ok=1' not in o:
            ctx.violation('bytecode-not-wellformed', 'compiler output fails the (proved sound) bytecode verifier: %s' % (o or 'no answer')[:200], c['text'])
        if is_crash(rn):
            ctx.violation('vm-memory', 'running the compiled program left the VM\'s memory (sanitizer / assertion): ' + rn[:300], c['text'])
        if c['layout'] in ('corner',) or (c['defs'] and len(c['defs']) >= 2):
            ctx.nontrivial(repr(c['text']))
        ctx.dist('layout_' + c['layout'])
    ctx.cov['programs'] = len(val)
    ctx.cov['rule'] = ('accepted sources (all layouts, macro layer, declaration corner cases) compiled by the implementation; every emitted program must pass wfCheck '
                       '(run by the Lean driver; soundness proved) and run under ASan/_GLIBCXX_ASSERTIONS without report; non-trivial = corner case or ≥ 2 program definitions')
    ctx.sample(cases[0]['text'])
    ctx.sample(cases[-1]['text'])
    ctx.assumptions.append('C03_gen_wf / C03_compile_wf are proved for the generator MODEL; for the implementation, wfCheck (proved sound) validates every program it emits (translation validation) and the GEN stage correspondence compares its bytecode with the model\'s')
    return finish(ctx)


def check_C16(ctx):
    build_all(ctx, ['Theo.Props.C16', 'Theo.Props.C16Loop', 'Theo.Props.C03GenWF', 'Theo.Props.C01Compile'], C16_THMS)
    if ctx.harness is None:
        return finish(ctx)
    r = ctx.rnd
    cases = gen_programs(ctx, ctx.n(350, 3500), layouts=('canonical', 'random', 'multi', 'macro', 'oneline'))
    # sources without WHILE / GOTO, loops that assign their own bound, half of them written through macros that loop over a temporary
    cases += gen_programs(ctx, ctx.n(250, 2500), layouts=('canonical', 'macro', 'macro', 'oneline', 'random'), looponly=True)
    # every loop form nested in itself (also over ONE bound variable at every level), on one line and one statement per line
    cases += nested_macro_loops(looponly=True)
    # attempts at self / forward / mutual reference, across files and redefinitions
    bad = [
        "PROGRAM f IN a DO x0 := RUN f WITH a END END\nx1 := RUN f WITH 1 END\n",
        "PROGRAM f IN a DO x0 := RUN g WITH a END END\nPROGRAM g IN a DO x0 := a END\nx1 := RUN f WITH 1 END\n",
        "PROGRAM f IN a DO x0 := RUN g WITH a END END\nPROGRAM g IN a DO x0 := RUN f WITH a END END\nx1 := RUN f WITH 1 END\n",
        "x1 := RUN f WITH 1 END;\nx2 := 1\n",
        "PROGRAM g IN a DO x0 := a END\nPROGRAM f IN a DO x0 := RUN f WITH a END END\nPROGRAM f IN a DO x0 := a END\nx1 := RUN f WITH 1 END\n",
    ]
    badfiles = [{b'm': s.encode()} for s in bad]
    badfiles.append({b'm': b'include "a"\nx1 := RUN f WITH 1 END\n', b'a': b'PROGRAM f IN a DO include "b" END', b'b': b'x0 := RUN f WITH a END'})
    # redefinition: the first definition of f may call nothing named f; the second may call the first
    okredef = "PROGRAM f IN a DO x0 := a + 1 END\nPROGRAM f IN a DO x0 := RUN f WITH a END END\nx1 := RUN f WITH 1 END\n"
    for fl in badfiles:
        cases.append({'defs': None, 'main': None, 'mainf': b'm', 'files': fl, 'layout': 'recursion-attempt', 'text': {k.decode(): v.decode() for k, v in fl.items()}})
    cases.append({'defs': None, 'main': None, 'mainf': b'm', 'files': {b'm': okredef.encode()}, 'layout': 'redef-ok', 'text': {'m': okredef}})
    tri = [(c['mainf'], c['files'], c) for c in cases]
    a, b = front.corr_gen(ctx, tri, keys=['ok', 'errs', 'code'])
    val = translation_validation(ctx, cases, a, want_shape=False)
    runs = impl(ctx, ['RUN %s 3000000' % files_req(c['mainf'], c['files']) for c in cases], timeout=120)
    P = front.enum_table('GErrT')
    for i, (c, x, rn) in enumerate(zip(cases, a, runs)):
        ctx.cov['evaluations'] += 1
        if is_crash(x):
            ctx.violation('compile-crash', 'compile crashed: ' + x[:300], c['text'])
            continue
        f = fields(x)
        if c['layout'] == 'recursion-attempt':
            kinds = [int(e.split(':')[0]) for e in lst(f['errs'], ',')]
            if f['ok'] == '1' or P['UNKNOWN_PROGRAM_NAME'] not in kinds:
                ctx.violation('recursion-accepted', 'a self / forward / mutual reference between programs was not rejected as an unknown program name', c['text'])
            ctx.nontrivial(repr(c['text']))
            continue
        if f['ok'] != '1':
            if c['layout'] == 'redef-ok':
                ctx.violation('redefinition-rejected', 'calling the earlier definition of a redefined name was rejected', c['text'])
            continue
        from checks.vmprops import Prog
        p = Prog(f)
        # every EXEC targets the entry of an earlier routine
        rets = [k for k, o in enumerate(p.ops) if o == 'RET']
        regions = []
        for rt in rets:
            js = [j for j in range(rt) if p.ops[j] == 'JMP' and j + int(p.code[j][1]) == rt + 1]
            regions.append((js[-1] + 1, rt) if js else (rt, rt))

        def region(pc):
            for q, (lo, hi) in enumerate(regions):
                if lo <= pc <= hi:
                    return q
            return len(regions)
        for k, ins in enumerate(p.code):
            if ins[0] == 'EXEC':
                entry = int(ins[1])
                callee = [q for q, (lo, hi) in enumerate(regions) if lo == entry]
                if not callee or not callee[0] < region(k):
                    ctx.violation('call-not-down', 'EXEC at %d (routine %d) enters %s: calls must enter earlier definitions' % (k, region(k), callee or entry), c['text'])
        if is_crash(rn):
            ctx.violation('vm-crash', 'running the program crashed: ' + rn[:200], c['text'])
            continue
        fr = fields(rn)
        if int(fr['maxstack']) > int(fr['nprogs']) + 1:
            ctx.violation('stack-unbounded', 'activation stack reached %s with %s program definitions' % (fr['maxstack'], fr['nprogs']), c['text'])
        if c['defs'] is not None and not sources.uses_while_or_jump(c['defs'], c['main']):
            status, m = sources.reference(c['defs'], c['main'], 400000)
            if status == 'done' and fr['done'] != '1':
                ctx.violation('loop-program-does-not-halt', 'a source without WHILE / GOTO did not halt within 3 000 000 instructions (reference: %d steps)' % m.steps, c['text'])
            if status == 'done' and fr['done'] == '1':
                # the iteration counts are those of the bounds at entry: final values equal the reference's
                names = [(c['defs'][k][0] if k != 'root' else '#root') for (k, _) in m.final]
                ref = list(zip(names, [e for (_, e) in m.final]))
                if not same_envs(envs(fr['acts']), ref):
                    ctx.violation('loop-iterations', 'a LOOP-only source ends with %s; with every LOOP iterating as often as its bound says at entry it ends with %s' % (envs(fr['acts']), ref), c['text'])
            if status == 'done':
                ctx.nontrivial(repr(c['text']))
        o = val.get(i)
        if o is None or ' ok=1' not in o:
            ctx.violation('bytecode-not-wellformed', 'compiler output fails the bytecode verifier (whose certificate orders routines): %s' % (o or '')[:200], c['text'])
        ctx.dist('maxstack_%s' % fr['maxstack'])
    # the bound holds in every HISTORY of API calls, not only in one run: run / reset / run / step / reset / run
    hreqs, hidx = [], []
    for i, (c, x) in enumerate(zip(cases, a)):
        if c['defs'] is not None and not is_crash(x) and fields(x).get('ok') == '1' and len(hreqs) < ctx.n(120, 1200):
            fx = fields(x)
            hist = r.choice([['E', 'r', 'E', 'r', 'E'], ['s'] * 5 + ['r', 'E', 'r', 's', 's', 'E'], ['t1', 'e', 'e', 'r', 'E', 'r', 'E'], ['r', 'E', 'r', 'r', 'E']])
            hist = [('e' if op == 'E' else op) for op in hist]      # capped resume: the source may not terminate
            hreqs.append('VM %s ops=%s cap=30000' % (' '.join('%s=%s' % (k, fx[k]) for k in ('code', 'maps', 'pb', 'li')), ','.join(hist)))
            hidx.append(i)
    houts = impl(ctx, hreqs, timeout=120)
    for i, o in zip(hidx, houts):
        c = cases[i]
        ctx.cov['evaluations'] += 1
        if is_crash(o):
            ctx.violation('vm-crash', 'a run / reset / run history crashed: ' + o[:200], c['text'])
            continue
        nprogs = len(c['defs'])
        for k_, dump in enumerate(o[3:].split('|')):
            stk = [p_ for p_ in dump.split(';') if p_.startswith('stk=')]
            depth = 0 if not stk or stk[0] == 'stk=-' else stk[0].count(',') + 1
            if depth > nprogs + 1:
                ctx.violation('stack-unbounded', 'after call %d of a run / reset / run history the activation stack holds %d activations with %d program definitions' % (k_, depth, nprogs), c['text'])
                break
    ctx.count('VM', len(hreqs))
    # token-level neighbours of LOOP-only sources (no WHILE / GOTO / IF token anywhere): whatever the compiler accepts must halt
    from gen import strict
    LOOPVOC = ['LOOP', 'Loop', 'DO', 'END', ';', ':=', '!= 0', '=', 'x0', 'x1', 'a', '1', '2', '+', '-', 'STOP', ',', 'RUN', 'WITH', 'f0', ':']
    muts = []
    for _ in range(ctx.n(250, 2500)):
        g = sources.Gen(r, looponly=True)
        defs, main = g.program()
        ts = sources.mutate(sources.toks(defs, main), r, nedits=r.choice([1, 1, 2]), vocab=LOOPVOC)
        if ts and not any(t.upper() in ('WHILE', 'GOTO', 'IF', 'THEN') for t in ts):
            muts.append(ts)
    # and every single insertion of every vocabulary token at every position of a few small ones
    nsmall = 0
    while nsmall < ctx.n(3, 12):
        g = sources.Gen(r, looponly=True, maxprogs=1)
        defs, main = g.program()
        base = sources.toks(defs, main)
        if len(base) > 45 or 'LOOP' not in base:
            continue
        nsmall += 1
        for i in range(len(base) + 1):
            for tkn in LOOPVOC:
                muts.append(base[:i] + [tkn] + base[i:])
    mtexts = [' '.join(ts) for ts in muts]
    mg = impl(ctx, ['GEN ' + files_req(b'm', {b'm': t.encode()}) for t in mtexts])
    acc = [(ts, t) for ts, t, o in zip(muts, mtexts, mg) if not is_crash(o) and fields(o).get('ok') == '1']
    mr = impl(ctx, ['RUN %s 3000000' % files_req(b'm', {b'm': t.encode()}) for (_, t) in acc], timeout=120)
    for (ts, t), rn in zip(acc, mr):
        ctx.cov['evaluations'] += 1
        if is_crash(rn):
            ctx.violation('vm-crash', 'running an accepted LOOP-only source crashed: ' + rn[:200], {'m': t})
            continue
        if fields(rn).get('done') != '1':
            # the reference grammar knows the keywords in their upper-case spelling only
            canon = {sp: kw for kw, sps in sources.SPELL.items() for sp in sps}
            v, why, info = strict.verdict([canon.get(t_, t_) for t_ in ts])
            if v == 'REJ':
                ctx.violation('loop-program-does-not-halt', 'an accepted source without WHILE / GOTO did not halt within 3 000 000 instructions (it is not even a sentence of the grammar: %s)' % why, {'m': t})
            elif ctx.driver:
                sm = model(ctx, ['SEM %s 400000' % files_req(b'm', {b'm': t.encode()})], timeout=120)[0]
                if not is_crash(sm) and fields(sm).get('status') == 'halted':
                    ctx.violation('loop-program-does-not-halt', 'an accepted source without WHILE / GOTO did not halt within 3 000 000 instructions; the reference semantics halts', {'m': t})
    # one jump across more than 2^15 and 2^16 instructions (a LOOP / WHILE body or a forward GOTO over a long straight-line
    # block; the bound is 0, so the block is never executed): the operand of a jump is as wide as the program is long
    for nstm in (2300, 4500):
        blk = ' ; '.join(['x1 := RUN f WITH 1 , 2 , 3 , 4 , 5 , 6 END'] * nstm)
        head = 'PROGRAM f IN a , b , c , d , e , g DO x0 := a END\nx0 := 0 ;\n'
        for kind, src in (('LOOP', head + 'LOOP x0 DO ' + blk + ' END ;\nx2 := 7\n'), ('WHILE', head + 'WHILE x0 != 0 DO ' + blk + ' END ;\nx2 := 7\n'),
                          ('GOTO', head + 'GOTO e ;\n' + blk + ' ;\ne : x2 := 7\n')):
            o = impl(ctx, ['RUN %s 400000' % files_req(b'm', {b'm': src.encode()})], timeout=300)[0]
            ctx.cov['evaluations'] += 1
            desc = {'m': '%s over a block of %d call statements on one line (generated: see checks/semprops.py)' % (kind, nstm), 'statements': nstm, 'kind': kind}
            if is_crash(o):
                ctx.violation('vm-crash', 'a program with one long jump crashed: ' + o[:200], desc)
            elif fields(o).get('ok') == '1':
                ev = dict(kv for (_, e_) in envs(fields(o)['acts']) for kv in e_.items()) if fields(o).get('done') == '1' else {}
                if fields(o).get('done') != '1' or ev.get('x2', 0) != 7 or ev.get('x1', 0) != 0:
                    ctx.violation('loop-program-does-not-halt' if fields(o).get('done') != '1' else 'loop-iterations',
                                  'a %s with bound 0 over a block of %d statements: done=%s, x1=%s, x2=%s (expected: halts at once, x1 = 0, x2 = 7)' % (
                                      kind, nstm, fields(o).get('done'), ev.get('x1'), ev.get('x2')), desc)
                ctx.nontrivial('long-jump-%s-%d' % (kind, nstm))
    ctx.cov['mutated_loop_sources_accepted'] = len(acc)
    ctx.cov['rule'] = ('accepted sources in all layouts plus all attempts at self / forward / mutual reference (also across files and redefinitions); on the implementation: '
                       'EXEC targets vs routine order, maximum activation-stack depth over a run ≤ #programs + 1, LOOP-only sources halt; non-trivial = recursion attempt or halting LOOP-only program')
    ctx.sample(cases[0]['text'])
    ctx.sample(cases[-1]['text'])
    return finish(ctx)


def check_C01(ctx, thms=None):
    build_all(ctx, ['Theo.Props.C01', 'Theo.Props.C01GenShape', 'Theo.Props.C01Compile', 'Theo.Props.C01Budget'], thms if thms is not None else C01_THMS)
    if ctx.harness is None:
        return finish(ctx)
    B = 20000
    cases = gen_programs(ctx, ctx.n(900, 9000))
    cases += gen_programs(ctx, ctx.n(150, 1500), big=True, layouts=('canonical',))
    cases += nested_macro_loops()
    cases += arithmetic_pairs()
    user_operator_programs(ctx)
    tri = [(c['mainf'], c['files'], c) for c in cases]
    a, b = front.corr_gen(ctx, tri, keys=['ok', 'code', 'maps'])
    val = translation_validation(ctx, cases, a, want_shape=True)
    runs = impl(ctx, ['RUN %s %d' % (files_req(c['mainf'], c['files']), B * 40) for c in cases], timeout=120)
    sems = model(ctx, ['SEM %s %d' % (files_req(c['mainf'], c['files']), B * 12) for c in cases], timeout=300) if ctx.driver else [None] * len(cases)
    ctx.count('SEM', len(cases))
    for i, (c, x, rn, sm) in enumerate(zip(cases, a, runs, sems)):
        ctx.cov['evaluations'] += 1
        if is_crash(x):
            ctx.violation('compile-crash', 'compile crashed on a valid source: ' + x[:300], c['text'])
            continue
        f = fields(x)
        if f['ok'] != '1':
            ctx.violation('valid-source-rejected', 'a generated well-formed source was rejected: ' + x[:200], c['text'])
            continue
        o = val.get(i)
        if o is None or ' ok=1' not in o or 'wf=1' not in o:
            ctx.stage_broken('translation validation: shapeCheck / wfCheck rejects a compiled program (the C01 theorems do not cover it)', str(o)[:200], c['text'])
        if is_crash(rn):
            ctx.violation('vm-crash', 'running the compiled program crashed: ' + rn[:300], c['text'])
            continue
        fr = fields(rn)
        status, m = sources.reference(c['defs'], c['main'], B)
        ctx.dist('ref_' + status)
        ctx.dist('layout_' + c['layout'])
        if status == 'overflow':
            continue          # outside the property's restriction (values reach 2^31-1)
        if status == 'timeout':
            if fr['done'] == '1' and int(fr['steps']) < B:
                ctx.violation('finishes-too-early', 'the reference execution needs more than %d steps but the VM finished after %s instructions' % (B, fr['steps']), c['text'])
            continue
        if fr['done'] != '1':
            ctx.violation('does-not-finish', 'the reference execution halts after %d steps but the VM did not halt within %d instructions' % (m.steps, B * 40), c['text'])
            continue
        names = [(c['defs'][k][0] if k != 'root' else '#root') for (k, _) in m.final]
        ref = list(zip(names, [e for (_, e) in m.final]))
        got = envs(fr['acts'])
        if not same_envs(got, ref):
            ctx.violation('wrong-values', 'final variables differ from the reference semantics: VM %s, reference %s' % (got, ref), c['text'])
        if sm is not None and not is_crash(sm):
            fs = fields(sm)
            if fs.get('ok') == '1' and fs.get('status') == 'halted':
                if not same_envs(envs(fs['acts']), got):
                    ctx.stage_broken('Lean reference semantics (Spec/Semantics.lean) disagrees with the implementation', 'lean %s impl %s' % (fs['acts'][:200], fr['acts'][:200]), c['text'])
            elif fs.get('status') == 'stuck':
                ctx.stage_broken('Lean reference semantics got stuck on an accepted source', sm[:200], c['text'])
        if m.maxdepth > 1 or m.steps > 30:
            ctx.nontrivial(repr(c['text']))
    ctx.cov['programs'] = len(val)
    ctx.cov['rule'] = ('well-formed sources from a grammar-directed generator (nested LOOP/WHILE, labels in loops, jumps in/out, nested calls as arguments, redefinition, STOP in callees, '
                       '+/- sugar) in canonical / random / multi-file / user-macro layouts, plus sources with literals near 2^31; three-way comparison implementation / Python reference / '
                       'Lean reference; shapeCheck+wfCheck on every compiled program; non-trivial = execution with a call or more than 30 reference steps')
    ctx.sample(cases[0]['text'])
    ctx.sample(cases[-1]['text'])
    return finish(ctx)


def user_operator_programs(ctx):
    """user-defined operator macros of the same shape in different priority bins (precedence), with parentheses: end-to-end
    values of expressions with shared operands"""
    pre = ('DEFINE PRIO 10 <V> + <V> AS RUN add WITH $0 , $1 END END DEFINE\nDEFINE PRIO 20 <V> * <V> AS RUN mul WITH $0 , $1 END END DEFINE\n'
           'DEFINE PRIO 5 ( <V> ) AS $0 END DEFINE\n'
           'PROGRAM add IN a , b OUT a DO LOOP b DO a := a + 1 END END\nPROGRAM mul IN a , b OUT r DO LOOP b DO r := RUN add WITH r , a END END END\n'
           'PROGRAM twice IN a OUT a DO a := RUN add WITH a , a END END\na := 2 ; b := 3 ; c := 4 ;\n')
    exprs = [('r := a + b * c', 14), ('r := a * b + c * a', 14), ('r := b * c + a', 14), ('r := ( a + b ) * c', 20), ('r := RUN twice WITH 3 END + ( b * c )', 18),
             ('r := a + b + c * a * b', 29)]
    outs = impl(ctx, ['RUN %s 400000' % files_req(b'm', {b'm': (pre + e + '\n').encode()}) for e, _ in exprs])
    for (e, want), o in zip(exprs, outs):
        ctx.cov['evaluations'] += 1
        src = {'m': pre + e + '\n'}
        if is_crash(o) or fields(o).get('ok') != '1' or fields(o).get('done') != '1':
            ctx.violation('wrong-values', 'a program with user-defined operator macros did not compile / run: ' + o[:200], src)
            continue
        ev = dict(kv for (_, e_) in envs(fields(o)['acts']) for kv in e_.items())
        if ev.get('r', 0) != want:
            ctx.violation('wrong-values', '`%s` with a = 2, b = 3, c = 4 (operators as user macros: * binds tighter than +) gives r = %s, expected %d' % (e, ev.get('r'), want), src)
        ctx.nontrivial('user-operators:' + e)


def check_C07(ctx, thms=None):
    build_all(ctx, ['Theo.Props.C07', 'Theo.Props.C07Compile'], thms if thms is not None else C07_THMS)
    if ctx.harness is None:
        return finish(ctx)
    cases = gen_programs(ctx, ctx.n(600, 6000), layouts=('canonical', 'canonical_multi', 'canonical_multi', 'reentry', 'repeat_canon'))
    tri = [(c['mainf'], c['files'], c) for c in cases]
    a, b = front.corr_gen(ctx, tri)
    traces = impl(ctx, ['STEPTRACE %s 400000' % files_req(c['mainf'], c['files']) for c in cases], timeout=120)
    # translation validation: siteCheck (proved: C07_step_trace) and wfCheck on every compiled program
    sreqs, sidx = [], []
    for i, (c, x) in enumerate(zip(cases, a)):
        if not is_crash(x) and fields(x).get('ok') == '1':
            fx = fields(x)
            sreqs.append('SITES %s 1500 %s' % (files_req(c['mainf'], c['files']), ' '.join('%s=%s' % (k, fx[k]) for k in ('code', 'maps', 'pb', 'li'))))
            sidx.append(i)
    souts = model(ctx, sreqs, timeout=300) if ctx.driver else []
    ctx.count('VALIDATE', len(sreqs))
    for i, o in zip(sidx, souts):
        if ' ok=1' not in o:
            ctx.stage_broken('translation validation: siteCheck rejects a program compiled from a one-statement-per-line source (the C07 theorems do not cover it)', o[:200], cases[i]['text'])
        elif 'agree=1' not in o:
            ctx.stage_broken('Lean event semantics disagrees with the sites passed by the model VM', o[:200], cases[i]['text'])
    ctx.cov['programs'] = len(sreqs)
    for c, x, tr in zip(cases, a, traces):
        ctx.cov['evaluations'] += 1
        if is_crash(x) or is_crash(tr):
            ctx.violation('crash', 'compile or stepping run crashed: ' + (x if is_crash(x) else tr)[:300], c['text'])
            continue
        ft = fields(tr)
        if ft.get('ok') != '1':
            continue
        status, m = sources.reference(c['defs'], c['main'], 100000, L=c['L'])
        if status == 'overflow':
            continue
        got = []
        for st in lst(ft['trace'], '|'):
            loc, acts = st.split(';', 1)
            ln = int(loc.split(':')[1]) if loc != 'none' else -1
            fl = unhx(loc.split(':')[0]) if loc != 'none' else b''
            got.append((fl, ln, envs(acts)))
        exp = m.trace
        cut = status == 'timeout' or int(ft['stops']) >= 4000 or ft['done'] != '1'
        n = min(len(got), len(exp)) if cut else max(len(got), len(exp))
        bad = None
        for k in range(n):
            if k >= len(got) or k >= len(exp):
                bad = 'the stepping run has %d stops, the source-level trace %d visits' % (len(got), len(exp))
                break
            if got[k][0] == b'__standards__':
                bad = 'stop %d is in the hidden standard-macro file' % k
                break
            ef, el = exp[k][0] if isinstance(exp[k][0], tuple) else ('m', exp[k][0])
            if got[k][1] != el or got[k][0].decode('latin1') != ef:
                bad = 'stop %d is at %s:%d, the source-level semantics visits %s:%d (visits so far: %s)' % (k, got[k][0].decode('latin1'), got[k][1], ef, el, [e[0] for e in exp[:k + 1]][-8:])
                break
            if len(got[k][2]) != len(exp[k][1]):
                bad = 'stop %d: %d live activations, expected %d' % (k, len(got[k][2]), len(exp[k][1]))
                break
            for (nm, ge), ee in zip(got[k][2], exp[k][1]):
                for key in set(ge) | set(ee):
                    if ge.get(key, 0) != ee.get(key, 0):
                        bad = 'stop %d (line %d): variable %s is %d in the view, %d in the source-level semantics' % (k, got[k][1], key, ge.get(key, 0), ee.get(key, 0))
            if bad:
                break
        if bad:
            ctx.violation('stepping-trace', bad, c['text'])
        if len(exp) >= 5:
            ctx.nontrivial(repr(c['text']))
        ctx.dist('stops_%d' % (min(len(got), 200) // 20 * 20))
    ctx.cov['rule'] = ('accepted sources without user macros in the one-statement-per-line layout (labels on their statement\'s line or alone on a line); complete stepping run of the '
                       'implementation vs the instrumented reference semantics: sequence of visited lines and every activation\'s variable view at every stop; non-trivial = at least 5 stops')
    ctx.sample(cases[0]['text'])
    ctx.sample(cases[-1]['text'])
    return finish(ctx)
