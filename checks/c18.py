"""C18 — compilation and execution are deterministic and share no state.
Level: PARTIAL.  The Lean part is the (easy) purity / non-interference of the process-level model;
what the property is really about — hidden static state and data races of the C++ process — is
runtime behaviour: covered by (1) a static audit of writable data symbols, (2) repeated and
interleaved compilations / VM instances in one process compared with isolated runs, (3) the same
workload on 8 threads under ThreadSanitizer."""
import subprocess, tempfile, shutil
from concurrent.futures import ThreadPoolExecutor
from checks.common import *
from checks import front, vmprops, semprops
from vlib import hx, unhx, fields, lst, files_req

C18_THMS = ['Theo.C18_compile_pure', 'Theo.C18_noninterference', 'Theo.C18_other_instances_untouched']

ALLOW_DATA = {'token_map[abi:cxx11]', 'op_to_str[abi:cxx11]', 'std::__ioinit', 'token_map', 'op_to_str'}


def static_audit(ctx):
    """no writable data symbol / function-local static beyond the allow-list (plain build of the working tree)"""
    out = os.path.join(vlib.CACHE, 'audit_%d' % os.getpid())
    os.makedirs(out, exist_ok=True)
    try:
        def cc(s):
            o = os.path.join(out, s.replace('/', '_') + '.o')
            r = subprocess.run(['g++', '-std=c++20', '-O1', '-I' + vlib.REPO, '-I' + os.path.join(vlib.REPO, 'Compiler/include'), '-x', 'c++', '-c',
                                os.path.join(vlib.REPO, s), '-o', o], capture_output=True, text=True)
            return o if r.returncode == 0 else None
        with ThreadPoolExecutor(vlib.NCPU) as ex:
            objs = list(ex.map(cc, vlib.SRC))
        if None in objs:
            ctx.stage_broken('static audit: a source no longer compiles', '')
            return
        # data objects by SECTION: .data / .bss / .tdata / .tbss are writable at run time; .rodata and .data.rel.ro (constant
        # tables of pointers, read-only after relocation) are not
        r = subprocess.run(['objdump', '-t', '-C'] + objs, capture_output=True, text=True)
        syms = []
        for l in r.stdout.splitlines():
            m = re.match(r'^[0-9a-f]+\s+(.{7})\s+(\S+)\s+[0-9a-f]+\s+(.*)$', l)
            if not m or 'O' not in m.group(1):
                continue
            sec, name = m.group(2), m.group(3).strip()
            name = re.sub(r'^\.hidden\s+', '', name)
            if 'guard variable for' in name:
                ctx.violation('function-local-static', 'function-local static object: ' + name, {'symbol': name})
                continue
            if name.startswith('DW.ref.'):
                continue        # compiler-generated reference to the exception personality routine
            if re.match(r'\.(data|bss|tdata|tbss)(\.|$)', sec) and not sec.startswith('.data.rel.ro'):
                syms.append((sec, name))
        bad = sorted(set(s for t, s in syms if s not in ALLOW_DATA))
        ctx.cov['writable_data_symbols'] = sorted(set(s for t, s in syms))
        for s in bad:
            ctx.violation('hidden-static-state:' + s, 'writable static data symbol `%s` (shared between compilations / VMs; allow-list: token_map, op_to_str, std::__ioinit)' % s, {'symbol': s})
        # the two allowed tables must be plain arrays of strings (a lookup in an array writes nothing; a lookup with
        # operator[] in a std::map / unordered_map inserts) and must never be assigned
        writable = {re.sub(r'\[abi:cxx11\]', '', s_) for _, s_ in syms}
        for f, name in (('Compiler/src/scan.cpp', 'token_map'), ('VM/src/program.cpp', 'op_to_str')):
            if name not in writable:
                continue        # the table no longer exists as writable data (renamed, made constant): nothing to allow
            txt = open(os.path.join(vlib.REPO, f)).read()
            if not re.search(r'(?:^|\n)\s*(?:static\s+)?(?:const\s+)?std::string\s+(?:const\s+)?' + name + r'\s*\[\s*\d*\s*\]\s*=', txt) and \
               not re.search(r'std::array<\s*(?:const\s+)?std::string(?:_view)?\s*,[^>]*>\s*(?:const\s+)?' + name, txt) and \
               not re.search(r'const(?:expr)?\s+(?:char\s*\*|std::string_view)\s*(?:const\s+)?' + name + r'\s*\[', txt):
                ctx.violation('table-type-changed', 'the global table %s is no longer a plain array of strings: looking something up in it may write to process-wide state' % name, {'file': f})
            if re.search(name + r'\s*\[[^\]]+\]\s*(=[^=]|\+=|\.(assign|append|push_back|clear|swap)\b)', txt):
                ctx.violation('table-written', 'the static table %s is written to' % name, {'file': f})
        lex = open(os.path.join(vlib.REPO, 'Compiler/src/lexer.l')).read()
        if not re.search(r'%option[^\n]*\breentrant\b', lex):
            ctx.violation('scanner-not-reentrant', 'lexer.l no longer requests a reentrant scanner', {})
    finally:
        shutil.rmtree(out, ignore_errors=True)


def check_C18(ctx):
    build_all(ctx, ['Theo.Props.C18'], C18_THMS)
    if ctx.harness is None:
        return finish(ctx)
    static_audit(ctx)
    r = ctx.rnd
    # (2a) the same compilation early and late in one process, with unrelated work in between
    progs = semprops.gen_programs(ctx, ctx.n(120, 1200))
    bad = front.program_files(ctx, ctx.n(60, 600), mutate_frac=1.0)
    reqs = []
    for c in progs:
        reqs.append('GEN ' + files_req(c['mainf'], c['files']))
    for (m, f, meta) in bad:
        reqs.append('GEN ' + files_req(m, f))
    # inputs that drive error paths and C-library state (errno after an overflowing conversion, huge literals in every
    # literal position, absent files): whatever they leave behind must not show in later compilations
    from checks import frontprops as _fp
    for (m, f) in _fp.C02_CORPUS:
        if b'$0 , $0' not in b''.join(f.values()):
            reqs.append('GEN ' + files_req(m, f))
    for lit in ('2147483647', '9223372036854775807', '9223372036854775808', '99999999999999999999', '340282366920938463463374607431768211456'):
        for t in ('x0 := %s', 'x0 := x1 + %s', 'x0 := x1 - %s', 'IF x0 = %s THEN GOTO e; e: x0 := 1', 'PROGRAM f IN a DO x0 := a END x0 := RUN f WITH %s END',
                  'DEFINE PRIO %s foo AS x0 := 1 END DEFINE foo', 'DEFINE foo <V> AS x0 := $%s END DEFINE foo 1', 'LOOP x0 DO x1 := %s END'):
            reqs.append('GEN ' + files_req(b'm', {b'm': (t % lit).encode()}))
    # inputs whose result hinges on a TIE (two definitions of equal priority matching the same span: the first defined wins;
    # equal-length alternatives; several sites on one line), compiled many times: every compilation gives the same result
    ties = ['DEFINE <V> * <V> AS RUN mul WITH $0 , $1 END END DEFINE\nDEFINE <ID> * <ID> AS RUN mulid WITH $0 , $1 END END DEFINE\nPROGRAM mul IN a , b DO x0 := a END PROGRAM mulid IN a , b DO x0 := b END x0 := x2 * x3',
            'DEFINE PRIO 7 sq <ID> AS $0 := 1 END DEFINE\nDEFINE PRIO 7 sq <V> AS x9 := 2 END DEFINE\nDEFINE PRIO 7 <ID> <ID> AS x8 := 3 END DEFINE\nsq a ; sq b',
            'DEFINE foo AS x := 1 END DEFINE\nDEFINE foo AS x := 2 END DEFINE\nDEFINE foo AS x := 3 END DEFINE\nfoo ; foo ; foo']
    for t in ties:
        reqs += ['GEN ' + files_req(b'm', {b'm': t.encode()})] * ctx.n(40, 200)
    # a macro-heavy but valid source (150 uses of a macro with temporaries: seconds of work in this instrumented build): its
    # result may not depend on how much processor time the process has used or is using
    heavy = 'DEFINE IFZ <V> THEN <P> FI AS #0 := $0; #1 := 1; LOOP #0 DO #1 := 0 END; LOOP #1 DO $1 END END DEFINE\n' + \
        ' ;\n'.join('IFZ x1 THEN x0 := x0 + 1 FI' for _ in range(150)) + '\n'
    heavy_req = 'GEN ' + files_req(b'm', {b'm': heavy.encode()})
    reqs += [heavy_req] * 2
    order1 = list(range(len(reqs)))
    order2 = list(order1)
    r.shuffle(order2)
    # one single process each (workers=1) so that history really differs
    out1 = vlib.run_batch([ctx.harness], [reqs[i] for i in order1], per_line_timeout=30, workers=1)
    out2 = vlib.run_batch([ctx.harness], [reqs[i] for i in order2], per_line_timeout=30, workers=1)
    res1 = {i: o for i, o in zip(order1, out1)}
    res2 = {i: o for i, o in zip(order2, out2)}
    for res in (res1, res2):
        for i in order1:
            if reqs[i] == heavy_req and not is_crash(res[i]) and fields(res[i]).get('ok') != '1':
                ctx.violation('compile-depends-on-cpu-time', 'a valid macro-heavy source (150 macro uses) was not compiled successfully: ' + res[i][:200], {'source': heavy})
                break
    same = {}
    for i in order1:
        for res in (res1, res2):
            if same.setdefault(reqs[i], res[i]) != res[i]:
                ctx.violation('nondeterministic-compile', 'compiling the same input repeatedly gives different results', {'request': reqs[i][:2000]})
                same[reqs[i]] = None
                break
    for i in order1:
        ctx.cov['evaluations'] += 1
        if res1[i] != res2[i]:
            ctx.violation('history-dependent-compile', 'compiling the same inputs after a different history gives a different result', {'request': reqs[i][:2000]})
            break
        if 'ok=1' in res1[i]:
            ctx.nontrivial(reqs[i][:200])
    # model correspondence on the same requests: the model's answer is history-independent by construction
    front.compare_stage(ctx, 'GEN', reqs[:ctx.n(100, 600)], front.canon_gen, front.canon_plain(['ok', 'errs', 'req', 'code', 'maps', 'pb', 'li']))
    # (2b) several VM instances alive at once, operations interleaved, against isolated runs
    good = []
    for c, o in zip(progs, out1[:len(progs)]):
        if not is_crash(o) and fields(o).get('ok') == '1':
            c['prog'] = vmprops.Prog(fields(o))
            good.append(c)
    for it in range(ctx.n(60, 600)):
        k = r.randint(2, 4)
        inst = [r.choice(good) for _ in range(k)]
        share = it % 2 == 1
        if share:
            # several machines of the same program, built from one Program object (what a front end does)
            inst = [inst[0]] * k
        hists = [vmprops.random_history(r, c['prog'], r.randint(4, 25)) for c in inst]
        # random interleaving
        pos = [0] * k
        ops = []
        while any(pos[i] < len(hists[i]) for i in range(k)):
            i = r.choice([j for j in range(k) if pos[j] < len(hists[j])])
            ops.append((i, hists[i][pos[i]]))
            pos[i] += 1
        fieldsreq = ' '.join('code%d=%s maps%d=%s pb%d=%s li%d=%s' % (i, ','.join('.'.join(x) for x in c['prog'].code) or '-', i,
                                                                         c['prog'].text.split('maps=')[1].split(' ')[0], i,
                                                                         c['prog'].text.split('pb=')[1].split(' ')[0], i,
                                                                         c['prog'].text.split('li=')[1].split(' ')[0]) for i, c in enumerate(inst))
        req = 'VMS n=%d share=%d %s ops=%s' % (k, int(share), fieldsreq, ','.join('%d:%s' % (i, op) for i, op in ops))
        multi = impl(ctx, [req], timeout=60)[0]
        single = impl(ctx, ['VM %s ops=%s cap=20000' % (c['prog'].text, ','.join(h)) for c, h in zip(inst, hists)], timeout=60)
        ctx.cov['evaluations'] += 1
        if is_crash(multi) or any(is_crash(s) for s in single):
            ctx.violation('multi-instance-crash', 'interleaved VM instances crashed: ' + multi[:200], {'sources': [c['text'] for c in inst], 'ops': ops})
            continue
        md = multi[4:].split('|')
        per = [[] for _ in range(k)]
        for (i, op), d in zip(ops, md):
            per[i].append(d)
        for i in range(k):
            sd = single[i][3:].split('|') if single[i] != 'VM -' else []
            if per[i] != sd:
                ctx.violation('instances-interfere', 'VM instance %d behaves differently when other instances run interleaved with it' % i,
                              {'sources': [c['text'] for c in inst], 'ops': ops})
                break
        ctx.nontrivial(req[:300])
    ctx.count('VMS', ctx.n(60, 600))
    # (3) 8 threads under ThreadSanitizer, each compiling and running; results compared with sequential ones
    tsan, err = vlib.build_harness('tsan')
    if tsan is None:
        ctx.stage_broken('TSan harness build', (err or '')[-400:])
    else:
        sets = good[:ctx.n(6, 16)] + [{'mainf': m, 'files': f} for (m, f, _) in bad[:ctx.n(3, 8)]]
        # diagnostics that describe every kind of token (error messages are built from a global table)
        for tkn in ('RUN', 'WITH', 'LOOP', 'END', '<P>', '$1', '#1', '"f"', '99', ':=', '?', 'DEFINE', 'AS', 'PRIO', 'INCLUDE'):
            for tmpl in ('x0 := %s', 'LOOP %s DO x0 := 1 END', 'x0 := RUN f %s 1 END'):
                sets.append({'mainf': b'm', 'files': {b'm': (tmpl % tkn).encode()}})
        # a macro-heavy source (60 uses) on all threads at once
        sets.append({'mainf': b'm', 'files': {b'm': heavy.replace(' ;\n'.join('IFZ x1 THEN x0 := x0 + 1 FI' for _ in range(150)), ' ;\n'.join('IFZ x1 THEN x0 := x0 + 1 FI' for _ in range(60))).encode()}})
        req = 'MT %d %d %d %s' % (8, ctx.n(6, 40), len(sets), ' '.join(files_req(c['mainf'], c['files']) for c in sets))
        o = vlib.run_batch([tsan], [req], per_line_timeout=ctx.n(120, 600))[0]
        ctx.cov['tsan_run'] = o[:200]
        ctx.cov['evaluations'] += 1
        if is_crash(o):
            if 'ThreadSanitizer' in o or 'rc=98' in o or 'rc=66' in o:
                ctx.violation('data-race', 'ThreadSanitizer reports a data race between concurrent compilations / VM runs: ' + o[:400], {'request': req[:1500]})
            else:
                ctx.violation('mt-crash', 'multi-threaded run crashed: ' + o[:400], {'request': req[:1500]})
        else:
            f = fields(o)
            if f.get('seqbad') != '0' or f.get('mtbad') != '0':
                ctx.violation('nondeterministic-result', 'a compilation or run gave a different result when repeated / run on another thread: ' + o, {'request': req[:1500]})
    ctx.cov['rule'] = ('(1) nm audit of writable data symbols of a plain build; (2) the same compile requests in two different orders in one process, and 2-4 interleaved VM instances vs isolated runs; '
                       '(3) 8 threads x rounds of compile+run under ThreadSanitizer compared with sequential results; non-trivial = accepted program / multi-instance history')
    ctx.sample({'request': reqs[0][:400]})
    ctx.assumptions.append('PARTIAL: thread schedules and hidden static state are runtime behaviour the Lean model cannot exhibit; covered by TSan + symbol audit + history-permuted runs on generated cases only')
    return finish(ctx)
