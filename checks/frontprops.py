"""Checks for the front-end properties: C14 (scanner), C15 (includes), C10/C11 (macro hygiene and
termination), C08 (breakpoint tables), C02 (totality), C04 (language)."""
import itertools, subprocess
from checks.common import *
from checks import front
from gen import sources, lexoracle
from vlib import hx, unhx, fields, lst, files_req

INT_MAX = 2147483647


def parse_toks(s):
    out = []
    for t in lst(s, ','):
        k, tx, fl, ln = t.split(':')
        out.append((int(k), unhx(tx), unhx(fl), int(ln)))
    return out


def parse_perrs(s):
    out = []
    for e in lst(s, ','):
        k, fl, ln, rq = e.split(':')
        out.append((int(k), unhx(fl), int(ln), unhx(rq)))
    return out


# ---------------------------------------------------------------- C14
C14_THMS = ['Theo.C14_nullable_correct', 'Theo.C14_deriv_correct', 'Theo.C14_matchesB_correct', 'Theo.C14_longest_match',
            'Theo.C14_longest_none', 'Theo.C14_total', 'Theo.C14_partition', 'Theo.C14_each_maxmunch',
            'Theo.C14_tokens_are_lexemes', 'Theo.C14_lines', 'Theo.C14_keywords', 'Theo.C14_keywords_documented', 'Theo.C14_silent_rules_documented', 'Theo.C14_number_rules_documented', 'Theo.C14_identifier_words', 'Theo.C14_identifier_only', 'Theo.C14_word_one_token', 'Theo.C14_catch_all',
            'Theo.C14_one_eof', 'Theo.C14_token_files']


def check_C14(ctx):
    build_all(ctx, ['Theo.Props.C14', 'Theo.Props.C14Ident', 'Theo.Props.C14Silent', 'Theo.Props.C14Numbers', 'Theo.Props.C15'], C14_THMS)
    if ctx.harness is None:
        return finish(ctx)
    # (a) the committed scanner is what flex generates from lexer.l
    out = os.path.join(vlib.CACHE, 'flexcmp_%d' % os.getpid())
    os.makedirs(out, exist_ok=True)
    r = subprocess.run(['flex', '--outfile=' + os.path.join(out, 'lex.yy.c'), '--header-file=' + os.path.join(out, 'lex.yy.h'),
                        '--noline', '--nounistd', os.path.join(vlib.REPO, 'Compiler/src/lexer.l')], capture_output=True, text=True)
    if r.returncode == 0:
        def norm(p):
            return [l.rstrip() for l in open(p, encoding='latin1').read().splitlines()]
        same = norm(os.path.join(out, 'lex.yy.c')) == norm(os.path.join(vlib.REPO, 'Compiler/src/lex.yy.c'))
        ctx.cov['committed_scanner_text_equals_fresh_flex_output'] = same
    else:
        ctx.stage_broken('flex failed on lexer.l', r.stderr[-300:])
    import shutil
    shutil.rmtree(out, ignore_errors=True)
    # (b) behaviour: committed scanner, fresh scanner and the model on the same buffers
    inputs, nex = front.lex_inputs(ctx, ctx.n(1500, 20000), ctx.n(2, 3), ctx.n(0.02, 0.2))
    ctx.cov['exhaustive_strings'] = nex
    ctx.cov['exhaustive'] = False
    # number-shaped words: leading zeros, `$`/`#` followed by digit runs, digits glued to identifiers
    for w_ in ('0', '00', '007', '10', '010', '1x', 'x01', '$0', '$00', '$01', '$10', '#0', '#00', '#007', '$ 1', '#x', '0x10', '09', '90', '100000000000000000000',
               'x := 007 ;', 'foo $01 #00 0', '1 2 03 4'):
        inputs.append(w_.encode())
    a, b = front.corr_lex(ctx, inputs)
    # (c) independent oracle (python re, longest-match loop over lexer.l) against the implementation
    for inp, x in zip(inputs, a):
        ctx.cov['evaluations'] += 1
        if is_crash(x):
            ctx.violation('scanner-crash', 'the scanner crashed on %r: %s' % (inp, x[:200]), {'buffer_hex': inp.hex()})
            continue
        got = [(k, t, l) for (k, t, _, l) in parse_toks(fields(x)['toks'])]
        exp = lexoracle.lex(inp)
        if got != exp:
            ctx.violation('tokenisation-differs', 'tokens of %r are %s, maximal munch over lexer.l gives %s' % (inp, got[:8], exp[:8]),
                          {'buffer_hex': inp.hex()})
        if len(exp) >= 2 or any(k in (2, 24, 28) for k, _, _ in exp):
            ctx.nontrivial(inp.hex())
        ctx.dist('len_%d' % min(len(inp) // 4 * 4, 40))
    # keyword spellings straight from the regenerated table
    kws = re.findall(r'\(\[([0-9, ]*)\], (\d+)\)', open(os.path.join(LEAN, 'Theo/Generated/LexRules.lean')).read().split('def keywords')[1])
    reqs, exp = [], []
    for bs, k in kws:
        b = bytes(int(x) for x in bs.split(',') if x.strip())
        reqs.append('LEX c ' + hx(b))
        exp.append((int(k), b, 1))
    outs = impl(ctx, reqs)
    for r_, e, o in zip(reqs, exp, outs):
        got = [(k, t, l) for (k, t, _, l) in parse_toks(fields(o)['toks'])] if not is_crash(o) else None
        if got != [e]:
            ctx.violation('keyword-spelling', 'spelling %r lexes to %s, expected kind %d' % (e[1], got, e[0]), {'buffer_hex': e[1].hex()})
    ctx.cov['keyword_spellings_checked'] = len(kws)
    # near misses of the documented spellings (pinned table Theo/Spec/Keywords.lean): every prefix of every spelling in
    # every capitalisation, and one-letter extensions; a documented spelling has its documented kind, every other
    # identifier-shaped word is ONE identifier token
    doc = {}
    spec = open(os.path.join(LEAN, 'Theo/Spec/Keywords.lean')).read()
    for nm, body in re.findall(r'\(Tok\.(\w+), \[([^\]]*)\]\)', spec):
        for w in re.findall(r'"([^"]*)"', body):
            doc[w] = lexoracle.kind(nm)
    words = set()
    for w in doc:
        if not re.fullmatch(r'[A-Za-z ]+', w):
            continue
        for i in range(1, len(w) + 1):
            p_ = w[:i]
            for v in (p_.upper(), p_.lower(), p_.capitalize(), p_.swapcase(), p_.title()):
                words.add(v)
        for v in (w + 's', w + 'S', w + '_', w + '0', 'x' + w, w.upper() + w.lower()):
            words.add(v)
    words = sorted(x for x in words if re.fullmatch(r'[A-Za-z_][A-Za-z0-9_]*', x))
    outs = impl(ctx, ['LEX c ' + hx(x.encode()) for x in words])
    idk = lexoracle.kind('ID')
    for x, o in zip(words, outs):
        ctx.cov['evaluations'] += 1
        got = [(k, t, l) for (k, t, _, l) in parse_toks(fields(o)['toks'])] if not is_crash(o) else None
        want = [(doc.get(x, idk), x.encode(), 1)]
        if got != want:
            ctx.violation('keyword-spelling', 'the word %r lexes to %s; documented: %s' % (x, got, 'keyword kind %d' % doc[x] if x in doc else 'an identifier (not a documented keyword spelling)'),
                          {'buffer_hex': x.encode().hex()})
    ctx.cov['near_miss_words_checked'] = len(words)
    # comments and whitespace produce nothing (documented: `//` up to the end of the line OR of the file; blank, tab, newline):
    # metamorphic — appending / inserting a comment or blanks never changes the tokens (kinds, texts, lines)
    rr = ctx.rnd
    bases_ = [b'x := 1', b'LOOP x DO y := y + 1 END', b'a', b'', b'x := 1 ;\ny := 2', b'include', b'DEFINE a AS b END DEFINE a', b'x := RUN f WITH 1 , 2 END']
    ctexts = [b'', b' end of lib', b'x := 99', b'/ / //', b'"quoted"', b'\tLOOP', b' 123 #1 $2 <P>', b'\r']
    mreqs, mexp = [], []
    for b0 in bases_:
        try:
            ref = lexoracle.lex(b0)
        except Exception:
            continue
        for ct in ctexts:
            for variant in (b0 + b'//' + ct, b0 + b' //' + ct, b0 + b'\t//' + ct + b'\n', b0 + b'//' + ct + b'\n   \t', b'//' + ct + b'\n' + b0,
                            b'  \t' + b0 + b'   ', b0 + b' ' * rr.randint(1, 5)):
                lead = variant.index(b0) if b0 and b0 in variant else 0
                shift = variant[:lead].count(b'\n')
                mreqs.append(variant)
                mexp.append([(k, t, l + shift) for (k, t, l) in ref])
    outs = impl(ctx, ['LEX c ' + hx(v) for v in mreqs])
    for v, e, o in zip(mreqs, mexp, outs):
        ctx.cov['evaluations'] += 1
        got = [(k, t, l) for (k, t, _, l) in parse_toks(fields(o)['toks'])] if not is_crash(o) else None
        if got != e:
            ctx.violation('comment-or-blank-produces-tokens', 'the buffer %r lexes to %s; its comments and blanks removed it lexes to %s' % (v, got, e), {'buffer_hex': v.hex()})
            break
    ctx.cov['comment_blank_variants_checked'] = len(mreqs)
    # (d) stream level: include splice
    cases = front.include_graphs(ctx, ctx.n(400, 4000))
    sa, sb = front.corr_scan(ctx, cases)
    scan_oracle(ctx, cases, sa, 'C14')
    session_oracle(ctx, 'C14')
    ctx.cov['rule'] = ('byte strings: exhaustive up to the stated length over a 30-symbol significant alphabet, a sample of the next length, '
                       'random strings biased to keyword fragments, mutated programs; non-trivial = at least two tokens or an operator/quoted/END DEFINE token')
    ctx.sample({'buffer': repr(inputs[-1])})
    ctx.sample({'buffer': repr(inputs[nex + 5] if len(inputs) > nex + 5 else inputs[0])})
    return finish(ctx)


def scan_oracle(ctx, cases, sa, pid):
    P = front.pe()
    names = {v: k for k, v in P.items()}
    for (mainf, files), x in zip(cases, sa):
        ctx.cov['evaluations'] += 1
        desc = {'main': mainf.decode('latin1'), 'files': {k.decode('latin1'): v.decode('latin1') for k, v in files.items()}}
        if is_crash(x):
            ctx.violation('scan-crash', 'Theo::scan crashed: ' + x[:300], desc)
            continue
        f = fields(x)
        toks = parse_toks(f['toks'])
        errs = [(names.get(k, str(k)), fl, ln, rq) for (k, fl, ln, rq) in parse_perrs(f['errs'])]
        etoks, eerrs = lexoracle.scan(files, mainf)
        if pid == 'C14':
            if toks != etoks:
                ctx.violation('splice-differs', 'token stream differs from the include-spliced maximal-munch tokenisation: got %s expected %s' % (toks[:6], etoks[:6]), desc)
            if [t for t in toks if t[0] == 0] != toks[-1:]:
                ctx.violation('eof-token', 'the stream does not end with exactly one EOF token', desc)
        else:
            if errs != eerrs:
                ctx.violation('include-errors-differ', 'scanner errors %s, expected %s' % (errs, eerrs), desc)
        if len(eerrs) > 0 or len(files) > 1:
            ctx.nontrivial(repr(desc))
        for e in eerrs:
            ctx.dist('err_' + e[0])


def session_oracle(ctx, pid):
    """the scanner has no memory: in an editing session (one process, files changing between the calls) every call returns
    the tokenisation / errors of the files passed to THAT call"""
    sessions = front.edit_sessions(ctx, ctx.n(25, 200))
    flat = [rq for sess in sessions for rq in sess]
    outs = vlib.run_batch([ctx.harness], ['SCAN ' + files_req(m, f) for (m, f) in flat], per_line_timeout=60, workers=1)
    ctx.count('SCAN', len(flat))
    P = front.pe()
    names = {v: k for k, v in P.items()}
    i = 0
    for sess in sessions:
        for j, (m, f) in enumerate(sess):
            x = outs[i]
            i += 1
            ctx.cov['evaluations'] += 1
            desc = {'session (file sets of the successive scan calls in one process)': [{k.decode('latin1'): v.decode('latin1') for k, v in fs.items()} for (_, fs) in sess[:j + 1]], 'main': 'm'}
            if is_crash(x):
                ctx.violation('scan-crash', 'Theo::scan crashed in an editing session: ' + x[:300], desc)
                break
            fx = fields(x)
            etoks, eerrs = lexoracle.scan(f, m)
            if pid == 'C14' and parse_toks(fx['toks']) != etoks:
                ctx.violation('scan-has-memory', 'call %d of an editing session returns a token stream that is not the tokenisation of the files passed to it' % j, desc)
                break
            errs = [(names.get(k, str(k)), fl, ln, rq) for (k, fl, ln, rq) in parse_perrs(fx['errs'])]
            if pid == 'C15' and errs != eerrs:
                ctx.violation('scan-has-memory', 'call %d of an editing session reports %s, expected %s' % (j, errs, eerrs), desc)
                break
            if j > 0:
                ctx.nontrivial(repr(desc)[:400])
    ctx.cov['editing_sessions'] = len(sessions)


# ---------------------------------------------------------------- C15
C15_THMS = ['Theo.C15_terminates', 'Theo.C15_include_cases', 'Theo.C15_expected_filename', 'Theo.C15_main_missing',
            'Theo.C15_missing_are_absent', 'Theo.C15_file_requests']


def check_C15(ctx):
    build_all(ctx, ['Theo.Props.C15'], C15_THMS)
    if ctx.harness is None:
        return finish(ctx)
    ex = front.exhaustive_include_graphs(ctx.n(2, 3), 2)
    if not ctx.quick and len(ex) > 60000:
        ex = ctx.rnd.sample(ex, 60000)
    cases = ex + front.include_graphs(ctx, ctx.n(600, 6000))
    ctx.cov['exhaustive_graphs'] = len(ex)
    sa, sb = front.corr_scan(ctx, cases)
    scan_oracle(ctx, cases, sa, 'C15')
    session_oracle(ctx, 'C15')
    # file requests of the whole compilation = names of the not-found errors, in order
    sub = cases if len(cases) < 1500 else ctx.rnd.sample(cases, 1500)
    reqs = ['GEN ' + files_req(m, f) for (m, f) in sub]
    ga = impl(ctx, reqs)
    gb = model(ctx, reqs) if ctx.driver else [None] * len(reqs)
    ctx.count('GEN', len(reqs))
    for (mainf, files), x, y in zip(sub, ga, gb):
        desc = {'main': mainf.decode('latin1'), 'files': {k.decode('latin1'): v.decode('latin1') for k, v in files.items()}}
        if is_crash(x):
            ctx.violation('compile-crash', 'compile crashed on an include graph: ' + x[:300], desc)
            continue
        got = [unhx(r) for r in lst(fields(x)['req'], ',')]
        # the front end prepends `include "__standards__"` to the main file: same graph plus one present file
        # (if the user supplies a file of that name, it is THAT file that is included first — with whatever it includes)
        f2 = dict(files)
        if mainf in f2:
            f2[mainf] = b'include "__standards__" ' + f2[mainf]
        if b'__standards__' not in f2:
            f2[b'__standards__'] = std_macro_text()
        _, eerrs = lexoracle.scan(f2, mainf)
        exp = [e[3] for e in eerrs if e[0] in ('FILE_NOT_FOUND', 'MAIN_FILE_NOT_FOUND')]
        if got != exp:
            ctx.violation('file-requests', 'file_requests %s, expected %s' % (got, exp), desc)
        if y is not None and not is_crash(y) and fields(y).get('req') != fields(x).get('req'):
            ctx.stage_broken('GEN stage: file requests differ', 'impl %s model %s' % (fields(x).get('req'), fields(y).get('req')), desc)
    ctx.cov['rule'] = ('include graphs: exhaustive over the stated number of files with up to two directives each (targets: every file and a missing one; '
                       'main present or absent) plus random larger graphs with malformed directives; non-trivial = more than one file or at least one error')
    ctx.sample({'main': cases[-1][0].decode(), 'files': {k.decode(): v.decode('latin1') for k, v in cases[-1][1].items()}})
    return finish(ctx)


# ---------------------------------------------------------------- C08
C08_THMS = ['Theo.C08_tables_inverse', 'Theo.C08_no_duplicates', 'Theo.C08_no_break_opcode', 'Theo.C08_sitesOK',
            'Theo.C08_no_std_lines', 'Theo.C08_real_lines', 'Theo.C08_enable_iff_reportable']


def tables_oracle(ctx, case, x, positions):
    """the three clauses of C08 on one implementation output"""
    from checks.vmprops import Prog
    f = fields(x)
    if f.get('ok') != '1':
        return False
    p = Prog(f)
    desc = case[2]['text']
    inv = {}
    bad = None
    for bp, idx in p.pb.items():
        if len(set(idx)) != len(idx):
            bad = 'site listed twice for ' + bp
        if not idx:
            bad = 'location %s has no site' % bp
        for i in idx:
            if i in inv:
                bad = 'site %d listed for two locations' % i
            inv[i] = bp
    if inv != p.li:
        missing = [i for i in p.li if i not in inv] + [i for i in inv if i not in p.li]
        bad = 'tables are not inverse of each other (e.g. site %s: line_info %s, potential_breaks %s)' % (
            missing[:1], p.li.get(missing[0]) if missing else None, inv.get(missing[0]) if missing else None)
    for i in p.li:
        if not (0 <= i < len(p.ops)) or p.ops[i] != 'PB':
            bad = 'listed site %d is not a breakpoint instruction' % i
    for i, o in enumerate(p.ops):
        if o == 'PB' and i not in p.li:
            bad = 'breakpoint instruction %d is not listed' % i
        if o == 'BRK':
            bad = 'compiled program contains an enabled BREAK'
    for bp in p.pb:
        fl, ln = bp.split(':')
        if unhx(fl) == b'__standards__':
            bad = 'the hidden standard-macro file is an available location'
        elif (unhx(fl), int(ln)) not in positions:
            bad = 'available location %s:%s is not the position of any token' % (unhx(fl), ln)
    if bad:
        ctx.violation('tables-' + bad.split(' ')[0], bad, desc)
    return True


def std_macro_text():
    """the standard macro text as regenerated from parse.cpp (Theo/Generated/Consts.lean)"""
    t = open(os.path.join(LEAN, 'Theo/Generated/Consts.lean')).read()
    m = re.search(r'def stdMacroText : List UInt8 := \[([0-9, ]*)\]', t)
    return bytes(int(x) for x in m.group(1).split(',') if x.strip())


def check_C08(ctx):
    build_all(ctx, ['Theo.Props.C08'], C08_THMS)
    if ctx.harness is None:
        return finish(ctx)
    cases = front.program_files(ctx, ctx.n(1200, 12000), mutate_frac=0.1, multi_frac=0.6)
    # headers sharing a line with other code, END / headers supplied by includes
    for _ in range(ctx.n(150, 1500)):
        g = sources.Gen(ctx.rnd)
        defs, main = g.program()
        if not defs:
            continue
        ts = sources.toks(defs, main)
        text = sources.text_of_tokens(ts, ctx.rnd, 0.08)
        cases.append((b'm', {b'm': text.encode()}, {'text': {'m': text}, 'defs': defs, 'main': main}))
    # quoted file names that contain a line break (legal: the name is everything between the quotes), code after the include
    for nm in (b'li\nb', b'\n', b'a\n\nb.theo'):
        for pad in (0, 2):
            fl = {b'm': b'\n' * pad + b'include "' + nm + b'"\n// c\nx0 := 1;\n\nx1 := x2 + 1;\n// d\nLOOP x1 DO\n  x2 := 2\nEND\n',
                  nm: b'// lib\nx2 := 5;\n\nx3 := 1;\n'}
            cases.append((b'm', fl, {'text': {k.decode('latin1'): v.decode('latin1') for k, v in fl.items()}}))
    cases.append((b'm', {b'm': b'PROGRAM g IN y DO INCLUDE "c" x0 := y INCLUDE "b" PROGRAM f IN x DO x0 := x END x2 := 1',
                         b'c': b'x1 := 1;', b'b': b'END'}, {'text': 'F5 witness (header continuing a line after an include)'}))
    # macro bodies that continue in an included file, with temporaries and slots as the position-giving tokens of statements
    # there (different line numbers in the two files, uses in a third position)
    for _ in range(ctx.n(40, 400)):
        rr_ = ctx.rnd
        pad1, pad2, pad3 = rr_.randint(0, 6), rr_.randint(0, 8), rr_.randint(0, 3)
        tail = '\n' * pad2 + rr_.choice(['#1 := 5;\nx1 := #1', '#0 := $0 ;\n#1 := #0 ;\n$0 := #1', 'x2 := 1;\n\n#1 := x2;\nLOOP #1 DO\nx1 := x1 + 1\nEND'])
        slot = rr_.random() < 0.5
        head = ('DEFINE foo <ID> AS #0 := $0;' if slot else 'DEFINE foo AS #0 := 1;') + '\n' * pad3 + ' include "tail"\nEND DEFINE\n'
        use = ('foo x0' if slot else 'foo') + rr_.choice(['', ';\nx2 := 3', ';\n' + ('foo x1' if slot else 'foo')])
        fl = {b'm': ('\n' * pad1 + head + use).encode(), b'tail': tail.encode()}
        if '$0' in tail and not slot:
            continue
        cases.append((b'm', fl, {'text': {k.decode(): v.decode() for k, v in fl.items()}}))
    # a supplied file that bears the NAME of the hidden standard-macro file (a vendored copy of the built-in operators, an
    # unrelated file, an empty one), included or not: it is a supplied file like any other, and no location may name anything else
    stdtext = std_macro_text()
    extra = []
    for (m, f, meta) in cases[:ctx.n(150, 1500)]:
        if any(ch in b''.join(f.values()) for ch in (b'+', b'-')):
            for content in (stdtext, stdtext + b'\nx9 := 1\n', b'', b'DEFINE ZZ AS x9 := 2 END DEFINE\n'):
                f2 = dict(f)
                f2[b'__standards__'] = content
                if ctx.rnd.random() < 0.3:
                    f2[m] = f2[m] + b'\ninclude "__standards__"\n'
                extra.append((m, f2, {'text': {k.decode('latin1'): v.decode('latin1') for k, v in f2.items()}}))
    cases += extra
    a, b = front.corr_gen(ctx, cases, keys=['ok', 'code', 'pb', 'li'])
    sc = impl(ctx, ['SCAN ' + files_req(m, dict(f, **{})) for (m, f, _) in cases])
    for c, x, s in zip(cases, a, sc):
        ctx.cov['evaluations'] += 1
        if is_crash(x) or is_crash(s):
            continue
        positions = set((t[2], t[3]) for t in parse_toks(fields(s)['toks']))
        # independent of the implementation's own line counting: the lines of each supplied file on which the PINNED scanner
        # specification finds a token
        try:
            indep = set()
            for fn_, content_ in c[1].items():
                for tk_ in lexoracle.lex(content_):
                    indep.add((fn_, tk_[2]))
            if b'__standards__' not in c[1]:
                indep |= {(b'__standards__', l_) for l_ in range(1, 8)}
            positions &= indep
        except Exception:
            pass
        if tables_oracle(ctx, c, x, positions):
            f = fields(x)
            if len(c[1]) > 1 or f['pb'].count(',') + 1 < f['li'].count(',') + 1:
                ctx.nontrivial(repr(c[2]['text']))
            ctx.dist('compiled')
        else:
            ctx.dist('rejected')
    # observers are read-only: listing the code (disassemble) and asking for the available locations leave both tables as the
    # compiler made them
    sub = [i for i, x in enumerate(a) if not is_crash(x) and fields(x).get('ok') == '1'][:ctx.n(250, 2000)]
    od = impl(ctx, ['GEND ' + files_req(cases[i][0], cases[i][1]) for i in sub])
    ctx.count('GEN', len(sub), 'compilations followed by disassemble()')
    for i, o in zip(sub, od):
        ctx.cov['evaluations'] += 1
        if is_crash(o):
            ctx.violation('observer-crash', 'disassemble() / getAvailableBreakpoints() on a fresh compilation result crashed: ' + o[:200], cases[i][2]['text'])
            break
        fo, fx = fields(o), fields(a[i])
        if (fo['pb'], fo['li'], fo['code']) != (fx['pb'], fx['li'], fx['code']):
            ctx.violation('observer-writes', 'after disassemble() the tables of the compiled program differ from those the compiler returned (%s)' % (
                'site-to-location table' if fo['li'] != fx['li'] else ('location-to-sites table' if fo['pb'] != fx['pb'] else 'code')), cases[i][2]['text'])
            break
    # "a location can be enabled if and only if stepping can report it", on the machine, over histories: refused requests,
    # clear, reset and repeated requests must not make an unavailable location enabled (or an available one refused)
    from checks import vmprops
    hc = []
    for c, x in zip(cases, a):
        if len(hc) >= ctx.n(120, 900):
            break
        if is_crash(x) or fields(x).get('ok') != '1':
            continue
        hc.append({'defs': None, 'main': None, 'files': c[1], 'mainf': c[0], 'text': c[2]['text'], 'prog': vmprops.Prog(fields(x))})
    paths = vmprops.get_path(ctx, [c_['prog'] for c_ in hc], 300)
    jobs = []
    for c_, pth in zip(hc, paths):
        if isinstance(pth, tuple):
            continue
        c_['path'] = pth
        p_ = c_['prog']
        names = sorted({bp.split(':')[0] for bp in p_.avail} | {hx(k_) for k_ in c_['files']})
        lines_ = {int(bp.split(':')[1]) for bp in p_.avail}
        cand = ['%s:%d' % (f_, l_) for f_ in names for l_ in (-1, 0, 1, 2, max(lines_ | {1}) + 1, 4096)] + [hx(b'__standards__') + ':1', hx(b'zz') + ':1', hx(b'') + ':1']
        un = [u for u in cand if u not in p_.pb]
        ctx.rnd.shuffle(un)
        h = []
        for u in un[:3]:
            h += ['b:' + u, ctx.rnd.choice(['c', 'r', 'd:' + u]), 'b:' + u]
        av = list(p_.avail)
        ctx.rnd.shuffle(av)
        for a_ in av[:2]:
            h += ['b:' + a_, 'v', ctx.rnd.choice(['c', 'r', 'd:' + a_, 'e']), 'b:' + a_]
        for u in un[:2]:
            h += ['b:' + u, 'e', 'c', 'b:' + u]
        jobs.append((c_, h + ['v']))
    ha, _hb = vmprops.run_histories(ctx, [j[0] for j in jobs], [j[1] for j in jobs], with_acts=True)
    vmprops.check_history_oracles(ctx, jobs, ha, {'C06'})
    ctx.cov['enable_histories'] = len(jobs)
    # the model's own output satisfies the theorems' conclusion by proof; the implementation's by the oracle above
    ctx.cov['rule'] = ('accepted sources in arbitrary layout (several statements per line, headers sharing lines, token ranges moved into included files); '
                       'non-trivial = more than one file, or some line owning several sites')
    ctx.sample(cases[0][2]['text'])
    ctx.sample(cases[-2][2]['text'])
    return finish(ctx)


# ---------------------------------------------------------------- C10 / C11
C10_THMS = ['Theo.C10_fresh_across_steps', 'Theo.C10_same_within_step', 'Theo.C10_replacement_temps',
            'Theo.C10_one_rewrite_per_pass', 'Theo.C10_step_uses_pass', 'Theo.C10_not_user_writable']
C11_THMS = ['Theo.C11_rewrites_le_budget', 'Theo.C11_unfinished_flagged', 'Theo.C11_no_error_fixpoint',
            'Theo.C11_not_passed_on', 'Theo.C11_step_exists_indep', 'Theo.C11_growth_linear', 'Theo.C11_growth_linear_budget',
            'Theo.C11_growth_linear_usable', 'Theo.C11_growth_general', 'Theo.C11_growth_statement_false', 'Theo.C11_growth_step_linear',
            'Theo.C11_extracted_tt_nodup', 'Theo.C11_growth_extracted_budget', 'Theo.C11_growth_extracted_self']

TEMP_MACROS = [
    # (definitions, uses)
    ("DEFINE SWAP <ID> <ID> AS #0 := $0; $0 := $1; $1 := #0 END DEFINE\n", ["SWAP a b", "SWAP a b; SWAP b a", "SWAP x0 x1; x2 := x0"]),
    ("DEFINE TWICE ( <P> ) AS #0 := 2; LOOP #0 DO $0 END END DEFINE\n", ["TWICE ( x0 := x0 + 1 )", "TWICE ( TWICE ( x0 := x0 + 1 ) )",
                                                                           "TWICE ( x0 := x0 + 1 ); TWICE ( x1 := x1 + 2 )"]),
    ("DEFINE IFZ <V> THEN <P> FI AS #0 := $0; #1 := 1; LOOP #0 DO #1 := 0 END; LOOP #1 DO $1 END END DEFINE\n",
     ["IFZ x1 THEN x0 := 5 FI", "IFZ x1 THEN IFZ x2 THEN x0 := 7 FI FI", "x1 := 1; IFZ x1 THEN x0 := 5 FI; IFZ x2 THEN x0 := x0 + 1 FI"]),
    # a macro WITHOUT slots whose body relies on a fresh (zero) temporary; every use is its own expansion step
    ("DEFINE BUMP AS #0 := #0 + 1 ; LOOP #0 DO x0 := x0 + 1 END END DEFINE\n", ["BUMP", "BUMP ; BUMP", "BUMP ; BUMP ; BUMP", "LOOP a DO BUMP END ; BUMP"]),
    # a temporary that is read again *after* the slot: any collision with a temporary of the slot's own expansion changes a value
    ("DEFINE SAVE <ID> IN ( <P> ) AS #0 := $0; $1; $0 := #0 END DEFINE\n",
     ["SAVE a IN ( a := 1 )", "SAVE a IN ( a := 1; SAVE b IN ( b := 2 ) )", "SAVE a IN ( SAVE b IN ( b := 2 ); a := b )",
      "SAVE a IN ( a := 7 ); SAVE b IN ( b := a )", "SAVE a IN ( SAVE b IN ( SAVE x0 IN ( x0 := 9; a := 1; b := 2 ) ) )"]),
    # the same with a wordy pattern: every rewrite makes the stream SHORTER
    ("DEFINE KEEP <ID> SAFE DURING ( <P> ) THEN PUT IT BACK AGAIN PLEASE AS #0 := $0; $1; $0 := #0 END DEFINE\n",
     ["KEEP a SAFE DURING ( a := 1 ) THEN PUT IT BACK AGAIN PLEASE",
      "KEEP a SAFE DURING ( a := 1; KEEP b SAFE DURING ( b := 2 ) THEN PUT IT BACK AGAIN PLEASE ) THEN PUT IT BACK AGAIN PLEASE",
      "KEEP a SAFE DURING ( KEEP b SAFE DURING ( b := 2 ) THEN PUT IT BACK AGAIN PLEASE ; a := b ) THEN PUT IT BACK AGAIN PLEASE"]),
]


def with_prio(defs, p):
    return defs.replace('DEFINE ', 'DEFINE PRIO %d ' % p).replace('END DEFINE PRIO %d ' % p, 'END DEFINE')


def apply_trace(ctx, texts, budgets):
    """scan + extract through the implementation, then APPLY with every budget on both sides.
    Returns list of (text, budget, impl response fields | None, model fields | None)"""
    toks = front.scan_tokens(ctx, texts)
    ex = impl(ctx, ['EXTRACT ' + t for t in toks if t])
    jobs, meta = [], []
    it = iter(ex)
    for text, t in zip(texts, toks):
        if not t:
            continue
        e = next(it)
        if is_crash(e):
            continue
        f = fields(e)
        for b in budgets:
            jobs.append((b, f['macros'], f['out']))
            meta.append((text, b))
    a, m = front.corr_apply(ctx, jobs, [x[0] for x in meta])
    return [(meta[i][0], meta[i][1], None if is_crash(a[i]) else fields(a[i]), a[i]) for i in range(len(jobs))]


def check_C10(ctx):
    build_all(ctx, ['Theo.Props.C10'], C10_THMS)
    if ctx.harness is None:
        return finish(ctx)
    texts = []
    prios = front.boundary_prios()
    ctx.cov['boundary_priorities'] = prios
    for defs, uses in TEMP_MACROS:
        for u in uses:
            texts.append(defs + u)
            for p_ in prios:
                texts.append(with_prio(defs, p_) + u)
    # the same macro from two files with equal line numbers, and a body spanning an include (F9)
    multi = [
        (b'm', {b'm': b'include "a" include "b"\nTA ; TB', b'a': b'DEFINE TA AS #0 := 1 END DEFINE', b'b': b'DEFINE TB AS #0 := 2 END DEFINE'}),
        (b'm', {b'm': b'DEFINE foo AS #0 := 1; include "b" END DEFINE\nfoo', b'b': b'x := #0'}),
        (b'm', {b'm': b'DEFINE foo AS #0 := 1; #1 := #0 END DEFINE\nfoo; foo; foo'}),
    ]
    r = ctx.rnd
    for _ in range(ctx.n(300, 3000)):
        macros, stream, src = front.macro_case(r)
        texts.append(src)
    res = apply_trace(ctx, texts, [1, 2, 3, 5, 8, 20])
    # unusual but legal shapes: long file keys (full paths), file keys containing ':' and "_(M", large line numbers,
    # many passes (multi-digit pass numbers)
    longnames = [b'/home/student/uni/theoretische-informatik/uebung03/lib/control.theo', b'a:b_(M7)', b'x' * 130,
                 ('lib/' + 'd' * r.randint(40, 90) + '.theo').encode()]
    shapes = []
    for nm in longnames:
        for defs, uses in TEMP_MACROS:
            for u in uses[1:]:
                shapes.append((b'm', {b'm': b'include "' + nm + b'"\n' + u.encode(), nm: (b'\n' * r.choice([0, 3, 12345])) + defs.encode()}))
    many = 'DEFINE CNT <INT> <INT> <INT> <INT> <INT> <INT> <INT> <INT> <INT> <INT> <INT> <INT> AS #0 := 1; CNT2 END DEFINE\n'
    shapes.append((b'm', {b'm': ('DEFINE STEP AS #0 := 1 END DEFINE\n' + '; '.join(['STEP'] * 120)).encode()}))
    # more rewriting steps than three digits can number (the front end allows 1024): every use is its own expansion step
    NUSES = 1012
    shapes.append((b'm', {b'm': ('DEFINE STEP AS #0 := 1 END DEFINE\n' + '; '.join(['STEP'] * NUSES)).encode()}))
    sc = impl(ctx, ['SCAN ' + files_req(m, dict(f)) for (m, f) in shapes])
    for (m, f), sres in zip(shapes, sc):
        desc = {'main': m.decode('latin1'), 'files': {k.decode('latin1'): v.decode('latin1')[:300] for k, v in f.items()}}
        if is_crash(sres):
            continue
        e = impl(ctx, ['EXTRACT ' + fields(sres)['toks']])[0]
        if is_crash(e):
            continue
        fe = fields(e)
        nuses = f[m].count(b'STEP') - 1 if b'DEFINE STEP AS' in f[m] else 0
        req = 'APPLY %d %s %s' % (max(200, nuses + 12), fe['macros'], fe['out'])
        ap = impl(ctx, [req], timeout=180)[0]
        mo_ = model(ctx, [req], timeout=300)[0] if ctx.driver else None
        ctx.cov['evaluations'] += 1
        if is_crash(ap):
            ctx.violation('apply-crash', 'apply_macros crashed: ' + ap[:200], desc)
            continue
        if mo_ is not None and not is_crash(mo_) and fields(mo_).get('toks') != fields(ap).get('toks'):
            ctx.stage_broken('APPLY stage: model and implementation differ in `toks` (unusual file names / many passes)',
                             'impl %s\nmodel %s' % (fields(ap)['toks'][:300], fields(mo_)['toks'][:300]), desc)
        toks = parse_toks(fields(ap)['toks'])
        if nuses:
            # one fresh name per use, whatever the naming scheme
            src_words = {b'x', b':=', b';', b'1', b'EOF', b'STEP'}
            invented = [t[1] for t in toks if t[0] == 1 and t[1] not in src_words]
            if len(set(invented)) != nuses:
                ctx.violation('temp-shared-between-steps', '%d uses of a macro with one temporary give %d distinct temporary names (e.g. %s)' % (
                    nuses, len(set(invented)), sorted(set(x for x in invented if invented.count(x) > 1))[:2] if len(invented) < 4000 else ''), desc)
        temps = [t[1] for t in toks if t[0] == 1 and t[1].startswith(b'#')]
        per = {}
        shapeok = True
        for nmx in temps:
            mm = re.match(rb'^(#\d+):.*_\(M(\d+)\)$', nmx, re.S)
            if not mm:
                ctx.violation('temp-name-shape', 'temporary renamed to %r: the pass marker is missing, temporaries of different steps can collide' % nmx[:90], desc)
                shapeok = False
                break
            per.setdefault((mm.group(1), int(mm.group(2))), set()).add(nmx)
        if shapeok:
            names_by_step = {}
            for (n_, p_), s_ in per.items():
                if len(s_) > 1:
                    ctx.violation('temp-two-names', 'one expansion step gave %r two names' % n_, desc)
                for x in s_:
                    names_by_step.setdefault(x, set()).add(p_)
            ctx.nontrivial(repr(desc)[:300])
    TEMP = re.compile(rb'^#\d+:.*_\(M(\d+)\)$', re.S)
    by_text = {}
    for text, b, f, raw in res:
        ctx.cov['evaluations'] += 1
        if f is None:
            ctx.violation('apply-crash', 'apply_macros crashed: ' + raw[:300], {'source': text, 'passes': b})
            continue
        toks = parse_toks(f['toks'])
        # names the expansion invented (not a token of the source): whatever their spelling, a user must not be able to write them
        try:
            srcset = {tx for (_, tx, _) in lexoracle.lex(text.encode('latin1'))}
        except Exception:
            srcset = None
        if srcset is not None:
            for t in toks:
                if t[1] not in srcset and t[0] != 0:
                    lx = lexoracle.lex(t[1])
                    if len(lx) == 1 and lx[0][0] == 1 and lx[0][1] == t[1]:
                        ctx.violation('temp-name-user-writable', 'the expansion invented the name %r, which is an ordinary identifier a user can write' % t[1], {'source': text, 'passes': b})
                        break
        # one rewrite per pass and fresh names per rewrite: when the text has a single macro whose body has t distinct
        # temporaries and the budget b was exhausted (b rewrites happened), exactly b*t names have been invented
        if srcset is not None and text.count('DEFINE ') - text.count('END DEFINE') == 1 and text.count('END DEFINE') == 1:
            body = text.split(' AS ', 1)[1].split('END DEFINE')[0]
            tcount = len(set(re.findall(r'#\d+', body)))
            errs_ = [e[0] for e in parse_perrs(f['errs'])]
            if tcount and front.pe()['MACRO_APPLY_REACHED_MAX_PASSES'] in errs_:
                invented = {t[1] for t in toks if t[1] not in srcset and t[0] == 1}
                if len(invented) > b * tcount or (len(invented) < b * tcount and not any(t[1].startswith(b'$') for t in toks)):
                    # fewer names than rewrites*temporaries: two expansion steps share a name (a slot may delete tokens of an
                    # earlier step only when a body drops a slot, which these families do not)
                    ctx.violation('temp-shared-between-steps', '%d rewriting steps of a macro with %d temporaries invented %d distinct names (%s)' % (
                        b, tcount, len(invented), sorted(invented)[:4]), {'source': text, 'passes': b})
        temps = [t for t in toks if t[0] == 1 and t[1].startswith(b'#')]
        groups = {}
        for t in temps:
            m = TEMP.match(t[1])
            if not m:
                ctx.violation('temp-name-shape', 'temporary renamed to %r (no pass marker)' % t[1], {'source': text, 'passes': b})
                continue
            groups.setdefault(int(m.group(1)), set()).add(t[1])
            # not writable by a user: must not lex as a single identifier
            lx = lexoracle.lex(t[1])
            if len(lx) == 1 and lx[0][0] == 1:
                ctx.violation('temp-name-user-writable', 'temporary name %r is an ordinary identifier' % t[1], {'source': text, 'passes': b})
        # names of different passes are different by construction of the key; same (pass, #n) must be one name
        for p_, names in groups.items():
            per_n = {}
            for nm in names:
                per_n.setdefault(nm.split(b':')[0], set()).add(nm)
            for n_, s_ in per_n.items():
                if len(s_) > 1:
                    ctx.violation('temp-two-names', 'one expansion step gave temporary %r two names: %s' % (n_, sorted(s_)), {'source': text, 'passes': b})
        allnames = [t[1] for t in temps]
        if len(groups) >= 2:
            ctx.nontrivial(text + str(b))
        by_text.setdefault(text, {})[b] = toks
    # multi-file witnesses through the whole front end
    outs = impl(ctx, ['PARSE ' + files_req(m, f) for (m, f) in multi])
    sc = impl(ctx, ['SCAN ' + files_req(m, dict(f)) for (m, f) in multi])
    for (m, f), s in zip(multi, sc):
        if is_crash(s):
            continue
        ex = impl(ctx, ['EXTRACT ' + fields(s)['toks']])[0]
        fe = fields(ex)
        ap = impl(ctx, ['APPLY 50 %s %s' % (fe['macros'], fe['out'])])[0]
        toks = parse_toks(fields(ap)['toks'])
        temps = [t[1] for t in toks if t[0] == 1 and t[1].startswith(b'#')]
        per = {}
        for nm in temps:
            mm = TEMP.match(nm)
            key = (nm.split(b':')[0], int(mm.group(1)) if mm else -1)
            per.setdefault(key, set()).add(nm)
        for key, s_ in per.items():
            if len(s_) > 1:
                ctx.violation('temp-two-names', 'one expansion step gave temporary %r two names: %s' % (key[0], sorted(s_)),
                              {'files': {k.decode(): v.decode() for k, v in f.items()}})
        # different steps / different macros must not share a name
        seen = {}
        for nm in temps:
            mm = TEMP.match(nm)
            seen.setdefault(nm, set()).add(int(mm.group(1)) if mm else -1)
        ctx.cov['evaluations'] += 1
    # end to end: nested / repeated uses compute what textual expansion with distinct variables computes
    e2e, e2e_meta = [], []
    for defs0, uses in TEMP_MACROS:
        for defs in [defs0] + [with_prio(defs0, p_) for p_ in prios]:
            for u in uses:
                e2e.append(defs + 'x1 := 0; x2 := 0; a := 3; b := 4;\n' + u + '\n')
                e2e_meta.append((defs, u))
    outs = impl(ctx, ['RUN %s 200000' % files_req(b'm', {b'm': t.encode()}) for t in e2e])
    # the temporary-bearing macro lives in a SUPPLIED file called like the hidden standard file (together with a copy of the
    # built-in operators); it is used directly and through a macro of the main file, nested
    save_def = [d for d, _ in TEMP_MACROS if d.startswith('DEFINE SAVE')][0]
    stdf = std_macro_text() + b'\n' + save_def.encode()
    via = 'DEFINE <ID> := RUN via WITH <ID> END AS SAVE $1 IN ( $0 := $1 ) END DEFINE\n'
    sc_src = via + 'a := 3; b := 4; c := 5;\nSAVE c IN ( SAVE a IN ( x0 := RUN via WITH b END ) )\n'
    o = impl(ctx, ['RUN %s 200000' % files_req(b'm', {b'm': sc_src.encode(), b'__standards__': stdf})])[0]
    ctx.cov['evaluations'] += 1
    if is_crash(o) or 'ok=1' not in o or 'done=1' not in o:
        ctx.violation('hygiene-e2e', 'macro program with a supplied standard file did not compile/run: ' + o[:200], {'source': sc_src, '__standards__': stdf.decode('latin1')})
    else:
        env = {}
        for kv in lst(fields(o)['acts'].split('@')[1], ','):
            n_, v_ = kv.split('=')
            env[unhx(n_).decode('latin1')] = int(v_)
        for var, val in {'a': 3, 'b': 4, 'c': 5, 'x0': 4}.items():
            if env.get(var, 0) != val:
                ctx.violation('hygiene-e2e', 'nested macro uses (one direct, one through a macro of another file) interfere through temporaries: %s = %d, expected %d' % (var, env.get(var, 0), val),
                              {'source': sc_src, '__standards__': stdf.decode('latin1')})
    expect = {
        'SWAP a b': {'a': 4, 'b': 3}, 'SWAP a b; SWAP b a': {'a': 3, 'b': 4}, 'SWAP x0 x1; x2 := x0': {'x0': 0, 'x2': 0},
        'TWICE ( x0 := x0 + 1 )': {'x0': 2}, 'TWICE ( TWICE ( x0 := x0 + 1 ) )': {'x0': 4},
        'TWICE ( x0 := x0 + 1 ); TWICE ( x1 := x1 + 2 )': {'x0': 2, 'x1': 4},
        'IFZ x1 THEN x0 := 5 FI': {'x0': 5}, 'IFZ x1 THEN IFZ x2 THEN x0 := 7 FI FI': {'x0': 7},
        'x1 := 1; IFZ x1 THEN x0 := 5 FI; IFZ x2 THEN x0 := x0 + 1 FI': {'x0': 1},
        'BUMP': {'x0': 1}, 'BUMP ; BUMP': {'x0': 2}, 'BUMP ; BUMP ; BUMP': {'x0': 3}, 'LOOP a DO BUMP END ; BUMP': {'x0': 7},
        'SAVE a IN ( a := 1 )': {'a': 3}, 'SAVE a IN ( a := 1; SAVE b IN ( b := 2 ) )': {'a': 3, 'b': 4},
        'SAVE a IN ( SAVE b IN ( b := 2 ); a := b )': {'a': 3, 'b': 4}, 'SAVE a IN ( a := 7 ); SAVE b IN ( b := a )': {'a': 3, 'b': 4},
        'SAVE a IN ( SAVE b IN ( SAVE x0 IN ( x0 := 9; a := 1; b := 2 ) ) )': {'a': 3, 'b': 4, 'x0': 0},
        'KEEP a SAFE DURING ( a := 1 ) THEN PUT IT BACK AGAIN PLEASE': {'a': 3},
        'KEEP a SAFE DURING ( a := 1; KEEP b SAFE DURING ( b := 2 ) THEN PUT IT BACK AGAIN PLEASE ) THEN PUT IT BACK AGAIN PLEASE': {'a': 3, 'b': 4},
        'KEEP a SAFE DURING ( KEEP b SAFE DURING ( b := 2 ) THEN PUT IT BACK AGAIN PLEASE ; a := b ) THEN PUT IT BACK AGAIN PLEASE': {'a': 3, 'b': 4},
    }
    for (defs, u), o in zip(e2e_meta, outs):
        if True:
            ctx.cov['evaluations'] += 1
            if is_crash(o) or 'ok=1' not in o or 'done=1' not in o:
                ctx.violation('hygiene-e2e', 'macro program did not compile/run: ' + o[:200], {'source': defs + u})
                continue
            acts = fields(o)['acts']
            env = {}
            for kv in lst(acts.split('@')[1], ','):
                n_, v_ = kv.split('=')
                env[unhx(n_).decode('latin1')] = int(v_)
            for var, val in expect[u].items():
                if env.get(var, 0) != val:
                    ctx.violation('hygiene-e2e', 'nested/repeated macro use interferes through temporaries: %s = %d, expected %d' % (var, env.get(var, 0), val),
                                  {'source': defs + 'x1 := 0; x2 := 0; a := 3; b := 4;\n' + u})
            ctx.nontrivial('e2e' + u)
    ctx.cov['rule'] = ('macro sets with temporaries (three fixed families used nested / twice / in sequence, random macro sets, multi-file definitions) expanded with budgets '
                       '1..20; non-trivial = output containing temporaries of at least two different expansion steps, or an end-to-end nested use')
    ctx.sample({'source': texts[0]})
    ctx.sample({'source': texts[-1]})
    return finish(ctx)


def check_C11(ctx):
    build_all(ctx, ['Theo.Props.C11', 'Theo.Props.C11Growth', 'Theo.Props.C11GrowthExtracted'], C11_THMS)
    if ctx.harness is None:
        return finish(ctx)
    texts = [
        'DEFINE foo AS foo END DEFINE\nfoo',                                   # self-reproducing, constant size
        'DEFINE foo AS bar END DEFINE\nDEFINE bar AS foo END DEFINE\nfoo',     # mutually recursive
        'DEFINE foo AS foo ; x := 1 END DEFINE\nfoo',                          # grows by body length per pass
        'DEFINE ( <A> ) AS ( $0 , $0 ) END DEFINE\nx := ( a )',               # F11: doubles per pass
        'DEFINE <ID> + <INT> AS RUN __INC__ WITH $0 , $1 END END DEFINE\nx := a + 1',
    ]
    for _ in range(ctx.n(250, 2500)):
        texts.append(front.macro_case(ctx.rnd)[2])
    budgets = [1, 2, 3, 4, 5, 6, 8, 12]
    res = apply_trace(ctx, texts, budgets)
    P = front.pe()
    per = {}
    for text, b, f, raw in res:
        ctx.cov['evaluations'] += 1
        if f is None:
            ctx.violation('apply-crash', 'apply_macros crashed / hung: ' + raw[:300], {'source': text, 'passes': b})
            continue
        per.setdefault(text, {})[b] = (parse_toks(f['toks']), [e[0] for e in parse_perrs(f['errs'])])
    for text, d in list(per.items()):
        bs = sorted(d)
        # rewrites needed = first budget whose result equals the result of the next budget and has no error
        for i, b in enumerate(bs):
            toks, errs = d[b]
            flagged = P['MACRO_APPLY_REACHED_MAX_PASSES'] in errs
            # the stream after b passes must be the stream after b' > b passes cut at b rewrites: prefix property
            if i + 1 < len(bs):
                nxt = d[bs[i + 1]][0]
                still = nxt != toks
                if still and not flagged:
                    ctx.violation('unfinished-not-flagged', 'with budget %d rewriting was still possible (budget %d gives another stream) but no too-many-substitutions error was reported' % (b, bs[i + 1]),
                                  {'source': text, 'passes': b})
                if flagged and not still and d[bs[i + 1]][1].count(P['MACRO_APPLY_REACHED_MAX_PASSES']) == 0 and False:
                    pass
            # growth: at most budget * (longest body + longest slot content) — checked against the input length
        first = d[bs[0]][0]
        if any(P['MACRO_APPLY_REACHED_MAX_PASSES'] in d[b][1] for b in bs):
            ctx.nontrivial(text)
        ctx.dist('flagged' if any(P['MACRO_APPLY_REACHED_MAX_PASSES'] in d[b][1] for b in bs) else 'finished')
    # the number of rewriting steps is at most the budget, whatever the length of the input: a divergent macro that leaves one
    # countable mark (an assignment to `cnt`) per rewrite, behind 0, 5 or 40 other statements
    counting = ['DEFINE foo AS foo ; cnt := 1 END DEFINE\n' + 'y := 0 ; ' * k_ + 'foo' for k_ in (0, 5, 40)]
    # ... and at every boundary priority (the constants of the sources +-1, among them the priority of the built-in operators):
    # no priority is exempt from the budget
    counting += ['DEFINE PRIO %d foo AS foo ; cnt := 1 END DEFINE\nfoo' % pr_ for pr_ in front.boundary_prios()]
    for text, b, f, raw in apply_trace(ctx, counting, budgets + [20]):
        ctx.cov['evaluations'] += 1
        if f is None:
            ctx.violation('apply-crash', 'apply_macros crashed / hung: ' + raw[:300], {'source': text, 'passes': b})
            continue
        steps = sum(1 for t in parse_toks(f['toks']) if t[1] == b'cnt')
        flagged = P['MACRO_APPLY_REACHED_MAX_PASSES'] in [e[0] for e in parse_perrs(f['errs'])]
        if steps > b:
            ctx.violation('more-steps-than-budget', 'with a budget of %d rewriting steps, %d steps were performed (%d marks in the result)' % (b, steps, steps), {'source': text, 'passes': b})
        elif steps < b or not flagged:
            ctx.violation('unfinished-not-flagged' if steps == b else 'fewer-steps-than-budget', 'a divergent macro under budget %d: %d steps performed, error flagged: %s' % (b, steps, flagged), {'source': text, 'passes': b})
        ctx.nontrivial(text + '|%d' % b)
    # divergent by construction, with a macro that ERASES (empty body) in the cycle: the budget error is due under every budget,
    # and the whole compilation is incorrect
    erasing = ['DEFINE nop ; AS END DEFINE\nDEFINE x0 := 1 AS nop ; x0 := 1 END DEFINE\nx0 := 1',
               'DEFINE PRIO 9 nop ; AS END DEFINE\nDEFINE PRIO 1 y := 2 AS nop ; y := 2 END DEFINE\ny := 2',
               'DEFINE PRIO 1 nop ; AS END DEFINE\nDEFINE PRIO 9 y := 2 AS nop ; y := 2 END DEFINE\ny := 2 ; nop ; y := 2',
               'DEFINE a AS END DEFINE\nDEFINE b AS a b END DEFINE\nb']
    for text, b, f, raw in apply_trace(ctx, erasing, budgets):
        ctx.cov['evaluations'] += 1
        if f is None:
            ctx.violation('apply-crash', 'apply_macros crashed / hung: ' + raw[:300], {'source': text, 'passes': b})
            continue
        if P['MACRO_APPLY_REACHED_MAX_PASSES'] not in [e[0] for e in parse_perrs(f['errs'])]:
            ctx.violation('unfinished-not-flagged', 'a divergent macro set (one macro of the cycle has an empty body) under budget %d: no too-many-substitutions error' % b, {'source': text, 'passes': b})
            break
        ctx.nontrivial(text + '|%d' % b)
    for t, o in zip(erasing, impl(ctx, ['GEN ' + files_req(b'm', {b'm': t.encode()}) for t in erasing], timeout=120)):
        ctx.cov['evaluations'] += 1
        if is_crash(o) or fields(o).get('ok') != '0':
            ctx.violation('unfinished-passed-on', 'a divergent macro set with an erasing macro: %s' % ('compile crashed / hung' if is_crash(o) else 'compiled as correct'), {'source': t})
    # all pass budgets: terminating macro sets with budgets at the edges of the parameter's type (unsigned 32 bit) and of int;
    # a budget larger than the number of rewrites needed gives the fixed point without an error
    fin = []
    for defs, uses in TEMP_MACROS:
        for u in uses[:2]:
            fin.append(defs + u)
    fin.append('DEFINE a AS b END DEFINE\nDEFINE b AS c END DEFINE\na ; a ; b')
    bigb = [64, 65535, 65536, 2147483647, 2147483648, 3000000000, 4294967295]
    for text, b, f, raw in apply_trace(ctx, fin, [40] + bigb):
        ctx.cov['evaluations'] += 1
        if f is None:
            ctx.violation('apply-crash', 'apply_macros crashed / hung: ' + raw[:300], {'source': text, 'passes': b})
            continue
        per.setdefault('big:' + text, {})[b] = (parse_toks(f['toks']), [e[0] for e in parse_perrs(f['errs'])])
    for key, d in per.items():
        if not key.startswith('big:') or 40 not in d:
            continue
        ref = d[40]
        if P['MACRO_APPLY_REACHED_MAX_PASSES'] in ref[1]:
            continue
        for b in bigb:
            if b in d and d[b] != ref:
                ctx.violation('budget-edge', 'with pass budget %d the expansion differs from the fixed point reached with budget 40 (tokens %s, errors %s)' % (
                    b, 'differ' if d[b][0] != ref[0] else 'equal', d[b][1]), {'source': key[4:], 'passes': b})
                break
        ctx.nontrivial(key)
    # rewrites ≤ budget: the model reports its count; the implementation's count is read off the per-budget streams
    # an unfinished expansion is not passed on: whole compilation with a self-reproducing macro
    whole = texts[:3] + [
        # divergent sets whose every intermediate form is a well-formed program: only the budget error stops them
        'DEFINE <ID> := 0 AS $0 := 0 ; $0 := 0 END DEFINE\nx1 := 0',
        'DEFINE tick := <INT> AS tock := $0 END DEFINE\nDEFINE tock := <INT> AS tick := $0 END DEFINE\ntick := 1',
        'DEFINE <ID> := <ID> AS $0 := $1 ; $1 := $0 END DEFINE\na := b',
        # fast growth (73 tokens per rewrite): the stream passes 2^16 tokens before the real budget of 1024 rewrites is used up
        # (every intermediate form is a well-formed program, so only the budget error can stop it)
        'DEFINE <ID> := 0 AS $0 := 0' + ' ; $0 := 0' * 19 + ' END DEFINE\nx1 := 0',
    ]
    outs = impl(ctx, ['GEN ' + files_req(b'm', {b'm': t.encode()}) for t in whole], timeout=600)
    for t, o in zip(whole, outs):
        ctx.cov['evaluations'] += 1
        if is_crash(o) and len(t) > 300 and 'timeout' in o.lower():
            # the fast-growing set is legitimately expensive (about 1000 passes over a stream of up to 80 000 tokens): running
            # out of wall-clock time on a loaded machine is inconclusive, not a violation (a genuine hang is F11's subject)
            ctx.cov['fast_growth_inconclusive_timeouts'] = ctx.cov.get('fast_growth_inconclusive_timeouts', 0) + 1
            continue
        if is_crash(o):
            ctx.violation('expansion-hang', 'compile did not return on a self-reproducing macro: ' + o[:200], {'source': t})
        elif fields(o).get('ok') != '0':
            ctx.violation('unfinished-passed-on', 'a source whose expansion exhausts the budget compiled as correct', {'source': t})
    # F11 (known finding): slot-duplicating self-reproducing macro under the real budget
    t0 = time.time()
    o = vlib.run_batch([ctx.harness], ['GEN ' + files_req(b'm', {b'm': texts[3].encode()})], per_line_timeout=ctx.n(20, 60))[0]
    if is_crash(o):
        ctx.violation('F11-exponential-growth', 'compile does not return within %ds: the stream doubles per pass (`DEFINE ( <A> ) AS ( $0 , $0 )` on `x := ( a )`), so the 1024-pass budget does not bound the work' % ctx.n(20, 60),
                      {'source': texts[3]})
    ctx.cov['rule'] = ('macro sets (self-reproducing, mutually recursive, growing, random) expanded with budgets 1..12 on both sides; per-budget streams give the '
                       'implementation\'s rewrite count; non-trivial = some budget exhausted (error flagged)')
    ctx.sample({'source': texts[0], 'budgets': budgets})
    ctx.sample({'source': texts[-1], 'budgets': budgets})
    return finish(ctx)


# ---------------------------------------------------------------- C02
C02_THMS = ['Theo.C02_verdict', 'Theo.C02_parse_fuel_ok', 'Theo.C02_scan_terminates', 'Theo.C02_lexer_progress',
            'Theo.C02_macro_budget', 'Theo.C02_errors_forwarded', 'Theo.C02_errors_located', 'Theo.C02_parse_errors_located',
            'Theo.C02_gen_located']


def located_ok(files, main, e_file, e_line):
    """an error location names a supplied file (or the hidden standard file, or '-') with a line inside it"""
    if e_file == b'-' and e_line == -1:
        return True
    if e_file == b'__standards__' and b'__standards__' not in files:
        return 1 <= e_line <= 3
    if e_file not in files:
        return False
    content = files[e_file].split(b'\0')[0]
    nlines = content.count(b'\n') + 1
    return 1 <= e_line <= nlines


# the defect witnesses of DESIGN section 6 and other inputs that drive error paths / library state (errno, huge literals)
C02_CORPUS = [
    (b'm', {b'm': b'PROGRAM f DO x0 := 1 END\nx1 := RUN f WITH END'}),
    (b'm', {b'm': b'PROGRAM f IN a DO x0 := a END\nx1 := RUN f WITH x1, END'}),
    (b'q', {b'm': b'x := 1'}), (b'm', {b'm': b''}), (b'm', {b'm': b'  // only a comment\n\n'}),
    (b'm', {b'm': b'PROGRAM f IN a, a OUT a DO a := a END\nx1 := RUN f WITH 1, 2 END'}),
    (b'm', {b'm': b'DEFINE'}), (b'm', {b'm': b'DEFINE x AS'}), (b'm', {b'm': b'DEFINE PRIO 99999999999999999999 x AS y END DEFINE x'}),
    (b'm', {b'm': b'x0 := 99999999999999999999'}), (b'm', {b'm': b'x0 := x0 - 2147483648'}), (b'm', {b'm': b'x0 := x0 + 2147483647'}),
    (b'm', {b'm': b'$0 <P> #1 <ID> x := \x00 y'}), (b'm', {b'm': b'\xff\xfe := 1; include'}), (b'm', {b'm': b'RUN'}),
    (b'm', {b'm': b'x := RUN f WITH'}), (b'm', {b'm': b'PROGRAM'}), (b'm', {b'm': b'PROGRAM f IN'}), (b'm', {b'm': b'PROGRAM f IN a OUT'}),
    (b'm', {b'm': b'LOOP'}), (b'm', {b'm': b'IF x = 1 THEN GOTO'}), (b'm', {b'm': b'l:'}), (b'm', {b'm': b'; ; ;'}),
    (b'm', {b'm': b'include "m"'}), (b'__standards__', {}), (b'm', {b'm': b'x := 1', b'__standards__': b'DEFINE'}),
    (b'm', {b'm': b'', b'__standards__': b'x := RUN f WITH END'}), (b'm', {b'm': b'', b'__standards__': b'GOTO m'}),
    (b'm', {b'm': b'include "__standards__"', b'__standards__': b'x := 99999999999; LOOP x DO y := RUN g WITH 1 END END'}),
    (b'-', {b'-': b';'}), (b'm', {b'm': b'\n\ninclude "-"', b'-': b'x := \n\n;'}), (b'-', {b'm': b'x := 1'}),
    # the input ends inside an included file that is longer than the (one-line) main file: end-of-input errors must still
    # name a line that exists in the file they name
    (b'm', {b'm': b'include "a"', b'a': b'\n\n\n\n\n\nLOOP x DO\n\n\n  y := 1;\n\n\n'}),
    (b'm', {b'm': b'include "a"', b'a': b'\n' * 40 + b'PROGRAM f IN a DO x0 := a\n\n'}),
    (b'm', {b'm': b'include "a"', b'a': b'\n\n\ninclude "b"\n', b'b': b'\n' * 17 + b'x := RUN f WITH 1 ,'}),
    (b'm', {b'm': b'x := 1 ; include "a"', b'a': b'\n' * 9 + b'IF x = 1 THEN'}),
    (b'm', {b'm': b'include "a"', b'a': b'\n' * 12 + b'DEFINE foo AS x := 1\n\n'}),
    # divergent macro sets that live in a SUPPLIED file bearing the hidden standard file's name (or in a main file of that
    # name): the pass budget holds for them as for any other definition
    (b'm', {b'm': b'foo', b'__standards__': b'DEFINE foo AS foo END DEFINE'}),
    (b'm', {b'm': b'x := 0', b'__standards__': b'DEFINE <ID> := 0 AS $0 := 0 ; $0 := 0 END DEFINE'}),
    (b'__standards__', {b'__standards__': b'DEFINE foo AS bar END DEFINE DEFINE bar AS foo END DEFINE foo'}),
    (b'm', {b'm': b'include "__standards__" tick := 1', b'__standards__': b'DEFINE tick := <INT> AS tock := $0 END DEFINE DEFINE tock := <INT> AS tick := $0 END DEFINE'}),
]


def source_dictionary():
    """whole string literals of identifier shape in the compiler sources (names the code compares identifiers with)"""
    import glob
    ids = set()
    for f in sorted(glob.glob(os.path.join(vlib.REPO, 'Compiler/src/*.cpp')) + glob.glob(os.path.join(vlib.REPO, 'Compiler/include/*.hpp'))):
        if 'lex.yy' in f:
            continue
        for m in re.finditer(r'"((?:[^"\\\n]|\\.)*)"', open(f, errors='replace').read()):
            if re.fullmatch(r'[A-Za-z_][A-Za-z0-9_]*', m.group(1)):
                ids.add(m.group(1))
    return sorted(ids) or ['x0']


def check_C02(ctx):
    build_all(ctx, ['Theo.Props.C02', 'Theo.Props.C02Located'], C02_THMS)
    if ctx.harness is None:
        return finish(ctx)
    r = ctx.rnd
    cases = []
    corpus = C02_CORPUS
    for m, f in corpus:
        cases.append((m, f, {'text': {k.decode('latin1'): v.decode('latin1') for k, v in f.items()}, 'corpus': True}))
    # every single-token deletion / insertion / swap of a few valid sources; truncation at every token
    for _ in range(ctx.n(6, 40)):
        g = sources.Gen(r)
        defs, main = g.program()
        ts = sources.toks(defs, main)
        variants = []
        for i in range(len(ts)):
            variants.append(ts[:i] + ts[i + 1:])
            variants.append(ts[:i])
            if i + 1 < len(ts):
                variants.append(ts[:i] + [ts[i + 1], ts[i]] + ts[i + 2:])
            variants.append(ts[:i] + [r.choice(sources.MUT_VOCAB)] + ts[i:])
        if ctx.quick and len(variants) > 150:
            variants = r.sample(variants, 150)
        for v in variants:
            text = ' '.join(v)
            cases.append((b'm', {b'm': text.encode('latin1')}, {'text': {'m': text}}))
    cases += front.program_files(ctx, ctx.n(500, 6000), mutate_frac=0.85, multi_frac=0.3)
    # boundary literals (around 2^31, 2^32, 2^63, 2^64, 20 and 25 digits) at every position that takes a number, in sources
    # that are otherwise error-free (so that every later stage sees them), also in direct calls of the built-in operators
    from checks import vmprops as _vm
    for lit in _vm.BOUNDARY_LITS:
        for t in _vm.LITERAL_TEMPLATES + ['x0 := RUN __INC__ WITH x1 , %s END\n', 'x0 := RUN __DEC__ WITH x1 , %s END\n', 'x0 := RUN __INC__ WITH %s , 1 END\n',
                                          'LOOP x1 DO x0 := x0 + %s END\n', 'PROGRAM f IN a DO x0 := a - %s END\nx1 := RUN f WITH 1 END\n']:
            text = t % lit
            cases.append((b'm', {b'm': text.encode()}, {'text': {'m': text}}))
    # macro definitions with boundary numbers in every numeric position, cut off at every token (deterministic family:
    # end of file inside the header, the pattern, the body, before END DEFINE, and complete + use site)
    NUMS = ['0', '1', '7', '2147483646', '2147483647', '99999999999', '9223372036854775808', '99999999999999999999']
    for tmpl in ('DEFINE PRIO {n} foo <ID> AS x := $0 ; $1 END DEFINE foo a',
                 'DEFINE foo <ID> <V> AS x := ${n} ; y := $0 END DEFINE foo a 1',
                 'DEFINE PRIO 3 foo <P> ; AS #{n} := 1 ; $0 ; ${n} END DEFINE foo x := 1 ;',
                 'DEFINE foo AS y := ${n} END DEFINE DEFINE bar <INT> AS $0 END DEFINE foo ; bar 2',
                 # empty and minimal bodies that are actually used
                 'DEFINE skip ; AS END DEFINE skip ; x0 := {n}',
                 'DEFINE nop AS END DEFINE DEFINE PRIO {n} id <V> AS $0 END DEFINE x := id 3 ; nop',
                 'DEFINE tmp AS #0 END DEFINE DEFINE one <ID> AS END DEFINE x := tmp ; one y'):
        for n_ in NUMS:
            toks_ = tmpl.replace('{n}', n_).split(' ')
            for cut in range(1, len(toks_) + 1):
                t = ' '.join(toks_[:cut])
                cases.append((b'm', {b'm': t.encode('latin1')}, {'text': {'m': t}}))
    # dictionary: identifiers the sources themselves treat specially (whole string literals of identifier shape)
    magic = source_dictionary()
    ctx.cov['dictionary'] = magic
    argshapes = ['x1', '2', 'x1 + 1', 'RUN g WITH x1 END', '']
    for mname in magic:
        for ar in range(0, 4):
            for _ in range(3 if ar else 1):
                args = ' , '.join(r.choice(argshapes[:4]) for _ in range(ar))
                for pre in ('', 'PROGRAM g IN a DO x0 := a END ', 'PROGRAM %s IN a , b DO x0 := a END ' % mname, 'PROGRAM g IN a DO x0 := a END PROGRAM %s DO x0 := 1 END ' % mname):
                    for stmt in ('x0 := RUN %s WITH %s END' % (mname, args), 'x0 := RUN g WITH RUN %s WITH %s END END' % (mname, args),
                                 '%s := RUN g WITH %s END' % (mname, mname), 'LOOP %s DO %s := %s + 1 END' % (mname, mname, mname)):
                        t = pre + stmt
                        cases.append((b'm', {b'm': t.encode('latin1')}, {'text': {'m': t}}))
    for _ in range(ctx.n(200, 2000)):
        g = sources.Gen(r)
        defs, main = g.program()
        ts = sources.toks(defs, main)
        for _ in range(r.randint(1, 3)):
            i = r.randrange(len(ts)) if ts else 0
            if ts and re.fullmatch(r'[a-z][a-z0-9]*', ts[i]):
                ts[i] = r.choice(magic)
            else:
                ts.insert(i, r.choice(magic))
        t = ' '.join(ts)
        cases.append((b'm', {b'm': t.encode('latin1')}, {'text': {'m': t}}))
    # macro-heavy garbage
    for _ in range(ctx.n(300, 3000)):
        t = ' '.join(r.choice(front.EXTRACT_VOC + sources.MUT_VOCAB) for _ in range(r.randint(0, 16)))
        cases.append((b'm', {b'm': t.encode('latin1')}, {'text': {'m': t}}))

    def crash(i, x, d):
        if 'F11' in str(d):
            return
        ctx.violation('compile-crash', 'compile() did not return normally (crash / sanitizer report / leak / timeout): ' + x[:400], d)
    a, b = front.corr_gen(ctx, cases, crash_is_violation=crash, keys=['ok', 'errs', 'req'])
    for (m, f, meta), x in zip(cases, a):
        ctx.cov['evaluations'] += 1
        if is_crash(x):
            continue
        fx = fields(x)
        errs = lst(fx['errs'], ',')
        ok = fx['ok'] == '1'
        if ok and errs:
            ctx.violation('verdict-both', 'result marked correct but carries errors', meta['text'])
        if not ok and not errs:
            ctx.violation('verdict-neither', 'result marked incorrect without any error', meta['text'])
        for e in errs:
            t, msg, fl, ln = e.split(':')
            if len(unhx(msg)) == 0:
                ctx.violation('empty-message', 'an error has an empty message', meta['text'])
            if not located_ok(f, m, unhx(fl), int(ln)):
                ctx.violation('error-location', 'error located at %r:%s, which is not a line of a supplied file' % (unhx(fl), ln), meta['text'])
        if not ok:
            ctx.nontrivial(repr(meta['text']))
            for e in errs[:1]:
                ctx.dist('errtype_' + e.split(':')[0])
        else:
            ctx.dist('accepted')
    # F8 / F11: resource findings are replayed explicitly against a plain build with the default stack
    plain, err = vlib.build_harness('plain')
    if plain:
        big = b'x:=1;' * ctx.n(200000, 200000)
        o = vlib.run_batch([plain], ['GEN ' + files_req(b'm', {b'm': big})], per_line_timeout=60, env=dict(os.environ, THEO_DEFAULT_STACK='1'))[0]
        if is_crash(o):
            ctx.violation('F8-stack-depth', 'compile() of a 1 MB source (200 000 statements) crashes: recursion depth is linear in the input: ' + o[:200],
                          {'source': "'x:=1;' * 200000"})
        o = vlib.run_batch([plain], ['GEN ' + files_req(b'm', {b'm': b'DEFINE ( <A> ) AS ( $0 , $0 ) END DEFINE\nx := ( a )'})],
                           per_line_timeout=ctx.n(15, 60), env=dict(os.environ))[0]
        if is_crash(o):
            ctx.violation('F11-exponential-growth', 'compile() does not return on a slot-duplicating self-reproducing macro', {'source': 'DEFINE ( <A> ) AS ( $0 , $0 ) END DEFINE / x := ( a )'})
    ctx.cov['rule'] = ('malformed and valid inputs: defect corpus, every single-token deletion/truncation/swap/insertion of generated sources, multi-edit neighbours in '
                       'random multi-file layouts, macro/template garbage; every request runs under ASan+UBSan+LSan with libstdc++ assertions; non-trivial = input rejected with errors')
    ctx.sample(cases[1][2]['text'])
    ctx.sample(cases[-1][2]['text'])
    ctx.assumptions.append('PARTIAL: "no undefined behaviour, no leak, bounded work" is runtime behaviour the Lean model cannot exhibit; it is observed by sanitizers and time limits on the generated inputs only')
    return finish(ctx)


# ---------------------------------------------------------------- C04
C04_THMS = ['Theo.C04_parse_sound', 'Theo.C04_parse_complete', 'Theo.C04_parse_iff', 'Theo.C04_parse_fuel_ok', 'Theo.C04_errors_not_lost',
            'Theo.C04_static_iff', 'Theo.C04_parser_shape', 'Theo.C04_accepts_iff', 'Theo.C04_compile_iff', 'Theo.C04_literal_rule',
            'Theo.C04_sugar_apply', 'Theo.C04_sugar_frontEnd', 'Theo.C04_compile_iff_sugar', 'Theo.C04_stdDefs_shape']


def check_C04(ctx, thms=None):
    from gen import strict
    build_all(ctx, ['Theo.Props.C04', 'Theo.Props.C04Static', 'Theo.Props.C04Sugar'], thms or C04_THMS)
    if ctx.harness is None:
        return finish(ctx)
    r = ctx.rnd
    cases, verdicts = [], []
    while len(cases) < ctx.n(2500, 25000):
        g = sources.Gen(r, big=r.random() < 0.2)
        defs, main = g.program()
        base = sources.toks(defs, main)
        for _ in range(5):
            ts = list(base) if r.random() < 0.25 else sources.mutate(base, r, vocab=strict.VOCAB)
            if not ts:
                continue
            v, why, info = strict.verdict(ts)
            if info.dup:
                continue          # duplicate labels / parameters: treatment left open by the documentation
            text = sources.text_of_tokens(sources.respell(ts, r), r)
            cases.append((b'm', {b'm': text.encode('latin1')}, {'text': {'m': text}}))
            verdicts.append((v, why))
    # every single insertion of a structural token at every position, and every single deletion, of a few valid sources
    STRUCT = [',', ';', ':', ':=', 'END', 'DO', '=', 'THEN', 'WITH', 'x0', '3', 'IN', 'OUT', '!= 0', 'RUN', 'LOOP', 'STOP', 'GOTO']
    # two fixed sources that contain every construct of the grammar (so that the exhaustive single edits do not depend on
    # what the random generator happens to produce), then random ones
    KITCHEN = [
        'PROGRAM f IN a , b OUT r DO r := a + 1 END PROGRAM g DO x0 := 2 END x := RUN f WITH 1 , y END ; LOOP x DO m : y := y - 1 ; '
        'IF y = 0 THEN GOTO m END ; WHILE x != 0 DO x := RUN f WITH RUN f WITH x , 2 END , 3 END ; z := RUN g WITH END END ; STOP ; GOTO m',
        'PROGRAM h IN a DO e : a := a ; IF a = 3 THEN GOTO e ; STOP END q := RUN h WITH q END',
        # a name defined twice, the first definition (with a call, a literal and a jump of its own) used in between
        'PROGRAM h IN a DO x0 := a END PROGRAM f IN a DO m : x0 := RUN h WITH 3 END ; IF a = 2 THEN GOTO m END '
        'PROGRAM g IN a DO x0 := RUN f WITH a END END PROGRAM f IN a , b DO x0 := b END x := RUN g WITH 1 END ; y := RUN f WITH 1 , 2 END',
    ]
    bases = [k.split(' ') for k in KITCHEN]
    bases = [[('!= 0' if t == '!=' else t) for t in b if t != '0' or True] for b in bases]
    for b in bases:
        # re-join the two-character operator `!= 0` that the split separated
        i = 0
        while i < len(b) - 1:
            if b[i] == '!= 0' and b[i + 1] == '0':
                del b[i + 1]
            i += 1
    for it in range(ctx.n(8, 60) + len(bases)):
        if it < len(bases):
            base = bases[it]
        else:
            g = sources.Gen(r)
            defs, main = g.program()
            base = sources.toks(defs, main)
        if len(base) > 90:
            continue
        variants = [base[:i] + [t] + base[i:] for i in range(len(base) + 1) for t in STRUCT] + [base[:i] + base[i + 1:] for i in range(len(base))]
        if it < len(bases):
            # every identifier replaced by every other identifier of the source and by a fresh one
            ids_ = sorted({t for t in base if re.fullmatch(r'[a-z][a-z0-9]*', t)}) + ['zz']
            variants += [base[:i] + [t] + base[i + 1:] for i in range(len(base)) if re.fullmatch(r'[a-z][a-z0-9]*', base[i]) for t in ids_ if t != base[i]]
        for ts in variants:
            v, why, info = strict.verdict(ts)
            if info.dup:
                continue
            text = ' '.join(ts)
            cases.append((b'm', {b'm': text.encode('latin1')}, {'text': {'m': text}}))
            verdicts.append((v, why))
    # empty statement lists (the grammar has no empty production for a statement sequence): empty bodies, a label with nothing
    # behind it, no main part, nothing at all
    for text in ('LOOP x DO END', 'WHILE x != 0 DO END', 'x := 1 ; LOOP x DO END ; y := 2', 'PROGRAM f IN a DO END x := 1', 'PROGRAM f IN a DO x0 := a END',
                 'x := 1 ; l :', 'x := 1 ; GOTO l ; l :', 'LOOP x DO x := 1 ; l : END', 'PROGRAM f IN a DO l : END x := 1', 'LOOP x DO LOOP y DO END END',
                 'x := 1 ; LOOP x DO y := 1 END'):
        ts = [('!= 0' if t == '!=' else t) for t in text.split(' ')]
        ts = [t for i, t in enumerate(ts) if not (t == '0' and i > 0 and ts[i - 1] == '!= 0')]
        v, why, info = strict.verdict(ts)
        cases.append((b'm', {b'm': text.encode()}, {'text': {'m': text}}))
        verdicts.append((v, why))
    # jumps to labels of ANOTHER body: from the main body into each program (the last one in particular), from a program into
    # the main body or into another program; label names that exist in one body only
    for _ in range(ctx.n(120, 1200)):
        g = sources.Gen(r)
        defs, main = g.program()
        if not defs:
            continue
        defs = [list(d) for d in defs]
        # give every body a label of its own: q<i> at the start of program i, qm in the main body
        for i, d in enumerate(defs):
            d[3] = [['label', 'q%d' % i, 0]] + d[3]
        main = [['label', 'qm', 0]] + main
        bodies = [d[3] for d in defs] + [main]
        src = r.randrange(len(bodies))
        tgt = r.choice([j for j in range(len(bodies)) if j != src] + [len(defs) - 1])
        if tgt == src:
            continue
        lab = 'qm' if tgt == len(defs) else 'q%d' % tgt
        jump = ['goto', lab, 0] if r.random() < 0.5 else ['if', 'x0', r.randint(0, 2), lab, 0]
        bodies[src].insert(r.randrange(1, len(bodies[src]) + 1), jump)
        ts = sources.toks([tuple(d) for d in defs], main)
        v, why, info = strict.verdict(ts)
        if info.dup:
            continue
        text = sources.text_of_tokens(sources.respell(ts, r), r)
        cases.append((b'm', {b'm': text.encode('latin1')}, {'text': {'m': text}}))
        verdicts.append((v, why))
    # every literal position (assignment, +/- operand, IF constant, RUN argument) with the boundary literals
    BND = ['2147483646', '2147483647', '2147483648', '4294967296', '9223372036854775808', '99999999999999999999']
    for it_ in range(ctx.n(40, 400) + len(bases)):
        if it_ < len(bases):
            base = bases[it_]
        else:
            g = sources.Gen(r)
            defs, main = g.program()
            base = sources.toks(defs, main)
        pos = [i for i, t in enumerate(base) if t.isdigit()]
        for i in (pos if len(pos) <= 12 else r.sample(pos, 12)):
            for lit in BND:
                ts = base[:i] + [lit] + base[i + 1:]
                v, why, info = strict.verdict(ts)
                if info.dup:
                    continue
                text = ' '.join(ts)
                cases.append((b'm', {b'm': text.encode('latin1')}, {'text': {'m': text}}))
                verdicts.append((v, why))
    a, b = front.corr_gen(ctx, cases, keys=['ok', 'errs'])
    front.corr_parse(ctx, cases[:ctx.n(800, 5000)])
    # the Lean specification itself (grammar via the parser: C04_parse_iff; static rules: Spec/Static.lean) on the same inputs
    spec = model(ctx, ['STATIC ' + files_req(m, f) for (m, f, _) in cases], timeout=300) if ctx.driver else [None] * len(cases)
    ctx.count('STATIC', len(cases))
    for (m, f, meta), (v, why), x, sp in zip(cases, verdicts, a, spec):
        ctx.cov['evaluations'] += 1
        if is_crash(x):
            ctx.violation('compile-crash', 'compile crashed: ' + x[:300], meta['text'])
            continue
        fx = fields(x)
        got = 'ACC' if fx['ok'] == '1' else 'REJ'
        if sp is not None and not is_crash(sp):
            fs = fields(sp)
            if fs.get('accept') != fx['ok']:
                ctx.violation('language-differs', 'the Lean specification (sentence of the grammar: %s, static rules RUN/JUMP/LIT/PARAM: %s) says %s but compile says %s' % (
                    fs.get('frontok'), fs.get('static'), 'ACC' if fs.get('accept') == '1' else 'REJ', got), meta['text'])
            if fs.get('frontok') == '1' and fs.get('shape') != '1':
                ctx.stage_broken('an error-free parse produced a tree outside AstShape (C04_parser_shape contradicts the driver?)', sp, meta['text'])
        if got != v:
            ctx.violation('language-differs', 'the documented grammar + static rules say %s (%s) but compile says %s' % (v, why, got), meta['text'])
        if v == 'REJ' and fx['ok'] == '0' and fx['errs'] == '-':
            ctx.violation('rejected-without-error', 'rejected source without an error', meta['text'])
        ctx.dist(v)
        if v == 'REJ' or len(meta['text']['m']) > 40:
            ctx.nontrivial(meta['text']['m'])
    ctx.cov['rule'] = ('generated valid sources and their 1-4 token-edit neighbours over the language vocabulary with all keyword spellings, excluding duplicate '
                       'labels/parameters and user macros; oracle = strict LL(1) recogniser of the documented grammar plus the static rules; '
                       'non-trivial = rejected by the oracle, or a source longer than 40 characters')
    ctx.sample(cases[0][2]['text'])
    ctx.sample(cases[-1][2]['text'])
    return finish(ctx)
