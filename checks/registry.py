from checks import vmprops, frontprops, macroprops, semprops, c18
CHECKS = {
    'C05': vmprops.check_vm_property, 'C06': vmprops.check_vm_property, 'C17': vmprops.check_vm_property,
    'C19': vmprops.check_vm_property, 'C20': vmprops.check_vm_property,
    'C14': frontprops.check_C14, 'C15': frontprops.check_C15, 'C08': frontprops.check_C08,
    'C10': frontprops.check_C10, 'C11': frontprops.check_C11,
    'C02': frontprops.check_C02, 'C04': frontprops.check_C04,
    'C09': macroprops.check_C09, 'C12': macroprops.check_C12, 'C13': macroprops.check_C13,
    'C03': semprops.check_C03, 'C16': semprops.check_C16, 'C01': semprops.check_C01, 'C07': semprops.check_C07,
    'C18': c18.check_C18,
}
