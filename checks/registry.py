from checks import vmprops, frontprops
CHECKS = {
    'C05': vmprops.check_vm_property, 'C06': vmprops.check_vm_property, 'C17': vmprops.check_vm_property,
    'C19': vmprops.check_vm_property, 'C20': vmprops.check_vm_property,
    'C14': frontprops.check_C14, 'C15': frontprops.check_C15, 'C08': frontprops.check_C08,
    'C10': frontprops.check_C10, 'C11': frontprops.check_C11,
}
