from checks import vmprops
CHECKS = {
    'C05': vmprops.check_vm_property, 'C06': vmprops.check_vm_property, 'C17': vmprops.check_vm_property,
    'C19': vmprops.check_vm_property, 'C20': vmprops.check_vm_property,
}
