"""Stage-by-stage correspondence between the Lean model and the implementation for the compiler
front end and generator (LEX, SCAN, EXTRACT, APPLY, PARSE, GEN), with input generators."""
import re
from checks.common import *
from gen import sources
from vlib import hx, unhx, fields, lst, files_req


def enum_table(ns):
    txt = open(os.path.join(LEAN, 'Theo', 'Generated', 'Errors.lean')).read()
    m = re.search(r'namespace Theo\.' + ns + r'\n(.*?)end Theo\.' + ns, txt, flags=re.S)
    return {a: int(b) for a, b in re.findall(r'def (\w+) : Nat := (\d+)', m.group(1))}


_PE = None


def pe():
    global _PE
    if _PE is None:
        _PE = enum_table('PErrT')
    return _PE


def syn_kind(msg):
    """kind of an AST error by the fixed prefix/suffix of its message"""
    P = pe()
    m = msg
    if m.startswith(b"expected '"):
        return 'expectedToken'
    if m.startswith(b"probable missing ';' before"):
        return 'missingSemi'
    if m.startswith(b'program definition not allowed here'):
        return 'progNotAllowed'
    if m.startswith(b'expected assignment (:=), label declaration'):
        return 'expectedAssign'
    if m.startswith(b'expected program component'):
        return 'expectedComponent'
    if m.startswith(b'probable excess semicolon before'):
        return 'excessSemi'
    if m.startswith(b'expected value: ID'):
        return 'expectedValue'
    if m.startswith(b'expected EOF, but got excess input'):
        return 'excessInput'
    if m.startswith(b"main file '") and m.endswith(b"' not found"):
        return 'PE%d' % P['MAIN_FILE_NOT_FOUND']
    if m.startswith(b'expected filename after include'):
        return 'PE%d' % P['EXPECTED_FILENAME']
    if m.startswith(b"file '") and m.endswith(b"' is included recursively"):
        return 'PE%d' % P['RECURSIVE_INCLUDE']
    if m.startswith(b"file '") and m.endswith(b"' not found"):
        return 'PE%d' % P['FILE_NOT_FOUND']
    if m.startswith(b"expected token type '"):
        return 'PE%d' % P['MACRO_EXTRACT_EXPECT']
    if m.startswith(b"second 'define' inside macro") or m.startswith(b"second 'as' inside macro"):
        return 'PE%d' % P['MACRO_EXTRACT_NESTED']
    if m.startswith(b'empty definition of macro'):
        return 'PE%d' % P['MACRO_EXTRACT_EMPTY_DEFINE']
    if m.startswith(b'the macro you defined is non-linear'):
        return 'PE%d' % P['MACRO_COMPILE_NON_LR']
    if m.startswith(b'Error: After '):
        return 'PE%d' % P['MACRO_APPLY_REACHED_MAX_PASSES']
    if m.startswith(b'unkown token'):
        return 'PE%d' % P['UNKNOWN_TOKEN']
    if (m.startswith(b"value '") and m.endswith(b"' is out of range")) or m.endswith(b' does not reference a pattern'):
        return 'PE%d' % P['RANGE']
    return 'UNKNOWN-MESSAGE'


def canon_parse(resp):
    """canonical comparable form of a PARSE response of the implementation"""
    f = fields(resp)
    errs = []
    for e in lst(f.get('errs', '-'), ','):
        msg, fl, ln = e.split(':')
        errs.append('%s:%s:%s' % (syn_kind(unhx(msg)), fl, ln))
    return {'ok': f.get('ok'), 'errs': ','.join(errs) or '-', 'req': f.get('req'), 'ast': f.get('ast')}


def canon_gen(resp):
    f = fields(resp)
    errs = []
    for e in lst(f.get('errs', '-'), ','):
        t, msg, fl, ln = e.split(':')
        errs.append('%s:%s:%s' % (t, fl, ln))
    d = {k: f.get(k) for k in ('ok', 'req', 'code', 'maps', 'pb', 'li')}
    d['errs'] = ','.join(errs) or '-'
    return d


def canon_plain(keys):
    def c(resp):
        f = fields(resp)
        return {k: f.get(k) for k in keys}
    return c


def compare_stage(ctx, stage, reqs, canon_impl, canon_model=None, describe=None, model_timeout=120, impl_timeout=30,
                  crash_is_violation=None):
    """run the requests on both sides and diff the canonical forms; returns (impl outs, model outs)"""
    a = impl(ctx, reqs, timeout=impl_timeout)
    b = model(ctx, reqs, timeout=model_timeout) if ctx.driver else [None] * len(reqs)
    ctx.count(stage, len(reqs))
    canon_model = canon_model or (lambda r: {k: v for k, v in fields(r).items()})
    nbad = 0
    for i, (r, x, y) in enumerate(zip(reqs, a, b)):
        if is_crash(x):
            d = describe(i) if describe else r[:300]
            if crash_is_violation:
                crash_is_violation(i, x, d)
            else:
                ctx.stage_broken('%s stage: implementation crashed / timed out where the model answers' % stage, x[:400], d)
            continue
        if y is None:
            continue
        if y == 'TIMEOUT':
            # the executable model is slower than the C++ on a few pathological inputs (quadratic list operations under
            # the full pass budget): no answer is not a disagreement.  Counted; only a driver that times out on a
            # noticeable share of a stage's requests is reported.
            ntimeout = ctx.cov.setdefault('model_timeouts', {})
            ntimeout[stage] = ntimeout.get(stage, 0) + 1
            if ntimeout[stage] > max(3, len(reqs) // 100):
                ctx.stage_broken('%s stage: the model driver timed out on %d of %d requests' % (stage, ntimeout[stage], len(reqs)), str(y)[:300], describe(i) if describe else r[:300])
            continue
        if is_crash(y) or not y.startswith(stage.split('/')[0]):
            ctx.stage_broken('%s stage: the model driver failed' % stage, str(y)[:300], describe(i) if describe else r[:300])
            continue
        cx, cy = canon_impl(x), canon_model(y)
        diff = [k for k in cx if k in cy and cx[k] != cy[k]]
        if diff:
            nbad += 1
            if nbad <= 3:
                k = diff[0]
                ctx.stage_broken('%s stage: model and implementation differ in `%s`' % (stage, k),
                                 'impl  %s\nmodel %s' % (str(cx[k])[:400], str(cy[k])[:400]), describe(i) if describe else r[:400])
    return a, b


# ---------------- input generators ----------------
LEX_ALPHA = [b'E', b'N', b'D', b'e', b'n', b'd', b' ', b'\n', b'\t', b'F', b'I', b'f', b'i', b'<', b'>', b'P', b'p', b'V', b'A', b'a',
             b'"', b'$', b'#', b'0', b'1', b'9', b'!', b'=', b':', b';', b',', b'(', b')', b'/', b'_', b'x', b'+', b'-', b'\r', b'\x80',
             b'\xff', b'END DEFINE', b'!= 0', b'include', b'<INT>', b'<Int', b'Val', b'<value>', b'//', b'PRIO', b'Prog', b'<prog>',
             b'<P>', b'WITH', b'Run', b'\0', b'ENDDEF', b'End Define', b'!=  0', b'$01', b'007', b'<ARGS>', b'<a>', b'def', b'As']

SIGNIFICANT = [b'E', b'N', b'D', b'e', b'n', b'd', b'I', b'F', b'i', b'f', b'0', b'1', b'_', b'<', b'>', b'"', b'$', b'#', b':', b'=',
               b'!', b';', b',', b'(', b')', b'/', b' ', b'\n', b'*', b'\x80']


def lex_inputs(ctx, n_random, exhaustive_len, sample_len4=0.0):
    import itertools
    out = []
    for ln in range(0, exhaustive_len + 1):
        for t in itertools.product(SIGNIFICANT, repeat=ln):
            out.append(b''.join(t))
    nex = len(out)
    if sample_len4 > 0:
        for t in itertools.product(SIGNIFICANT, repeat=exhaustive_len + 1):
            if ctx.rnd.random() < sample_len4:
                out.append(b''.join(t))
    for _ in range(n_random):
        out.append(b''.join(ctx.rnd.choice(LEX_ALPHA) for _ in range(ctx.rnd.randint(0, 14))))
    # mutated programs
    for _ in range(n_random // 4):
        g = sources.Gen(ctx.rnd)
        defs, main = g.program()
        ts = sources.respell(sources.toks(defs, main), ctx.rnd)
        b = bytearray(sources.text_of_tokens(ts, ctx.rnd).encode())
        for _ in range(ctx.rnd.randint(0, 3)):
            if b:
                b[ctx.rnd.randrange(len(b))] = ctx.rnd.choice(b' \n:=;<>"$#/x0!')
        out.append(bytes(b))
    return out, nex


def special_name_graphs():
    """include names containing each punctuation / control character that is legal between the quotes, next to a twin file
    whose name lacks that character: the name looked up, reported and requested is the one written, byte for byte"""
    out = []
    for ch in list("!#$%&'()*+,-./:;<=>?@[\\]^_`{|}~") + ['\t', ' ', '\r', '\x7f', '\\\\', '\\n', '%s', '\\"'[:1]]:
        nm = ('l' + ch + 'm').encode('latin1')
        main = b'include "' + nm + b'"\nx := 1\n'
        out.append((b'm', {b'm': main, nm: b'y := 2 ;', b'lm': b'z := 3 ;'}))
        out.append((b'm', {b'm': main, b'lm': b'z := 3 ;'}))
        out.append((nm, {nm: b'include "lm"\ninclude "' + nm + b'"', b'lm': b'include "' + nm + b'"'}))
    return out


def cycle_entry_graphs():
    """an include cycle of two or three files that does not contain the main file, entered from the main file at every member, in
    every order, with and without an absent file inside the cycle: whether an include is recursive depends on the files open at
    that moment, not on the file alone"""
    import itertools
    out = []
    for k in (2, 3):
        names = [b'c0', b'c1', b'c2'][:k]
        for missing in (False, True):
            files = {}
            for i, nm in enumerate(names):
                files[nm] = b'v%d := %d ;\n' % (i, i) + (b'include "gone"\n' if missing and i == 0 else b'') + b'include "' + names[(i + 1) % k] + b'"\nw%d := %d ;\n' % (i, i)
            for r_ in range(1, k + 1):
                for order in itertools.permutations(names, r_):
                    f = dict(files)
                    f[b'm'] = b''.join(b'include "' + nm + b'"\n' for nm in order) + b'z := 1\n'
                    out.append((b'm', f))
    return out


def dangling_include_graphs():
    """an included file that ENDS in a bare include keyword (followed by nothing, blanks or a comment), while the including file
    continues with a quoted name of an existing file, another token, or nothing: a directive never spans a file boundary"""
    out = []
    for tail in (b'include', b'include\n\n', b'include // c\n', b'INCLUDE   ', b'y := 2 ;\ninclude'):
        for cont in (b' "b" x := 1\n', b'\n"b"\n', b' x := 1\n', b'', b' include "b"\n'):
            out.append((b'm', {b'm': b'include "a"' + cont, b'a': b'v := 1 ;\n' + tail, b'b': b'z := 3 ;\n'}))
    return out


def include_graphs(ctx, n):
    cases = special_name_graphs() + cycle_entry_graphs() + dangling_include_graphs()
    r = ctx.rnd
    for _ in range(n):
        # file names: mostly plain; sometimes boundary spellings (the empty name, a blank, a case twin, a path, a name with
        # a quote-free special character, the name of the hidden standard file)
        names = ['a', 'b', 'c', 'd']
        if r.random() < 0.3:
            odd = ['', ' ', 'A', 'a/b.theo', '..', '-', '__standards__', 'a b', 'ä', '0', 'a\nb', '\n']
            for j in r.sample(range(4), r.randint(1, 2)):
                cand = r.choice(odd)
                if cand not in names:
                    names[j] = cand
        nf = r.randint(1, 4)
        files = {}
        for nm in names[:nf]:
            parts = []
            for _ in range(r.randint(0, 5)):
                k = r.random()
                if k < 0.45:
                    parts.append('include "%s"' % r.choice(names[:nf] + ['zz', names[-1], '']))
                elif k < 0.55:
                    parts.append(r.choice(['include 5', 'include x', 'include', 'INCLUDE "', 'Include\n"%s"' % r.choice(names[:nf]),
                                           'include "%s\n"' % names[0], 'include include "a"', 'include "a" "b"']))
                elif k < 0.8:
                    parts.append(r.choice(['x', 'y := 1;', '// c', 'x\0y']))
                else:
                    parts.append('\n')
            files[nm.encode('latin1')] = (' '.join(parts)).encode('latin1')
        mainf = r.choice([names[0].encode('latin1'), names[0].encode('latin1'), b'a', b'q', names[nf - 1].encode('latin1'), b''])
        cases.append((mainf, files))
    return cases


def exhaustive_include_graphs(nfiles, ndir):
    """all graphs over `nfiles` files with up to `ndir` include directives each"""
    import itertools
    names = [chr(97 + i) for i in range(nfiles)]
    targets = names + ['zz']
    per_file = [()]
    for k in range(1, ndir + 1):
        per_file += list(itertools.product(targets, repeat=k))
    cases = []
    for combo in itertools.product(per_file, repeat=nfiles):
        files = {}
        for nm, incs in zip(names, combo):
            body = ' x '.join('include "%s"' % t for t in incs)
            files[nm.encode()] = (('t ' + body + ' u') if incs else 'v').encode()
        for mainf in (b'a', b'q'):
            cases.append((mainf, files))
    return cases


EXTRACT_VOC = ['DEFINE', 'AS', 'END DEFINE', 'PRIO', 'PRIO 5', 'PRIO 2147483647', 'PRIO 2147483646', 'PRIO 99999999999999999999',
               '<P>', '<V>', '<ID>', '<INT>', '<A>', '$0', '$1', '$7', '$2147483647', '$4294967296', '$99999999999999999999', '#0', 'x',
               'foo', '+', '1', ';', '\n', ':=', 'END', 'RUN', 'PRIO x', 'def', 'as', 'enddef']


def extract_texts(ctx, n):
    return [' '.join(ctx.rnd.choice(EXTRACT_VOC) for _ in range(ctx.rnd.randint(0, 14))) for _ in range(n)]


PATV = ['foo', 'bar', '+', '*', '(', ')', ';', ',', 'THEN', '<ID>', '<INT>', '<V>', '<A>', '<P>', '<V>', '<ID>', '1']
BODV = ['foo', 'bar', 'baz', '+', '(', ')', ';', ',', ':=', 'RUN', 'WITH', 'END', '1', '#0', '#1', 'x']
STRV = ['foo', 'bar', 'a', 'b', '1', '2', '+', '*', '(', ')', ';', ',', ':=', ':', 'RUN', 'WITH', 'END', 'LOOP', 'DO', 'GOTO', 'STOP', 'THEN', 'x']
SLOTS = {'<ID>', '<INT>', '<V>', '<A>', '<P>'}


def source_numbers():
    """numeric constants of the compiler sources (at least two digits): boundary values for priorities and budgets"""
    import glob
    vals = set()
    for f in sorted(glob.glob(os.path.join(vlib.REPO, 'Compiler/src/*.cpp')) + glob.glob(os.path.join(vlib.REPO, 'Compiler/include/*.hpp'))):
        if 'lex.yy' in f:
            continue
        t = re.sub(r'//[^\n]*', '', open(f, errors='replace').read())
        for m in re.finditer(r'(?<![\w.])(\d{2,10})(?![\w.])', t):
            if int(m.group(1)) < 2 ** 31 - 1:
                vals.add(int(m.group(1)))
    return sorted(vals)


_BP = []


def boundary_prios():
    if _BP:
        return _BP
    out = {1, 7}
    for v in source_numbers():
        if v >= 100:
            out |= {v - 1, v, v + 1}
    _BP.extend(sorted(out))
    return _BP


def macro_case(rnd):
    """random macro set + stream (as source text), with a planted instance half of the time"""
    macros = []
    for mi in range(rnd.randint(1, 3)):
        pat = [rnd.choice(PATV) for _ in range(rnd.randint(1, 4))]
        ns = sum(1 for t in pat if t in SLOTS)
        body = []
        for _ in range(rnd.randint(0, 4)):
            if ns and rnd.random() < 0.4:
                body.append('$%d' % rnd.randrange(ns))
            else:
                body.append(rnd.choice(BODV))
        macros.append((rnd.choice([1, 2, 2, 3]) if rnd.random() < 0.85 else rnd.choice(boundary_prios()), pat, body))
    stream = [rnd.choice(STRV) for _ in range(rnd.randint(1, 9))]
    if rnd.random() < 0.5:
        fill = {'<ID>': ['a'], '<INT>': ['2'], '<V>': rnd.choice([['b'], ['1'], ['RUN', 'foo', 'WITH', 'a', ',', '1', 'END']]),
                '<A>': rnd.choice([['a'], ['a', ',', '2']]), '<P>': rnd.choice([['a', ':=', '1'], ['a', ':=', '1', ';', 'STOP'], ['GOTO', 'b']])}
        pr, pat, body = rnd.choice(macros)
        inst = []
        for t in pat:
            inst += fill[t] if t in SLOTS else [t]
        p = rnd.randrange(len(stream) + 1)
        stream = stream[:p] + inst + stream[p:]
    src = '\n'.join('DEFINE PRIO %d %s AS %s END DEFINE' % (pr, ' '.join(pat), ' '.join(body)) for (pr, pat, body) in macros) + '\n' + ' '.join(stream)
    return macros, stream, src


def program_files(ctx, n, mutate_frac=0.5, multi_frac=0.3, big=False, spell=True):
    """sources for PARSE / GEN: valid programs in random layouts, split over files, and token-mutated
    neighbours.  Returns list of (main, files, meta)."""
    out = []
    r = ctx.rnd
    for _ in range(n):
        g = sources.Gen(r, big=big)
        defs, main = g.program()
        ts = sources.toks(defs, main)
        meta = {'defs': defs, 'main': main, 'mutated': False}
        if r.random() < mutate_frac:
            ts = sources.mutate(ts, r)
            meta['mutated'] = True
        if spell:
            ts = sources.respell(ts, r)
        if r.random() < multi_frac:
            fl = sources.split_files(ts, r)
            files = {k.encode(): sources.text_of_tokens(v, r).encode() for k, v in fl.items()}
            meta['multi'] = True
        else:
            files = {b'm': sources.text_of_tokens(ts, r, r.choice([0.1, 0.3, 0.6])).encode()}
        meta['text'] = {k.decode(): v.decode('latin1') for k, v in files.items()}
        out.append((b'm', files, meta))
    return out


# ---------------- composite correspondences ----------------
def corr_lex(ctx, inputs):
    reqs_c = ['LEX c ' + hx(b) for b in inputs]
    reqs_f = ['LEX f ' + hx(b) for b in inputs]
    key = canon_plain(['toks'])
    a, b = compare_stage(ctx, 'LEX', reqs_c, key, key, describe=lambda i: {'buffer_hex': inputs[i].hex()})
    # freshly generated scanner vs committed scanner (both built from the working tree)
    f = impl(ctx, reqs_f)
    ctx.count('LEX/fresh-flex', len(reqs_f))
    for i, (x, y) in enumerate(zip(a, f)):
        if x != y and not (is_crash(x) and is_crash(y)):
            ctx.violation('pregenerated-scanner-differs',
                          'the committed lex.yy.c and a scanner generated from lexer.l tokenise %r differently: %s vs %s' % (inputs[i], x[:200], y[:200]),
                          {'buffer_hex': inputs[i].hex()})
            break
    return a, b


def edit_sessions(ctx, n):
    """sessions of an editor: the same include graph (two or three levels deep) scanned again and again in ONE process while
    single files are edited, removed and restored between the calls.  Returns a list of sessions, each a list of (main, files)."""
    r = ctx.rnd
    out = []
    for k in range(n):
        depth = 2 if k == 0 else r.randint(2, 3)
        names = [b'm', b'a', b'b', b'c'][:depth + 1]
        files = {}
        for i, nm in enumerate(names):
            body = b'v%d := %d ;\n' % (i, i + 1)
            files[nm] = (b'include "' + names[i + 1] + b'"\n' if i + 1 < len(names) else b'limit := 1 ;\n') + body
        if k > 0 and r.random() < 0.4:
            files[b'm'] += b'include "' + names[-1] + b'"\n'           # diamond: the leaf also directly from the main file
        sess = [(b'm', dict(files))]
        cur = dict(files)
        steps = ['edit-leaf', 'remove-leaf', 'restore-leaf', 'edit-mid', 'edit-leaf'] if k == 0 else [r.choice(['edit-leaf', 'remove-leaf', 'restore-leaf', 'edit-mid', 'edit-main', 'same', 'leaf-includes-missing', 'leaf-includes-main']) for _ in range(r.randint(3, 7))]
        for st in steps:
            leaf, mid = names[-1], names[-2]
            if st == 'edit-leaf':
                cur[leaf] = b'// edited\nlimit := %d ;\nextra := 0 ;\n' % r.randint(2, 99)
            elif st == 'remove-leaf':
                cur.pop(leaf, None)
            elif st == 'restore-leaf':
                cur[leaf] = files[leaf]
            elif st == 'edit-mid':
                cur[mid] = b'\n' * r.randint(0, 2) + files[mid] + b'w := %d ;\n' % r.randint(0, 9)
            elif st == 'edit-main':
                cur[b'm'] = files[b'm'] + b'// c\nq := %d\n' % r.randint(0, 9)
            elif st == 'leaf-includes-missing':
                cur[leaf] = b'include "gone%d"\nlimit := 3 ;\n' % r.randint(0, 2)
            elif st == 'leaf-includes-main':
                cur[leaf] = b'include "m"\nlimit := 4 ;\n'
            sess.append((b'm', dict(cur)))
        out.append(sess)
    return out


def corr_scan(ctx, cases):
    reqs = ['SCAN ' + files_req(m, f) for (m, f) in cases]
    key = canon_plain(['toks', 'errs'])
    return compare_stage(ctx, 'SCAN', reqs, key, key,
                         describe=lambda i: {'main': cases[i][0].decode('latin1'), 'files': {k.decode('latin1'): v.decode('latin1') for k, v in cases[i][1].items()}})


def scan_tokens(ctx, texts):
    """token lists (protocol form) of single-file texts, through the implementation's scanner"""
    outs = impl(ctx, ['SCAN ' + files_req(b'm', {b'm': t.encode('latin1') if isinstance(t, str) else t}) for t in texts])
    return [None if is_crash(o) else fields(o)['toks'] for o in outs]


def corr_extract(ctx, tokstrs, texts):
    reqs = ['EXTRACT ' + t for t in tokstrs]
    key = canon_plain(['out', 'macros', 'errs'])
    return compare_stage(ctx, 'EXTRACT', reqs, key, key, describe=lambda i: {'source': texts[i]})


def corr_apply(ctx, jobs, texts):
    """jobs: (passes, macros protocol string, tokens protocol string)"""
    reqs = ['APPLY %d %s %s' % j for j in jobs]
    key = canon_plain(['toks', 'errs'])
    return compare_stage(ctx, 'APPLY', reqs, key, key, describe=lambda i: {'source': texts[i], 'passes': jobs[i][0]})


def corr_parse(ctx, cases):
    reqs = ['PARSE ' + files_req(m, f) for (m, f, _) in cases]
    return compare_stage(ctx, 'PARSE', reqs, canon_parse, canon_plain(['ok', 'errs', 'req', 'ast']),
                         describe=lambda i: cases[i][2]['text'])


def corr_gen(ctx, cases, crash_is_violation=None, keys=None):
    """`keys`: the fields of the GEN response this property's claim rests on (default: all)"""
    keys = keys or ['ok', 'errs', 'req', 'code', 'maps', 'pb', 'li']
    reqs = ['GEN ' + files_req(m, f) for (m, f, _) in cases]

    def ci(resp):
        d = canon_gen(resp)
        return {k: d[k] for k in keys}
    return compare_stage(ctx, 'GEN', reqs, ci, canon_plain(keys),
                         describe=lambda i: cases[i][2]['text'], crash_is_violation=crash_is_violation)
