"""Common machinery of every property check: build steps, proof obligations and axiom audit,
correspondence bookkeeping, the violation protocol, known findings, evidence."""
import json, os, random, re, subprocess, sys, time, hashlib

sys.path.insert(0, os.path.dirname(os.path.dirname(os.path.abspath(__file__))))
import vlib
from vlib import VERIF, LEAN, log

ALLOWED_AXIOMS = {'propext', 'Classical.choice', 'Quot.sound'}
FORBIDDEN = re.compile(r'\b(sorry|admit|native_decide|bv_decide|implemented_by)\b|^\s*axiom\s|\bunsafe\s|maxHeartbeats\s+0\b')

TRUSTED_BASE = [
    'Lean 4.33.0 kernel (and leanchecker in the thorough tier)',
    'axioms accepted: propext, Classical.choice, Quot.sound; no native_decide / bv_decide / sorry / user axioms (audited on every run)',
    'translator/translate.py: table-level extraction (lexer.l rules, enums, detector grammar, constants) from /repo',
    'correspondence: harness/theo_harness.cpp (real API in-process, ASan+UBSan+_GLIBCXX_ASSERTIONS), Lean driver theodrv, checks/*.py generators and diff',
    'modelled rather than verified: all C++ control flow (tied only by differential correspondence on generated inputs); flex DFA lex.yy.c; libstdc++',
]


# evidence level per property (kept in step with MANIFEST.json by gen_manifest.py)
LEVELS = {}
EXPLAIN = {
    'C01': 'theorems pending (simulation proof in progress): this run is a three-way differential comparison implementation / Lean reference semantics / Python reference, plus the validators shapeCheck and wfCheck on every compiled program',
    'C07': 'no theorem for the main statement yet: complete stepping runs of the implementation compared with an independent instrumented reference interpreter (visited lines and variable views at every stop)',
}


class Ctx:
    def __init__(self, pid, tier, seed):
        self.pid, self.tier, self.seed = pid, tier, seed
        self.rnd = random.Random((seed * 1000003) ^ int(hashlib.sha256(pid.encode()).hexdigest()[:8], 16))
        self.t0 = time.time()
        self.violations = []          # (key, text, replay dict)  -- concrete failing inputs
        self.broken = []              # (what, detail, smallest input) -- proof/correspondence no longer checks
        self.known_hits = []
        self.cov = {'evaluations': 0, 'distinct_nontrivial': 0, 'samples': [], 'stages': {}, 'distribution': {}}
        self.obligations = []
        self.discharged = []
        self.assumptions = []
        self.harness = None
        self.driver = None
        self.quick = tier == 'quick'
        self._nontrivial = set()

    def n(self, quick, thorough):
        return quick if self.quick else thorough

    # ---- bookkeeping ----
    def count(self, stage, n=1, key='cases'):
        d = self.cov['stages'].setdefault(stage, {})
        d[key] = d.get(key, 0) + n

    def dist(self, key, n=1):
        self.cov['distribution'][key] = self.cov['distribution'].get(key, 0) + n

    def nontrivial(self, case_repr):
        self._nontrivial.add(hashlib.sha1(case_repr.encode('latin1', 'replace')).hexdigest())

    def sample(self, s):
        if len(self.cov['samples']) < 6:
            self.cov['samples'].append(s if len(str(s)) < 1500 else str(s)[:1500] + '…')

    def violation(self, key, text, replay):
        self.violations.append((key, text, replay))

    def stage_broken(self, what, detail, inp=None):
        self.broken.append((what, detail, inp))


# ---------------- known findings ----------------
def load_known():
    out = []
    p = os.path.join(VERIF, 'known_findings.txt')
    if not os.path.exists(p):
        return out
    for line in open(p):
        line = line.strip()
        m = re.match(r'finding:\s+property=(\S+)\s+key=(\S+)\s+(.*)', line)
        if m:
            out.append((m.group(1), m.group(2), m.group(3)))
    return out


# ---------------- build steps ----------------
def run_translator(ctx):
    env = dict(os.environ)
    try:
        h, _ = vlib.build_harness('asan')      # cached by content hash; lets the translator fall back to probing the built code
        if h:
            env['THEO_HARNESS'] = h
    except Exception:
        pass
    r = subprocess.run([sys.executable, os.path.join(VERIF, 'translator', 'translate.py')], capture_output=True, text=True, env=env)
    if r.returncode != 0:
        ctx.stage_broken('translator', (r.stdout + r.stderr).strip()[-600:])
        return False
    fbs = [l[len('TRANSLATOR-FALLBACK: '):] for l in r.stdout.splitlines() if l.startswith('TRANSLATOR-FALLBACK: ')]
    if fbs:
        # a table whose source shape was not recognised keeps its last extracted (committed) value; for it the tie between
        # model and source is the differential correspondence of this run, not the regeneration
        ctx.cov['translator_fallbacks'] = fbs
        ctx.assumptions.append('translator could not re-extract: ' + '; '.join(fbs) + ' — last extracted values kept; for these the model is tied to the source by the per-stage correspondence only')
    return True


def lean_closure(root):
    """source files of the modules imported (transitively) from module `root` inside lean/"""
    seen, todo, out = set(), [root], []
    while todo:
        m = todo.pop()
        if m in seen:
            continue
        seen.add(m)
        path = os.path.join(LEAN, *m.split('.')) + '.lean'
        if not os.path.exists(path):
            continue
        out.append(path)
        for ln in open(path):
            mm = re.match(r'\s*import\s+(Theo[\w.]*|Driver[\w.]*)', ln)
            if mm:
                todo.append(mm.group(1))
    return out


def lean_obligations(ctx, modules, theorems):
    """Build the Lean library (generated tables + model + proofs), audit axioms of the
    property theorems, grep for forbidden constructs.  `theorems`: fully qualified names."""
    ctx.obligations = list(theorems)
    # only this property's own cone is built and audited: a proof that breaks elsewhere is not this property's obligation
    ok, out = vlib.lean_build(list(modules) + ['theodrv'])
    if not ok:
        errs = [l for l in out.splitlines() if 'error' in l][:12]
        ctx.stage_broken('lake build', '\n'.join(errs) or out[-800:])
        # the driver of the last good build may still exist; correspondence then uses it
        return False
    # forbidden constructs anywhere in the import closure of the library root (comments stripped)
    bad = []
    for path in sorted(set(pth for m in modules for pth in lean_closure(m))):
        f = os.path.basename(path)
        txt = open(path).read()
        txt = re.sub(r'/-.*?-/', '', txt, flags=re.S)
        for ln in txt.splitlines():
            ln = re.sub(r'--.*$', '', ln)
            if FORBIDDEN.search(ln):
                bad.append('%s: %s' % (f, ln.strip()[:120]))
    if bad:
        ctx.stage_broken('forbidden construct in Lean sources', '\n'.join(bad[:10]))
        return False
    # axiom audit
    os.makedirs(vlib.CACHE, exist_ok=True)
    auditf = os.path.join(vlib.CACHE, 'audit_%s_%d.lean' % (ctx.pid, os.getpid()))
    with open(auditf, 'w') as f:
        for m in modules:
            f.write('import %s\n' % m)
        for t in theorems:
            f.write('#print axioms %s\n' % t)
    r = subprocess.run(['lake', 'env', 'lean', auditf], cwd=LEAN, capture_output=True, text=True)
    os.remove(auditf)
    out = r.stdout + r.stderr
    seen = {}
    for m in re.finditer(r"'([^']+)' depends on axioms: \[([^\]]*)\]", out):
        seen[m.group(1)] = set(x.strip() for x in m.group(2).split(',') if x.strip())
    for m in re.finditer(r"'([^']+)' does not depend on any axioms", out):
        seen[m.group(1)] = set()
    allok = True
    for t in theorems:
        if t not in seen:
            ctx.stage_broken('theorem missing or not checked: ' + t, out[-400:])
            allok = False
        elif not seen[t] <= ALLOWED_AXIOMS:
            ctx.stage_broken('inadmissible axioms for ' + t, ', '.join(sorted(seen[t] - ALLOWED_AXIOMS)))
            allok = False
        else:
            ctx.discharged.append(t)
    ctx.cov['axioms'] = {t: sorted(seen.get(t, [])) for t in theorems}
    if not ctx.quick:
        for m in modules:
            r = subprocess.run(['lake', 'env', 'leanchecker', m], cwd=LEAN, capture_output=True, text=True)
            ctx.cov.setdefault('leanchecker', {})[m] = 'ok' if r.returncode == 0 else (r.stdout + r.stderr)[-300:]
            if r.returncode != 0:
                ctx.stage_broken('leanchecker ' + m, (r.stdout + r.stderr)[-400:])
                allok = False
    return allok


def build_all(ctx, modules, theorems, need_harness=True):
    t = time.time()
    run_translator(ctx)
    lean_obligations(ctx, modules, theorems)
    ctx.driver = vlib.driver_path() if os.path.exists(vlib.driver_path()) else None
    if need_harness:
        h, err = vlib.build_harness('asan')
        if h is None:
            ctx.stage_broken('harness build', err[-800:])
        ctx.harness = h
    ctx.cov['build_s'] = round(time.time() - t, 1)


# ---------------- running both sides ----------------
def impl(ctx, reqs, timeout=20):
    return vlib.run_batch([ctx.harness], reqs, per_line_timeout=timeout)


def model(ctx, reqs, timeout=60):
    return vlib.run_batch([ctx.driver], reqs, per_line_timeout=timeout, env=dict(os.environ))


def is_crash(resp):
    return resp.startswith('CRASH') or resp == 'TIMEOUT' or ' ATEXIT ' in resp


# ---------------- finishing ----------------
def finish(ctx, level=None, level_note=''):
    level = level or LEVELS.get(ctx.pid, 'proof')
    known = load_known()
    unknown = []
    for key, text, replay in ctx.violations:
        hit = [k for k in known if k[0] == ctx.pid and k[1] == key]
        if hit:
            if key not in ctx.known_hits:
                ctx.known_hits.append(key)
                print('KNOWN-FINDING: property=%s %s' % (ctx.pid, hit[0][2]))
        else:
            unknown.append((key, text, replay))
    rc = 0
    os.makedirs(os.path.join(VERIF, 'replays'), exist_ok=True)
    if unknown:
        key, text, replay = unknown[0]
        path = os.path.join(VERIF, 'replays', '%s-%d.json' % (ctx.pid, ctx.seed))
        with open(path, 'w') as f:
            json.dump({'property': ctx.pid, 'seed': ctx.seed, 'tier': ctx.tier, 'key': key, 'what': text,
                       'replay': replay, 'other_violations': [u[1] for u in unknown[1:6]],
                       'broken_obligations': [b[:2] for b in ctx.broken[:5]]}, f, indent=1)
        print('VIOLATION property=%s replay=%s' % (ctx.pid, path))
        log('  ' + text[:600])
        rc = 1
    elif ctx.broken:
        path = os.path.join(VERIF, 'replays', '%s-%d-unproved.json' % (ctx.pid, ctx.seed))
        with open(path, 'w') as f:
            json.dump({'property': ctx.pid, 'seed': ctx.seed, 'tier': ctx.tier,
                       'no_longer_checks': [{'what': b[0], 'detail': b[1], 'smallest_input': b[2]} for b in ctx.broken[:8]],
                       'note': 'a proof obligation or a model/implementation correspondence no longer checks; the search over '
                               'the generated inputs found no input on which the property itself fails'}, f, indent=1)
        print('VIOLATION property=%s replay=%s no-failing-input-found' % (ctx.pid, path))
        for b in ctx.broken[:4]:
            log('  broken: %s :: %s' % (b[0], str(b[1])[:400]))
        rc = 1
    cov = ctx.cov
    cov['distinct_nontrivial'] = len(ctx._nontrivial)
    cov['obligations'] = max(1, len(ctx.obligations))
    cov['discharged'] = len(ctx.discharged) if ctx.obligations else 0
    cov['checker_cmd'] = 'cd lean && lake build Theo theodrv && lake env lean <audit: #print axioms of every theorem of Theo/Props/%s.lean>' % ctx.pid + ('' if ctx.quick else ' && lake env leanchecker Theo.Props.' + ctx.pid)
    cov['trusted_base'] = TRUSTED_BASE
    cov['explanation'] = EXPLAIN.get(ctx.pid, 'Lean theorems about a model of the code (audited axioms) + differential correspondence of the model with the implementation on generated inputs + property oracle on the implementation')
    cov['theorems'] = ctx.obligations
    cov['known_findings_hit'] = ctx.known_hits
    cov['broken'] = [b[0] for b in ctx.broken]
    if not cov['samples']:
        cov['samples'] = ['(no sample recorded)']
    ev = {'property_id': ctx.pid, 'tier': ctx.tier, 'seed': ctx.seed, 'level': level, 'coverage': cov,
          'assumptions': ctx.assumptions + ([level_note] if level_note else []),
          'wall_s': round(time.time() - ctx.t0, 1), 'violations': len(unknown) + (1 if (ctx.broken and not unknown) else 0)}
    os.makedirs(os.path.join(VERIF, 'evidence'), exist_ok=True)
    with open(os.path.join(VERIF, 'evidence', ctx.pid + '.json'), 'w') as f:
        json.dump(ev, f, indent=1)
    log('%s %s seed=%d: %s  evaluations=%d nontrivial=%d obligations=%d/%d wall=%.0fs' % (
        ctx.pid, ctx.tier, ctx.seed, 'FAIL' if rc else 'ok', cov['evaluations'], cov['distinct_nontrivial'],
        cov['discharged'], cov['obligations'], time.time() - ctx.t0))
    return rc
