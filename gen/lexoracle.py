"""Independent tokenizer oracle: a naive longest-match loop over Python `re` patterns built directly
from lexer.l (not from the translator's regex AST), and a recursive include expander.
Used by C14 / C15 against the implementation."""
import os, re

REPO = os.environ.get('THEO_REPO', '/repo')
_cache = {}


PINNED = os.path.join(os.path.dirname(os.path.dirname(os.path.abspath(__file__))), 'spec', 'lexer.l.pinned')


def _load():
    # the SPECIFICATION of tokenisation is the rule section of lexer.l at the pinned commit (a committed copy under
    # /verif/spec): the oracle does not follow later edits of /repo's lexer.l — a change of the scanner specification
    # that changes the token stream of some buffer is a difference between implementation and specification
    spec = PINNED if os.path.exists(PINNED) else os.path.join(REPO, 'Compiler/src/lexer.l')
    key = (spec, os.path.getmtime(spec))
    if _cache.get('key') == key:
        return _cache['rules'], _cache['names']
    src = open(spec, encoding='latin1').read()
    parts = src.split('\n%%')
    defs_part, rules_part = parts[0], parts[1]
    defs = {}
    for l in defs_part.splitlines():
        m = re.match(r'^([a-z]+) (.+)$', l)
        if m and not l.startswith('%'):
            defs[m.group(1)] = m.group(2)

    def expand(p):
        while True:
            m = re.search(r'\{([a-z]+)\}', p)
            if not m:
                return p
            p = p[:m.start()] + '(' + defs[m.group(1)] + ')' + p[m.end():]
    tok = open(os.path.join(REPO, 'Compiler/include/token.hpp')).read()
    body = re.search(r'enum Type \{(.*?)\}', tok, flags=re.S).group(1)
    names = []
    for part in body.split(','):
        part = part.strip()
        if part:
            names.append(part.split('=')[0].strip())
    rules = []
    for l in rules_part.strip().splitlines():
        l = l.rstrip()
        if not l:
            continue
        m = re.match(r'^(\S+(?:\\ \S+)*)\s+\{(.*)\}$', l)
        pat, act = m.group(1), m.group(2)
        k = None
        mm = re.search(r'Type::(\w+)', act)
        if mm:
            k = names.index(mm.group(1))
        p = expand(pat)
        p = p.replace('\\ ', ' ').replace('\\"', '"').replace('\\_', '_').replace('\\/', '/')
        rules.append((re.compile(p.encode('latin1')), k, pat))
    _cache.update(key=key, rules=rules, names=names)
    return rules, names


def lex(b):
    """[(kind, text bytes, line)] of one buffer"""
    rules, _ = _load()
    b = b.split(b'\0')[0]
    out, pos, line = [], 0, 1
    while pos < len(b):
        best = None
        for (r, k, _) in rules:
            m = r.match(b, pos)
            if m and m.end() > pos and (best is None or m.end() - pos > best[0]):
                best = (m.end() - pos, k)
        if best is None:
            raise ValueError('no rule matches at %d' % pos)
        n, k = best
        txt = b[pos:pos + n]
        line += txt.count(b'\n')
        pos += n
        if k is not None:
            out.append((k, txt, line))
    return out


def kind(name):
    return _load()[1].index(name)


def scan(files, main):
    """include expansion by recursive substitution; returns (tokens [(kind,text,file,line)], errors
    [(kindname, file, line, request)])"""
    INCLUDE, FNAME = kind('INCLUDE'), kind('FNAME')
    res, errs = [], []
    if main not in files:
        errs.append(('MAIN_FILE_NOT_FOUND', b'-', -1, main))
        res.append((0, b'EOF', b'-', -1))
        return res, errs

    def run(f, active):
        ts = lex(files[f])
        i = 0
        while i < len(ts):
            k, t, l = ts[i]
            i += 1
            if k == INCLUDE:
                if i >= len(ts):
                    errs.append(('EXPECTED_FILENAME', f, l, b''))
                    continue
                k2, t2, l2 = ts[i]
                i += 1
                if k2 != FNAME:
                    errs.append(('EXPECTED_FILENAME', f, l2, b''))
                    continue
                name = t2[1:-1]
                if name not in files:
                    errs.append(('FILE_NOT_FOUND', f, l2, name))
                    continue
                if name in active:
                    errs.append(('RECURSIVE_INCLUDE', f, l2, b''))
                    continue
                run(name, active + [name])
                continue
            res.append((k, t, f, l))
    run(main, [main])
    if res:
        res.append((0, b'EOF', res[-1][2], res[-1][3]))
    else:
        res.append((0, b'EOF', main, 1))
    return res, errs
