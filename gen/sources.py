"""Grammar-directed generator of Theo sources, printers/layouts, token-level mutation, and the
reference semantics (continuation style, DESIGN Appendix C.1) as an executable oracle that is
independent of the compiler and of the Lean model.

Program representation
  defs = [(name, params | None, out | None, body)]   (params None = header without IN)
  main = body
  body = [stmt];  stmt = [kind, ..., uid]  (uid appended by `number`)
    ['assign', x, v] ['label', m] ['loop', x, body] ['while', x, body]
    ['goto', m] ['if', x, c, m] ['stop']
  v = ('var',x) | ('num',n) | ('inc',x,c) | ('dec',x,c) | ('call',f,[v])
"""
import random

INT_MAX = 2147483647
VARS = ['x0', 'x1', 'x2', 'a', 'b']


class Gen:
    def __init__(self, rnd, big=False, maxprogs=3, stmts=(2, 7), spell=False, looponly=False):
        self.r = rnd
        self.big = big
        self.maxprogs = maxprogs
        self.stmts_rng = stmts
        self.looponly = looponly
        # size profile: mostly small; sometimes wide (many ports / arguments), deep (nesting 4) or long (bodies of 40-120 statements,
        # so that jump offsets, frame sizes and register numbers leave the single-digit range)
        q = rnd.random()
        self.profile = 'small' if q < 0.85 else rnd.choice(['wide', 'deep', 'long'])
        self.maxdepth = 4 if self.profile == 'deep' else 2
        self.maxparams = 6 if self.profile == 'wide' else 3
        if self.profile == 'long':
            self.stmts_rng = (40, 120)
        # identifier pools: mostly the plain one; sometimes names that differ only in case, or by a prefix / leading zero
        k = rnd.random()
        self.twins = k >= 0.7
        self.vars = VARS if k < 0.7 else rnd.choice([['x0', 'X0', 'a', 'A', 'x1'], ['n', 'N', 'x0', 'i', 'I'],
                                                     ['x', 'x1', 'x10', 'x01', 'xx'], ['a', 'aa', 'A', 'aA', 'x0'],
                                                     # identifiers that merely START like a keyword or like a generated name
                                                     ['Loops', 'loop_i', 'Ends', 'x0', 'Stop1'], ['WhileX', 'Do_', 'If0', 'a', 'Then_1'],
                                                     ['LoopVariable', 'Temporary', 'Variable', 'x0', 'RUNNER'], ['Programs', 'Inx', 'Outer', 'Withal', 'x1'],
                                                     # capitalisations of keywords that are NOT documented spellings: identifiers
                                                     ['dO', 'iF', 'iN', 'aS', 'x0'], ['eND', 'lOOP', 'rUN', 'wITH', 'sTOP'], ['gOTO', 'tHEN', 'oUT', 'pROG', 'whilE']])

    def num(self):
        r = self.r
        if self.big and r.random() < 0.3:
            return r.choice([2147483646, 2147483645, 1073741823, 1073741824, 2147483640])
        return r.randint(0, 4)

    def val(self, progs, depth=0):
        r = self.r
        k = r.random()
        if k < 0.3:
            return ('var', r.choice(self.vars))
        if k < 0.5:
            return ('num', self.num())
        if k < 0.65:
            return ('inc', r.choice(self.vars), self.num() if self.big else r.randint(0, 3))
        if k < 0.8:
            return ('dec', r.choice(self.vars), self.num() if self.big else r.randint(0, 3))
        if progs and depth < self.maxdepth:
            f = r.choice(progs)
            return ('call', f[0], [self.val(progs, depth + 1) for _ in f[1]])
        return ('var', r.choice(self.vars))

    def stmts(self, progs, labels, depth, n):
        out = []
        r = self.r
        for _ in range(n):
            k = r.random()
            if self.looponly:
                # neither WHILE nor GOTO: assignments, (nested) LOOPs that often assign their own bound, rarely STOP
                if k < 0.55 or depth >= 3:
                    out.append(['assign', r.choice(self.vars), self.val(progs)])
                elif k < 0.97:
                    outer = getattr(self, '_outer', [])
                    # a nested LOOP often has the same bound variable as the loop around it
                    v = outer[-1] if outer and r.random() < 0.4 else r.choice(self.vars)
                    self._outer = outer + [v]
                    body = self.stmts(progs, labels, depth + 1, r.randint(1, 3))
                    self._outer = outer
                    if r.random() < 0.5:
                        body.insert(r.randrange(len(body) + 1), ['assign', v, r.choice([('num', 0), ('inc', v, 1), ('inc', v, 2), ('dec', v, 1), ('num', 7)])])
                    out.append(['loop', v, body])
                else:
                    out.append(['stop'])
                continue
            if k < 0.4:
                out.append(['assign', r.choice(self.vars), self.val(progs)])
            elif k < 0.52 and depth < self.maxdepth:
                out.append(['loop', r.choice(self.vars), self.stmts(progs, labels, depth + 1, r.randint(1, 3))])
            elif k < 0.62 and depth < self.maxdepth:
                v = r.choice(self.vars)
                body = self.stmts(progs, labels, depth + 1, r.randint(1, 2)) + [['assign', v, ('dec', v, 1)]]
                out.append(['while', v, body])
            elif k < 0.72:
                l = 'm%d' % len(labels)
                if self.twins and labels and r.random() < 0.5 and labels[-1].swapcase() not in labels:
                    l = labels[-1].swapcase()
                labels.append(l)
                out.append(['label', l])
                # the labelled statement: mostly an assignment, sometimes a jump, a STOP or a loop
                q_ = r.random()
                if q_ < 0.7:
                    out.append(['assign', r.choice(self.vars), self.val(progs)])
                elif q_ < 0.82:
                    out.append(['goto', None])
                elif q_ < 0.9:
                    out.append(['if', r.choice(self.vars), r.randint(0, 3), None])
                elif q_ < 0.94:
                    out.append(['stop'])
                elif depth < self.maxdepth:
                    out.append(['loop', r.choice(self.vars), self.stmts(progs, labels, depth + 1, r.randint(1, 2))])
                else:
                    out.append(['assign', r.choice(self.vars), self.val(progs)])
            elif k < 0.82:
                out.append(['goto', None])
            elif k < 0.94:
                out.append(['if', r.choice(self.vars), r.randint(0, 3), None])
            elif k < 0.96:
                out.append(['stop'])
            else:
                out.append(['assign', r.choice(self.vars), self.val(progs)])
        return out

    def fix(self, ss, labels):
        res = []
        for st in ss:
            if st[0] == 'goto':
                res.append(['goto', self.r.choice(labels)] if labels else ['assign', 'x0', ('num', 1)])
            elif st[0] == 'if':
                res.append(['if', st[1], st[2], self.r.choice(labels)] if labels else ['assign', 'x1', ('num', 2)])
            elif st[0] == 'loop':
                res.append(['loop', st[1], self.fix(st[2], labels)])
            elif st[0] == 'while':
                res.append(['while', st[1], self.fix(st[2], labels)])
            else:
                res.append(st)
        return res

    def body(self, progs, n):
        labels = []
        return self.fix(self.stmts(progs, labels, 0, n), labels)

    def program(self):
        r = self.r
        progs, defs = [], []
        for i in range(r.randint(0, self.maxprogs)):
            name = 'f%d' % i if r.random() < 0.8 or not progs else r.choice(progs)[0]
            if r.random() < 0.12:
                params = None
            else:
                params = r.sample(self.vars + (['p%d' % j for j in range(4)] if self.maxparams > 3 else []), r.randint(1, self.maxparams))
            out = r.choice([None] + self.vars) if params is not None else None
            if params and r.random() < 0.2:
                # tight frame: the body only mentions the ports, so the frame is no larger than the port list
                saved, self.vars = self.vars, list(params)
                if r.random() < 0.7:
                    out = r.choice(params)
                b = self.fix([['assign', r.choice(params), ('var', r.choice(params))] for _ in range(r.randint(1, 2))], [])
                self.vars = saved
            else:
                b = self.body(list(progs), r.randint(1, 5))
            defs.append((name, params, out, b))
            progs = [p for p in progs if p[0] != name] + [(name, params or [])]
        main = self.body(list(progs), r.randint(*self.stmts_rng))
        if self.looponly:
            # bounds that are not zero: every variable starts with a small positive value
            main = [['assign', v, ('num', r.randint(1, 3))] for v in self.vars if r.random() < 0.8] + main
        return number(defs, main)


_uid = [0]


def number(defs, main):
    def conv(ss):
        out = []
        for st in ss:
            st = list(st)
            if st[0] == 'loop':
                st[2] = conv(st[2])
            if st[0] == 'while':
                st[2] = conv(st[2])
            _uid[0] += 1
            st.append(_uid[0])
            out.append(st)
        return out
    return [(n, p, o, conv(b)) for (n, p, o, b) in defs], conv(main)


# ---------------- printing ----------------
SPELL = {
    'PROGRAM': ['PROGRAM', 'Program', 'program', 'PROG', 'Prog', 'prog'], 'IN': ['IN', 'In', 'in'],
    'OUT': ['OUT', 'Out', 'out'], 'DO': ['DO', 'do', 'Do'], 'END': ['END', 'End', 'end'],
    'LOOP': ['LOOP', 'Loop', 'loop'], 'WHILE': ['WHILE', 'While', 'while'], 'GOTO': ['GOTO', 'Goto', 'goto'],
    'IF': ['IF', 'If', 'if'], 'THEN': ['THEN', 'Then', 'then'], 'STOP': ['STOP', 'Stop', 'stop'],
    'RUN': ['RUN', 'Run', 'run'], 'WITH': ['WITH', 'With', 'with']}
KW = set(SPELL)


def pv(v):
    return ' '.join(vt(v))


def vt(v):
    if v[0] == 'var':
        return [v[1]]
    if v[0] == 'num':
        return [str(v[1])]
    if v[0] == 'inc':
        return [v[1], '+', str(v[2])]
    if v[0] == 'dec':
        return [v[1], '-', str(v[2])]
    out = ['RUN', v[1], 'WITH']
    for i, a in enumerate(v[2]):
        if i:
            out.append(',')
        out += vt(a)
    return out + ['END']


def header_toks(n, params, o):
    out = ['PROGRAM', n]
    if params is not None:
        out.append('IN')
        for i, p in enumerate(params):
            if i:
                out.append(',')
            out.append(p)
        if o:
            out += ['OUT', o]
    return out + ['DO']


def st_toks(ss):
    out = []
    first = True
    for st in ss:
        if st[0] == 'label':
            if not first and out and out[-1] != ':':
                out.append(';')
            out += [st[1], ':']
            first = False
            continue
        if not first and out[-1] != ':':
            out.append(';')
        first = False
        if st[0] == 'assign':
            out += [st[1], ':='] + vt(st[2])
        elif st[0] == 'loop':
            out += ['LOOP', st[1], 'DO'] + st_toks(st[2]) + ['END']
        elif st[0] == 'while':
            out += ['WHILE', st[1], '!= 0', 'DO'] + st_toks(st[2]) + ['END']
        elif st[0] == 'goto':
            out += ['GOTO', st[1]]
        elif st[0] == 'if':
            out += ['IF', st[1], '=', str(st[2]), 'THEN', 'GOTO', st[3]]
        elif st[0] == 'stop':
            out += ['STOP']
    return out


def toks(defs, main):
    out = []
    for (n, params, o, b) in defs:
        out += header_toks(n, params, o) + st_toks(b) + ['END']
    return out + st_toks(main)


def respell(ts, rnd):
    return [rnd.choice(SPELL[t]) if t in SPELL else t for t in ts]


def text_of_tokens(ts, rnd, p_nl=0.3):
    return ''.join(t + (('\n' if rnd.random() < p_nl else ' ')) for t in ts)


def canonical(defs, main, rnd=None, alone=0.5, pv=None, loopfmt=None):
    """One statement per line.  Returns (text, L) with L mapping uid -> line, ('end',uid) -> line of
    the loop's END, ('lab',uid) -> line of a label that stands alone, ('pend',i) -> line of the
    END of program i, ('hdr', i) -> header line."""
    lines, L = [], {}
    pv = pv or globals()['pv']

    def ps(ss, ind):
        pend = ''
        stm = [s for s in ss if s[0] != 'label']
        cnt = 0
        for st in ss:
            if st[0] == 'label':
                if rnd is not None and rnd.random() < alone and not pend:
                    L[('lab', st[-1])] = len(lines) + 1
                    lines.append(' ' * ind + st[1] + ':')
                    continue
                pend += st[1] + ': '
                continue
            cnt += 1
            sep = ';' if cnt < len(stm) else ''
            pre = ' ' * ind + pend
            pend = ''
            L[st[-1]] = len(lines) + 1
            if st[0] == 'assign':
                lines.append(pre + '%s := %s' % (st[1], pv(st[2])) + sep)
            elif st[0] == 'loop' and loopfmt is not None and loopfmt(st):
                # the loop is written through a user macro `NAME var { body }` that expands to a LOOP over a temporary
                lines.append(pre + '%s %s {' % (loopfmt(st), st[1]))
                ps(st[2], ind + 2)
                L[('end', st[-1])] = len(lines) + 1
                lines.append(' ' * ind + '}' + sep)
            elif st[0] == 'loop':
                lines.append(pre + 'LOOP %s DO' % st[1])
                ps(st[2], ind + 2)
                L[('end', st[-1])] = len(lines) + 1
                lines.append(' ' * ind + 'END' + sep)
            elif st[0] == 'while':
                lines.append(pre + 'WHILE %s != 0 DO' % st[1])
                ps(st[2], ind + 2)
                L[('end', st[-1])] = len(lines) + 1
                lines.append(' ' * ind + 'END' + sep)
            elif st[0] == 'goto':
                lines.append(pre + 'GOTO %s' % st[1] + sep)
            elif st[0] == 'if':
                lines.append(pre + 'IF %s = %d THEN GOTO %s' % (st[1], st[2], st[3]) + sep)
            elif st[0] == 'stop':
                lines.append(pre + 'STOP' + sep)
        if pend:    # trailing label without statement cannot be printed: generator never does this
            lines.append(' ' * ind + pend)
    for i, (n, params, o, b) in enumerate(defs):
        L[('hdr', i)] = len(lines) + 1
        lines.append(' '.join(header_toks(n, params, o)))
        ps(b, 2)
        L[('pend', i)] = len(lines) + 1
        lines.append('END')
    ps(main, 0)
    return '\n'.join(lines) + '\n', L


def twin_name(existing, fresh, rnd, main='m'):
    """a file name: usually `fresh`; sometimes one that differs from an existing name (or the main file's) only in letter case"""
    if rnd.random() < 0.25:
        pool = [n for n in list(existing) + [main] if n.swapcase() not in existing and n.swapcase() != main and n.swapcase() != n]
        if pool:
            b = rnd.choice(pool)
            return rnd.choice([b.swapcase(), b.capitalize() if b.capitalize() != b and b.capitalize() not in existing else b.swapcase()])
    return fresh


def split_files(ts, rnd, maxsplits=3):
    """spread a token list over included files (any token range may move)"""
    files, cur, fid = {}, list(ts), 0
    for _ in range(rnd.choice([0, 0, 1, 2, maxsplits])):
        if len(cur) < 4:
            break
        a = rnd.randrange(0, len(cur) - 1)
        b = rnd.randrange(a + 1, len(cur) + 1)
        name = twin_name(files, 'f%d' % fid, rnd)
        fid += 1
        files[name] = cur[a:b]
        cur = cur[:a] + ['include "%s"' % name] + cur[b:]
    files['m'] = cur
    return files


MUT_VOCAB = sorted(KW) + [';', ':', ':=', ',', '=', '!= 0', '+', '-', '(', ')', 'x0', 'x1', 'a', 'f0', 'f1', 'm0', 'm1',
                          '0', '3', '2147483646', '2147483647', '99999999999999999999', '*', '<P>', '<ID>', '$0', '#1',
                          'DEFINE', 'AS', 'END DEFINE', 'PRIO', 'include', '"m"', '"zz"']


def mutate(ts, rnd, nedits=None, vocab=None):
    m = list(ts)
    vocab = vocab or MUT_VOCAB
    for _ in range(nedits if nedits is not None else rnd.choice([1, 1, 1, 2, 3, 4])):
        if not m:
            break
        op = rnd.random()
        i = rnd.randrange(len(m))
        if op < 0.3:
            del m[i]
        elif op < 0.6:
            m.insert(i, rnd.choice(vocab))
        elif op < 0.85:
            m[i] = rnd.choice(vocab)
        elif op < 0.95 and i + 1 < len(m):
            m[i], m[i + 1] = m[i + 1], m[i]
        else:
            m = m[:i]
    return m


# ---------------- reference semantics ----------------
class Halt(Exception):
    pass


class Timeout(Exception):
    pass


class Overflow(Exception):
    pass


def find_label(l, ss, K):
    """continuation at the mark `l` (the returned statement list starts AT the mark)"""
    for i, st in enumerate(ss):
        if st[0] == 'label' and st[1] == l:
            return (ss[i:], K)
        if st[0] == 'loop':
            r = find_label(l, st[2], ('Kloop', st, ss[i + 1:], K))
            if r:
                return r
        if st[0] == 'while':
            r = find_label(l, st[2], ('Kwhile', st, ss[i + 1:], K))
            if r:
                return r
    return None


class Machine:
    """Reference interpreter.  acts = live activations [(routine index | 'root', env)];
    trace = [(line, [env copies])] when a line map L is given."""

    def __init__(self, defs, main, budget, L=None, maxtrace=4000):
        self.defs, self.main, self.budget, self.L = defs, main, budget, L
        self.steps = 0
        self.acts = []
        self.trace = []
        self.maxtrace = maxtrace
        self.maxval = 0
        self.maxdepth = 0

    def tick(self):
        self.steps += 1
        if self.steps > self.budget:
            raise Timeout()

    def visit(self, key):
        if self.L is None:
            return
        if key not in self.L:
            return
        self.trace.append((self.L[key], [dict(e) for (_, e) in self.acts]))
        if len(self.trace) > self.maxtrace:
            raise Timeout()

    def chk(self, v):
        if v > self.maxval:
            self.maxval = v
        if v >= INT_MAX:
            raise Overflow()
        return v

    def evalv(self, v, env, upto):
        if v[0] == 'var':
            return env.get(v[1], 0)
        if v[0] == 'num':
            return self.chk(v[1])
        if v[0] == 'inc':
            return self.chk(env.get(v[1], 0) + v[2])
        if v[0] == 'dec':
            return max(env.get(v[1], 0) - v[2], 0)
        args = [self.evalv(a, env, upto) for a in v[2]]
        cand = [i for i in range(upto) if self.defs[i][0] == v[1]]
        di = cand[-1]
        d = self.defs[di]
        nenv = {}
        for p, a in zip(d[1] or [], args):
            nenv[p] = a
        return self.run(d[3], nenv, di, d[2] or 'x0', di)

    def run(self, body, env, upto, out, di):
        ctr = {}
        self.acts.append((di, env))
        self.maxdepth = max(self.maxdepth, len(self.acts))
        ss, K = body, None
        while True:
            self.tick()
            if not ss:
                if K is None:
                    break
                if K[0] == 'Kloop':
                    _, st, rest, K2 = K
                    lid = st[-1]
                    ctr[lid] = max(ctr.get(lid, 0) - 1, 0)
                    if ctr[lid] != 0:
                        ss = st[2]
                    else:
                        self.visit(('end', st[-1]))
                        ss, K = rest, K2
                else:
                    _, st, rest, K2 = K
                    if env.get(st[1], 0) != 0:
                        ss = st[2]
                    else:
                        self.visit(('end', st[-1]))
                        ss, K = rest, K2
                continue
            st, rest = ss[0], ss[1:]
            if st[0] == 'label':
                self.visit(('lab', st[-1]))
                ss = rest
                continue
            self.visit(st[-1])
            if st[0] == 'assign':
                env[st[1]] = self.evalv(st[2], env, upto)
                ss = rest
            elif st[0] == 'loop':
                ctr[st[-1]] = env.get(st[1], 0)
                if ctr[st[-1]] != 0:
                    ss, K = st[2], ('Kloop', st, rest, K)
                else:
                    self.visit(('end', st[-1]))
                    ss = rest
            elif st[0] == 'while':
                if env.get(st[1], 0) != 0:
                    ss, K = st[2], ('Kwhile', st, rest, K)
                else:
                    self.visit(('end', st[-1]))
                    ss = rest
            elif st[0] == 'goto':
                ss, K = find_label(st[1], body, None)
            elif st[0] == 'if':
                if env.get(st[1], 0) == st[2]:
                    ss, K = find_label(st[3], body, None)
                else:
                    ss = rest
            elif st[0] == 'stop':
                raise Halt()
        if di != 'root':
            self.visit(('pend', di))
        self.acts.pop()
        return env.get(out, 0)


def reference(defs, main, budget=200000, L=None):
    """returns (status, machine): status in 'done' | 'timeout' | 'overflow';
    machine.final = list of envs of live activations (bottom to top)"""
    m = Machine(defs, main, budget, L)
    root = {}
    try:
        m.run(main, root, len(defs), 'x0', 'root')
        m.final = [('root', root)]
        return 'done', m
    except Halt:
        m.final = list(m.acts)
        return 'done', m
    except Timeout:
        return 'timeout', m
    except Overflow:
        return 'overflow', m
    except RecursionError:
        return 'timeout', m


def uses_while_or_jump(defs, main):
    def chk(ss):
        for st in ss:
            if st[0] in ('while', 'goto', 'if', 'label'):
                return True
            if st[0] == 'loop' and chk(st[2]):
                return True
        return False
    return chk(main) or any(chk(d[3]) for d in defs)


# ---------------- targeted shapes ----------------
def reentry_program(rnd):
    """a jump from code after a finished LOOP back into that loop's body — from a later loop, after
    calls, after IFs — with one-shot flags set by constant assignments (the +/- sugar would hog
    temporaries for good and hide register-reuse problems): the hidden counter must still be private"""
    k = rnd.randint(1, 3)
    callee = ('p', ['a'], None, [['assign', 'x0', ('inc', 'a', rnd.randint(0, 2))]])
    fillers = [
        [['assign', 'x2', ('call', 'p', [('num', rnd.randint(2, 6))])]],
        [['assign', 'x2', ('call', 'p', [('call', 'p', [('num', rnd.randint(2, 6))])])]],
        [['assign', 'x2', ('num', rnd.randint(3, 7))], ['if', 'x2', 99, 'e']],
        [['assign', 'x2', ('var', 'x1')]],
    ]
    body = [['assign', 'x1', ('num', k)],
            ['loop', 'x1', [['label', 'm0'], ['assign', 'x0', ('inc', 'x0', 1)]]],
            ['if', 'b', 1, 'e'],
            ['assign', 'b', ('num', 1)]]
    for f in rnd.sample(fillers, rnd.randint(0, 2)):
        body += f
    v = rnd.random()
    if v < 0.5:
        # jump from inside a later loop (its counter is live)
        body += [['assign', 'a', ('num', rnd.randint(2, 5))],
                 ['loop', 'a', [['if', 'b', 1, 'm0'], ['assign', 'x2', ('num', 1)]]]]
    elif v < 0.8:
        # jump right after a call whose argument is a constant
        body += [['assign', 'x2', ('call', 'p', [('num', rnd.randint(2, 6))])], ['goto', 'm0']]
    else:
        body += [['assign', 'a', ('num', rnd.randint(2, 5))],
                 ['while', 'a', [['goto', 'm0']]]]
    body += [['label', 'e'], ['assign', 'x2', ('var', 'x2')]]
    return number([callee], body)


def backjump_program(rnd):
    """straight-line code (outside every LOOP / WHILE) that is executed again through a backward GOTO: a variable
    is (re)initialised at its first textual mention, changed, observed, and the block is repeated a fixed number
    of times — in the main script or inside a called program; initialisers: literal 0 / 1, an unmentioned
    variable, a truncated subtraction"""
    L = rnd.randint(2, 4)

    def block(pfx):
        v, s_, i, z = pfx + 'v', pfx + 's', pfx + 'i', pfx + 'z'
        init = rnd.choice([('num', 0), ('num', 0), ('num', 1), ('var', z), ('dec', v, 9), ('num', 0)])
        pre = rnd.choice([[], [['assign', s_, ('num', rnd.randint(0, 2))]], [['assign', i, ('num', 0)]]])
        b = pre + [['label', pfx + 'ltop'],
                   ['assign', v, init],
                   ['assign', v, ('inc', v, rnd.randint(1, 3))]]
        if rnd.random() < 0.5:
            b.append(['assign', v, ('inc', v, rnd.randint(1, 2))])
        b += [['assign', s_, ('inc', s_, 1)] if rnd.random() < 0.3 else ['assign', s_, ('var', v)],
              ['assign', i, ('inc', i, 1)],
              ['if', i, L, pfx + 'lout'],
              ['goto', pfx + 'ltop'],
              ['label', pfx + 'lout'],
              ['assign', pfx + 't', ('var', v)]]
        return b
    defs = []
    main = []
    if rnd.random() < 0.5:
        body = block('q')
        body.append(['assign', 'r', ('var', 'qs')])
        defs.append(('g', ['a'], 'r', body))
        main.append(['assign', 'x1', ('call', 'g', [('num', rnd.randint(0, 3))])])
    main += block('')
    if defs and rnd.random() < 0.5:
        main.append(['assign', 'x2', ('call', 'g', [('var', 'v')])])
    return number(defs, main)


def redef_marks_program(rnd):
    """a program name defined twice, both bodies with labels and jumps of the SAME names, a caller that binds the
    first definition in between; the second body is larger (more registers) than the first"""
    def counting(step, extra, same):
        top, out = ('m0', 'e0') if same else ('m0' if rnd.random() < 0.5 else 'n0', 'e0' if rnd.random() < 0.5 else 'f0')
        b = [['assign', 'x%d' % (5 + j), ('num', j + 1)] for j in range(extra)]
        b += [['label', top], ['if', 'a', 0, out], ['assign', 'a', ('dec', 'a', 1)], ['assign', 'r', ('inc', 'r', step)]]
        if extra:
            b.append(['assign', 'x5', ('inc', 'x5', 1)])
        b += [['goto', top], ['label', out], ['assign', 'r', ('inc', 'r', extra)]]
        return b
    same = rnd.random() < 0.7
    defs = [('f', ['a'], 'r', counting(1, 0, True)),
            ('g', ['a'], 'r', [['assign', 'r', ('call', 'f', [('var', 'a')])]]),
            ('f', ['a'], 'r', counting(2, rnd.randint(1, 3), same))]
    main = [['assign', 'x1', ('call', 'g', [('num', rnd.randint(1, 3))])],
            ['assign', 'x2', ('call', 'f', [('num', rnd.randint(1, 3))])]]
    if rnd.random() < 0.5:
        main = [['label', 'm0'], ['assign', 'x0', ('inc', 'x0', 1)], ['if', 'x0', 2, 'e0'], ['goto', 'm0'], ['label', 'e0']] + main
    return number(defs, main)


def taillabel_program(rnd):
    """a label at the very END of a body whose statement produces little or no code (self-assignment, +0, STOP),
    optionally right behind a STOP / GOTO, with jumps to it from before — in the main script or in a called program"""
    v = rnd.choice(['x0', 'x1', 'a'])
    tail = rnd.choice([['assign', v, ('var', v)], ['assign', v, ('var', v)], ['assign', v, ('inc', v, 0)], ['stop'],
                       ['assign', v, ('num', 1)], ['assign', 'x2', ('var', v)]])
    before = rnd.choice([[['stop']], [['stop']], [['goto', 'fin']], [], [['assign', 'x2', ('num', 7)]]])
    jump = rnd.choice([[['goto', 'fin']], [['if', 'x0', 0, 'fin']], [['if', v, rnd.randint(0, 2), 'fin'], ['assign', v, ('num', 7)]]])
    filler = [['assign', rnd.choice(['x1', 'x2', 'b']), ('num', rnd.randint(0, 5))] for _ in range(rnd.randint(0, 2))]
    body = jump + filler + before + [['label', 'fin'], tail]
    if rnd.random() < 0.4:
        defs = [('t', ['a'], rnd.choice([None, 'a', 'x1']), body)]
        main = [['assign', 'x1', ('call', 't', [('num', rnd.randint(0, 2))])], ['assign', 'b', ('inc', 'x1', 1)]]
        if rnd.random() < 0.5:
            main += [['goto', 'fin'], ['assign', 'b', ('num', 9)], ['stop'], ['label', 'fin'], ['assign', 'b', ('var', 'b')]]
    else:
        defs, main = [], body
    return number(defs, main)


def canonical_multi(defs, main, rnd):
    """one statement per line, program definitions optionally moved to their own included files.
    Returns (files dict name->text, L) with L values (file, line)."""
    files, L = {}, {}
    mainlines = []
    for i, (n, params, o, b) in enumerate(defs):
        text, l1 = canonical([(n, params, o, b)], [], rnd)
        if rnd.random() < 0.6:
            fname = twin_name(files, 'lib%d' % i, rnd)
            # a few blank / comment lines in front move the line numbers around
            pad = rnd.randint(0, 3)
            files[fname] = '// c\n' * pad + text
            for k, v in l1.items():
                key = ('hdr', i) if k == ('hdr', 0) else (('pend', i) if k == ('pend', 0) else k)
                L[key] = (fname, v + pad)
            mainlines.append('include "%s"' % fname)
        elif rnd.random() < 0.4:
            # the definition spans a file boundary: header in the main file, body and END in an included file
            fname = twin_name(files, 'body%d' % i, rnd)
            lines = text.rstrip('\n').split('\n')
            pad = rnd.randint(0, 2)
            files[fname] = '// b\n' * pad + '\n'.join(lines[1:]) + '\n'
            base = len(mainlines)
            mainlines.append(lines[0])
            mainlines.append('include "%s"' % fname)
            for k, v in l1.items():
                if k == ('hdr', 0):
                    L[('hdr', i)] = ('m', base + 1)
                else:
                    L[('pend', i) if k == ('pend', 0) else k] = (fname, v - 1 + pad)
        else:
            base = len(mainlines)
            for ln in text.rstrip('\n').split('\n'):
                mainlines.append(ln)
            for k, v in l1.items():
                key = ('hdr', i) if k == ('hdr', 0) else (('pend', i) if k == ('pend', 0) else k)
                L[key] = ('m', v + base)
    text, l2 = canonical([], main, rnd)
    base = len(mainlines)
    for ln in text.rstrip('\n').split('\n'):
        mainlines.append(ln)
    for k, v in l2.items():
        L[k] = ('m', v + base)
    files['m'] = '\n'.join(mainlines) + '\n'
    return files, L


def header_after_include(defs, main, rnd, p_nl=0.06):
    """every program's closing END comes from an included file, and the next header (or the main
    statements) continues the same line: a line is left for another file and re-entered"""
    files = {}
    ts = []
    for i, (n, params, o, b) in enumerate(defs):
        ts += header_toks(n, params, o) + st_toks(b)
        files['e%d' % i] = rnd.choice(['END', 'END\n', '\nEND', '// x\nEND'])
        ts.append('include "e%d"' % i)
    ts += st_toks(main)
    files['m'] = text_of_tokens(ts, rnd, p_nl)
    return files
