"""Independent strict LL(1) recogniser for the documented grammar (no error recovery) plus the
static rules (earlier complete definition with matching arity, jump targets in the same body,
literals below 2^31-1); sugar `id (+|-) int` in value position.  Oracle of C04."""
INT_MAX = 2147483647
KW = {'PROGRAM', 'IN', 'OUT', 'DO', 'END', 'LOOP', 'WHILE', 'GOTO', 'IF', 'THEN', 'STOP', 'RUN', 'WITH'}
VOCAB = sorted(KW) + [';', ':', ':=', ',', '=', '!= 0', '+', '-', '(', 'x0', 'x1', 'a', 'f0', 'f1', 'm0', 'm1', '0', '3',
                      '2147483646', '2147483647', '99999999999999999999']


def kind(t):
    if t in KW:
        return t
    if t in (';', ':', ':=', ',', '=', '!= 0'):
        return t
    if t.isdigit():
        return 'int'
    if t[0].isalpha() or t[0] == '_':
        return 'id'
    return 'nv'


class Rej(Exception):
    pass


class P:
    def __init__(s, ts):
        s.ts = ts + ['$']
        s.i = 0
        s.progs = {}
        s.static = []
        s.dup = False

    def la(s):
        t = s.ts[s.i]
        return '$' if (t == '$' and s.i == len(s.ts) - 1) else kind(t)

    def eat(s, k):
        if s.la() != k:
            raise Rej('expected %s got %s at %d' % (k, s.la(), s.i))
        t = s.ts[s.i]
        s.i += 1
        return t

    def S(s):
        while s.la() == 'PROGRAM':
            s.eat('PROGRAM')
            name = s.eat('id')
            params = []
            if s.la() == 'IN':
                s.eat('IN')
                params.append(s.eat('id'))
                while s.la() == ',':
                    s.eat(',')
                    params.append(s.eat('id'))
                if s.la() == 'OUT':
                    s.eat('OUT')
                    s.eat('id')
            s.eat('DO')
            ctx = {'labels': [], 'gotos': []}
            s.Pp(ctx)
            s.eat('END')
            s.check(ctx)
            if len(set(params)) != len(params):
                s.dup = True
            s.progs[name] = len(params)
        ctx = {'labels': [], 'gotos': []}
        s.Pp(ctx)
        s.check(ctx)
        if s.la() != '$':
            raise Rej('trailing')

    def check(s, ctx):
        if len(set(ctx['labels'])) != len(ctx['labels']):
            s.dup = True
        for g in ctx['gotos']:
            if g not in ctx['labels']:
                s.static.append('mark ' + g)

    def Pp(s, ctx):
        while True:
            k = s.la()
            if k == 'id':
                name = s.eat('id')
                if s.la() == ':=':
                    s.eat(':=')
                    s.V()
                elif s.la() == ':':
                    s.eat(':')
                    ctx['labels'].append(name)
                    s.Pp(ctx)
                    return
                else:
                    raise Rej('assign or label')
            elif k == 'LOOP':
                s.eat('LOOP'); s.eat('id'); s.eat('DO'); s.Pp(ctx); s.eat('END')
            elif k == 'WHILE':
                s.eat('WHILE'); s.eat('id'); s.eat('!= 0'); s.eat('DO'); s.Pp(ctx); s.eat('END')
            elif k == 'GOTO':
                s.eat('GOTO'); ctx['gotos'].append(s.eat('id'))
            elif k == 'IF':
                s.eat('IF'); s.eat('id'); s.eat('='); s.lit(s.eat('int')); s.eat('THEN'); s.eat('GOTO'); ctx['gotos'].append(s.eat('id'))
            elif k == 'STOP':
                s.eat('STOP')
            else:
                raise Rej('statement expected got ' + k)
            if s.la() == ';':
                s.eat(';')
                continue
            return

    def lit(s, t):
        if int(t) >= INT_MAX:
            s.static.append('range ' + t)

    def V(s):
        k = s.la()
        if k == 'id':
            s.eat('id')
            if s.la() == 'nv' and s.ts[s.i] in '+-' and s.i + 1 < len(s.ts) - 1 and kind(s.ts[s.i + 1]) == 'int':
                s.eat('nv')
                s.lit(s.eat('int'))
        elif k == 'int':
            s.lit(s.eat('int'))
        elif k == 'RUN':
            s.eat('RUN')
            f = s.eat('id')
            s.eat('WITH')
            n = 0
            if s.la() in ('id', 'int', 'RUN'):
                s.V()
                n = 1
                while s.la() == ',':
                    s.eat(',')
                    s.V()
                    n += 1
            s.eat('END')
            if f not in s.progs:
                s.static.append('unknown ' + f)
            elif s.progs[f] != n:
                s.static.append('arity ' + f)
        else:
            raise Rej('value')


def verdict(ts):
    p = P(list(ts))
    try:
        p.S()
    except Rej as e:
        return 'REJ', str(e), p
    except IndexError:
        return 'REJ', 'eof', p
    if p.static:
        return 'REJ', 'static ' + p.static[0], p
    return 'ACC', '', p
