"""Independent oracles for the macro properties (C09, C12) and the parser generator (C13):
  * brute-force CFG matcher over the detector grammar (CYK-style counting, no LR),
  * one rewriting step by the specification: highest priority, leftmost, longest,
  * an independent canonical LR(1) construction for `L(MACRO)·Σ*` counting only clashes between
    different actions,
  * CYK tree counting for arbitrary small grammars.
The detector grammar is re-read from macro.cpp by the translator (lean/Theo/Generated/DetectorGrammar.lean)."""
import os, re

HERE = os.path.dirname(os.path.abspath(__file__))
GEN = os.path.join(HERE, '..', 'lean', 'Theo', 'Generated')


def load_detector_grammar():
    txt = open(os.path.join(GEN, 'DetectorGrammar.lean')).read()
    rules = []
    body = txt[txt.index('def rules'):txt.index('def slotNT')]
    for m in re.finditer(r'\((\d+), \[(.*?)\]\)(?:,|\])\n', body):
        syms = []
        for sm in re.finditer(r'\((true|false), (\d+)\)', m.group(2)):
            syms.append(('t', int(sm.group(2)), None) if sm.group(1) == 'true' else ('n', int(sm.group(2))))
        rules.append((int(m.group(1)), syms))
    slot = dict((int(a), int(b)) for a, b in re.findall(r'\((\d+), (\d+)\)', txt[txt.index('def slotNT'):txt.index('def textKinds')]))
    textk = [int(x) for x in re.findall(r'\d+', txt[txt.index('def textKinds'):txt.index('def slotKinds')].split(':=')[1])]
    numnt = int(re.search(r'def numNT : Nat := (\d+)', txt).group(1))
    macront = int(re.search(r'def macroNT : Nat := (\d+)', txt).group(1))
    return rules, slot, textk, numnt, macront


def rule_of(pattern, slot, textk):
    """pattern: list of (kind, text)"""
    out = []
    for (k, t) in pattern:
        if k in slot:
            out.append(('n', slot[k]))
        elif k in textk:
            out.append(('t', k, t))
        else:
            out.append(('t', k, None))
    return out


def counts(rules, NN, w):
    """C[X][i][j] = number (capped at 2) of derivations of w[i:j] from X; w: list of (kind, text)"""
    n = len(w)
    C = [[[0] * (n + 1) for _ in range(n + 1)] for _ in range(NN)]

    def tm(s, x):
        return s[1] == x[0] and (s[2] is None or s[2] == x[1])

    def ways(alpha, i, j):
        if not alpha:
            return 1 if i == j else 0
        s = alpha[0]
        tot = 0
        for k in range(i, j + 1):
            if s[0] == 't':
                a = 1 if (k == i + 1 and tm(s, w[i])) else 0
            else:
                a = C[s[1]][i][k]
            if a:
                tot = min(2, tot + a * ways(alpha[1:], k, j))
        return tot
    ch = True
    while ch:
        ch = False
        for ln in range(0, n + 1):
            for i in range(n + 1 - ln):
                j = i + ln
                for X in range(NN):
                    t = 0
                    for (l, a) in rules:
                        if l == X:
                            t = min(2, t + ways(a, i, j))
                    if t > C[X][i][j]:
                        C[X][i][j] = t
                        ch = True
    return C


def split_macro(C, alpha, w, i, j):
    if not alpha:
        return [] if i == j else None
    s = alpha[0]
    for k in range(i, j + 1):
        ok = (k == i + 1 and s[1] == w[i][0] and (s[2] is None or s[2] == w[i][1])) if s[0] == 't' else C[s[1]][i][k]
        if ok:
            r = split_macro(C, alpha[1:], w, k, j)
            if r is not None:
                return [(i, k)] + r
    return None


def candidates(stream, macros, usable):
    """all (priority, start, length, macro index) with stream[start:start+length] derived from the pattern.
    stream: list of (kind, text) incl. the final EOF; macros: list of (prio, pattern[(kind,text)])"""
    BASE, SLOT, TEXTK, NN, MNT = load_detector_grammar()
    out = []
    for mi in usable:
        pr, pat = macros[mi][0], macros[mi][1]
        rules = BASE + [(MNT, rule_of(pat, SLOT, TEXTK))]
        C = counts(rules, NN, stream)
        n = len(stream)
        for i in range(n):
            for j in range(i, n + 1):
                if C[MNT][i][j]:
                    out.append((pr, i, j - i, mi, C[MNT][i][j]))
    return out


def spec_step(stream, macros, usable):
    """the step the specification demands: (macro index, start, length, slot ranges) or None"""
    BASE, SLOT, TEXTK, NN, MNT = load_detector_grammar()
    best = None
    for mi in usable:
        pr, pat = macros[mi][0], macros[mi][1]
        rules = BASE + [(MNT, rule_of(pat, SLOT, TEXTK))]
        C = counts(rules, NN, stream)
        n = len(stream)
        for i in range(n):
            lens = [j - i for j in range(i, n + 1) if C[MNT][i][j]]
            if lens:
                for ln in lens:
                    key = (pr, -i, ln)
                    if best is None or key > best[0]:
                        best = (key, mi, i, ln, C)
                break
    if best is None:
        return None
    key, mi, i, ln, C = best
    pat = macros[mi][1]
    sp = split_macro(C, rule_of(pat, SLOT, TEXTK), stream, i, i + ln)
    slots = [sp[k] for k, (kk, _) in enumerate(pat) if kk in SLOT]
    return mi, i, ln, slots


# ---------------- independent canonical LR(1) for prefix detection ----------------
def lr1_conflicts(pattern_rule):
    """number of (state, terminal) cells with two different actions, for L(MACRO)·Σ*"""
    BASE, SLOT, TEXTK, NN, MNT = load_detector_grammar()
    rules = [(l, [(s[0], s[1]) for s in a]) for (l, a) in BASE] + [(MNT, [(s[0], s[1]) for s in pattern_rule]), (NN, [('n', MNT)])]
    NT = NN + 1
    first = [set() for _ in range(NT)]
    nullable = [False] * NT
    ch = True
    while ch:
        ch = False
        for (l, a) in rules:
            allnull = True
            for s in a:
                if s[0] == 't':
                    if s[1] not in first[l]:
                        first[l].add(s[1])
                        ch = True
                    allnull = False
                    break
                new = first[s[1]] - first[l]
                if new:
                    first[l] |= new
                    ch = True
                if not nullable[s[1]]:
                    allnull = False
                    break
            if allnull and not nullable[l]:
                nullable[l] = True
                ch = True

    def first_seq(seq, la):
        out = set()
        for s in seq:
            if s[0] == 't':
                out.add(s[1])
                return out
            out |= first[s[1]]
            if not nullable[s[1]]:
                return out
        out.add(la)
        return out

    def closure(items):
        items = set(items)
        work = list(items)
        while work:
            (r, d, la) = work.pop()
            l, a = rules[r]
            if d < len(a) and a[d][0] == 'n':
                for la2 in first_seq(a[d + 1:], la):
                    for ri, (l2, a2) in enumerate(rules):
                        if l2 == a[d][1]:
                            it = (ri, 0, la2)
                            if it not in items:
                                items.add(it)
                                work.append(it)
        return frozenset(items)
    start = closure([(len(rules) - 1, 0, '$')])
    states = [start]
    idx = {start: 0}
    trans = {}
    i = 0
    while i < len(states):
        st = states[i]
        syms = {}
        for (r, d, la) in st:
            a = rules[r][1]
            if d < len(a):
                syms.setdefault(a[d], []).append((r, d + 1, la))
        for sy, its in syms.items():
            t = closure(its)
            if t not in idx:
                idx[t] = len(states)
                states.append(t)
            trans[(i, sy)] = idx[t]
        i += 1
    terms = sorted({s[1] for (_, a) in rules for s in a if s[0] == 't'} | {0})
    maxt = max(terms)
    conflicts = 0
    for i, st in enumerate(states):
        for t in range(0, maxt + 1):
            acts = set()
            if (i, ('t', t)) in trans:
                acts.add(('shift',))
            for (r, d, la) in st:
                if d == len(rules[r][1]) and (la == t or la == '$'):
                    acts.add(('reduce', r))
            if len(acts) > 1:
                conflicts += 1
    return conflicts, len(states)


# ---------------- CYK for arbitrary grammars (C13) ----------------
def g_counts(rules, N, w):
    n = len(w)
    C = [[[0] * (n + 1) for _ in range(n + 1)] for _ in range(N)]

    def ways(alpha, i, j):
        if not alpha:
            return 1 if i == j else 0
        s = alpha[0]
        tot = 0
        for k in range(i, j + 1):
            if s[0] == 't':
                a = 1 if (k == i + 1 and w[i] == s[1]) else 0
            else:
                a = C[s[1]][i][k]
            if a:
                tot = min(2, tot + a * ways(alpha[1:], k, j))
        return tot
    changed = True
    while changed:
        changed = False
        for i in range(n + 1):
            for j in range(i, n + 1):
                for X in range(N):
                    t = 0
                    for (l, a) in rules:
                        if l == X:
                            t = min(2, t + ways(a, i, j))
                    if t > C[X][i][j]:
                        C[X][i][j] = t
                        changed = True
    return C


def g_tree(rules, C, w, X, i, j):
    """the (first) derivation tree in the harness's value syntax: (k_child_child…) with children last-first"""
    for k, (l, a) in enumerate(rules):
        if l != X:
            continue
        r = g_treeseq(rules, C, w, a, i, j)
        if r is not None:
            return '(' + str(k) + ''.join('_' + c for c in reversed(r)) + ')'
    return None


def g_treeseq(rules, C, w, alpha, i, j):
    if not alpha:
        return [] if i == j else None
    s = alpha[0]
    for k in range(i, j + 1):
        if s[0] == 't':
            if k == i + 1 and w[i] == s[1]:
                r = g_treeseq(rules, C, w, alpha[1:], k, j)
                if r is not None:
                    return ['t%d' % s[1]] + r
        elif C[s[1]][i][k]:
            r = g_treeseq(rules, C, w, alpha[1:], k, j)
            if r is not None:
                return [g_tree(rules, C, w, s[1], i, k)] + r
    return None


def g_first(rules, N):
    F = [set() for _ in range(N)]
    ch = True
    while ch:
        ch = False
        for (l, a) in rules:
            add = set()
            alle = True
            for s in a:
                if s[0] == 't':
                    add.add('t%d' % s[1])
                    alle = False
                    break
                add |= {x for x in F[s[1]] if x != 'e'}
                if 'e' not in F[s[1]]:
                    alle = False
                    break
            if alle:
                add.add('e')
            if not add <= F[l]:
                F[l] |= add
                ch = True
    return F
