#!/usr/bin/env python3
"""Apply a seeded change to /repo, run the given checks (default: all), undo the change.
usage: tools/seedrun.py <patch.diff> [ids...]      prints one line per check: id, exit code, VIOLATION / ok"""
import subprocess, sys, os, json, time
HERE = os.path.dirname(os.path.dirname(os.path.abspath(__file__)))
patch = os.path.abspath(sys.argv[1])
ids = sys.argv[2:] or ['C%02d' % i for i in range(1, 21)]
r = subprocess.run(['git', '-C', '/repo', 'status', '--porcelain', '--untracked-files=no'], capture_output=True, text=True)
if r.stdout.strip():
    sys.exit('/repo has local modifications: ' + r.stdout)
r = subprocess.run(['git', '-C', '/repo', 'apply', patch], capture_output=True, text=True)
if r.returncode != 0:
    sys.exit('patch does not apply: ' + r.stderr)
res = {}
try:
    for pid in ids:
        t = time.time()
        p = subprocess.run([os.path.join(HERE, 'check.py'), pid, '--tier', 'quick'], cwd=HERE, capture_output=True, text=True,
                           env=dict(os.environ, VERIF_SEED=os.environ.get('VERIF_SEED', '1')))
        lines = [l for l in p.stdout.splitlines() if l.startswith('VIOLATION')]
        detail = [l.strip() for l in p.stderr.splitlines() if l.startswith('  ')][:2]
        res[pid] = (p.returncode, lines[0] if lines else 'ok', detail)
        print('%s rc=%d %s  (%.0fs)  %s' % (pid, p.returncode, lines[0] if lines else 'ok', time.time() - t, ' | '.join(detail)[:300]), flush=True)
finally:
    subprocess.run(['git', '-C', '/repo', 'checkout', '--', '.'])
    # the translator's output depends on /repo: regenerate for the clean tree
    subprocess.run([sys.executable, os.path.join(HERE, 'translator', 'translate.py')])
