#!/bin/bash
# usage: tools/confirm_seed.sh <worktree> <seed id>
# confirms in the scratch worktree: tests pass with the change, demo fails with it, demo passes without it;
# then stores patch/demo/notes under /verif/seeded/<id>/
WT=$1; ID=$2
cd $WT || exit 2
git diff -- Compiler VM > /tmp/confirm_$ID.diff
[ -s /tmp/confirm_$ID.diff ] || git apply demo/patch.diff
git diff -- Compiler VM > /tmp/confirm_$ID.diff
echo "== patch: $(wc -l < /tmp/confirm_$ID.diff) lines; files: $(git diff --name-only -- Compiler VM | tr '\n' ' ')"
cmake -G Ninja -S $WT -B $WT/_build >/dev/null 2>&1 && cmake --build $WT/_build 2>&1 | tail -1 && ctest --test-dir $WT/_build -j8 2>&1 | grep -E "tests passed|tests failed"
git status --short | grep -v demo | head -5
( sh demo/build.sh >/dev/null 2>&1 || bash demo/build.sh >/dev/null 2>&1 ); ./demo/demo >/tmp/confirm_$ID.with 2>&1; echo "demo WITH change: exit $?"
git checkout -- Compiler VM   # (not git stash: the stash is shared by all worktrees of a repository)
( sh demo/build.sh >/dev/null 2>&1 || bash demo/build.sh >/dev/null 2>&1 ); ./demo/demo >/tmp/confirm_$ID.without 2>&1; echo "demo WITHOUT change: exit $?"
git apply /tmp/confirm_$ID.diff
rm -rf $WT/_build $WT/demo/demo
mkdir -p /verif/seeded/$ID
cp /tmp/confirm_$ID.diff /verif/seeded/$ID/patch.diff
cp demo/demo.cpp demo/build.sh demo/NOTES.md /verif/seeded/$ID/ 2>/dev/null
tail -3 /tmp/confirm_$ID.with
