#!/bin/bash
# regression over the whole seed corpus: every seeded change must be detected by the check of its property
# usage: tools/seedall.sh [out file]   (sequential: each run applies the change to /repo and undoes it)
OUT=${1:-/verif/.cache/seedall.log}
: > $OUT
cd /verif
for d in seeded/S-C*; do
  id=$(basename $d); prop=$(echo $id | cut -d- -f2)
  r=$(python3 tools/seedrun.py $d/patch.diff $prop 2>&1 | tail -1 | cut -c1-220)
  echo "$id $r" >> $OUT
done
echo "== harmless" >> $OUT
for f in harmless/H-*.diff; do
  for p in C01 C02 C03 C04 C05 C06 C07 C08 C09 C10 C11 C12 C13 C14 C15 C16 C17 C18 C19 C20; do
    r=$(python3 tools/seedrun.py $f $p 2>&1 | tail -1 | cut -c1-160)
    echo "$(basename $f) $r" >> $OUT
  done
done
echo DONE >> $OUT
