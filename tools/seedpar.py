#!/usr/bin/env python3
"""Parallel regression over the seed corpus WITHOUT touching /repo: every worker gets its own scratch git worktree
of /repo and its own scratch copy of /verif (own lean/ build, cache, replays), applies one seeded change at a time to
its worktree and runs the check of the seed's property with THEO_REPO pointing at the worktree.
usage: tools/seedpar.py [--seed N] [--workers K] [--only S-C01-1,S-C02-3,...] [--out file]
Scratch directories live under /tmp/seedpar_* and are removed at the end."""
import argparse, os, shutil, subprocess, sys, threading, queue, time, glob

VERIF = os.path.dirname(os.path.dirname(os.path.abspath(__file__)))
ap = argparse.ArgumentParser()
ap.add_argument('--seed', default='1')
ap.add_argument('--workers', type=int, default=5)
ap.add_argument('--only', default='')
ap.add_argument('--out', default=os.path.join(VERIF, '.cache', 'seedpar.log'))
ap.add_argument('--harmless', action='store_true')
ap.add_argument('--tag', default='a')
a = ap.parse_args()

jobs = queue.Queue()
if a.harmless:
    for f in sorted(glob.glob(os.path.join(VERIF, 'harmless', 'H-*.diff'))):
        if a.only and os.path.basename(f)[:-5] not in a.only.split(','):
            continue
        for i in range(1, 21):
            jobs.put((os.path.basename(f), f, 'C%02d' % i))
else:
    ids = sorted(os.listdir(os.path.join(VERIF, 'seeded')))
    if a.only:
        ids = [x for x in ids if x in a.only.split(',')]
    for sid in ids:
        jobs.put((sid, os.path.join(VERIF, 'seeded', sid, 'patch.diff'), sid.split('-')[1]))
lock = threading.Lock()
open(a.out, 'w').close()


def worker(k):
    wt = '/tmp/seedpar_%s_wt%d' % (a.tag, k)
    vc = '/tmp/seedpar_%s_v%d' % (a.tag, k)
    subprocess.run(['git', '-C', '/repo', 'worktree', 'remove', '--force', wt], capture_output=True)
    shutil.rmtree(vc, ignore_errors=True)
    subprocess.run(['git', '-C', '/repo', 'worktree', 'add', '--detach', wt, 'HEAD'], capture_output=True)
    subprocess.run(['cp', '-r', VERIF, vc])
    shutil.rmtree(os.path.join(vc, 'replays'), ignore_errors=True)
    env = dict(os.environ, THEO_REPO=wt, VERIF_SEED=a.seed)
    while True:
        try:
            sid, patch, prop = jobs.get_nowait()
        except queue.Empty:
            break
        t = time.time()
        r = subprocess.run(['git', '-C', wt, 'apply', patch], capture_output=True, text=True)
        if r.returncode != 0:
            line = 'PATCH-FAILED ' + r.stderr.strip()[:100]
        else:
            r = subprocess.run([sys.executable, os.path.join(vc, 'check.py'), prop], capture_output=True, text=True, env=env)
            out = [l for l in (r.stdout + r.stderr).splitlines() if l.strip() and not l.startswith('KNOWN-FINDING')]
            vio = [l for l in out if l.startswith('VIOLATION')]
            line = 'rc=%d %s %s' % (r.returncode, (vio[0].replace(vc, '') if vio else 'ok'), (out[-1][:120] if out else ''))
        subprocess.run(['git', '-C', wt, 'checkout', '--', '.'])
        with lock:
            with open(a.out, 'a') as f:
                f.write('%s %s %s (%ds)\n' % (sid, prop, line, time.time() - t))
    subprocess.run(['git', '-C', '/repo', 'worktree', 'remove', '--force', wt], capture_output=True)
    shutil.rmtree(vc, ignore_errors=True)


ths = [threading.Thread(target=worker, args=(k,)) for k in range(a.workers)]
for t in ths:
    t.start()
for t in ths:
    t.join()
subprocess.run(['git', '-C', '/repo', 'worktree', 'prune'])
with open(a.out, 'a') as f:
    f.write('DONE\n')
