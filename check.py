#!/usr/bin/env python3
"""Orchestrator: ./check.py <property id> [--tier quick|thorough] [--replay path]
Exit 0 = the property held on everything explored; exit 1 + VIOLATION line otherwise."""
import argparse, os, sys
sys.path.insert(0, os.path.dirname(os.path.abspath(__file__)))
sys.setrecursionlimit(20000)
from checks import common


def main():
    ap = argparse.ArgumentParser()
    ap.add_argument('pid')
    ap.add_argument('--tier', default=os.environ.get('VERIF_TIER', 'quick'))
    ap.add_argument('--replay')
    a = ap.parse_args()
    seed = int(os.environ.get('VERIF_SEED', '1'))
    ctx = common.Ctx(a.pid, a.tier if a.tier in ('quick', 'thorough') else 'quick', seed)
    ctx.replay = a.replay
    from checks import registry
    fn = registry.CHECKS.get(a.pid)
    if fn is None:
        print('unknown property', a.pid)
        return 2
    return fn(ctx)


if __name__ == '__main__':
    sys.exit(main())
