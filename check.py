#!/usr/bin/env python3
"""Orchestrator: ./check.py <property id> [--tier quick|thorough] [--replay path]
Exit 0 = the property held on everything explored; exit 1 + VIOLATION line otherwise."""
import argparse, os, sys
sys.path.insert(0, os.path.dirname(os.path.abspath(__file__)))
sys.setrecursionlimit(20000)
from checks import common


def main():
    ap = argparse.ArgumentParser()
    ap.add_argument('pid')
    ap.add_argument('--tier', default=os.environ.get('VERIF_TIER', 'quick'))
    ap.add_argument('--replay')
    a = ap.parse_args()
    seed = int(os.environ.get('VERIF_SEED', '1'))
    ctx = common.Ctx(a.pid, a.tier if a.tier in ('quick', 'thorough') else 'quick', seed)
    ctx.replay = a.replay
    from checks import registry
    fn = registry.CHECKS.get(a.pid)
    if fn is None:
        print('unknown property', a.pid)
        return 2
    try:
        return fn(ctx)
    except Exception:
        # the machinery itself could not process what the implementation (or the model) returned: on the unchanged tree
        # this never happens (every check runs clean there); after a change of the code it means an output the oracles
        # were not written for.  Report it in the protocol instead of dying with a traceback: whatever violations were
        # already found are reported by finish(); otherwise the property is no longer shown to hold.
        import traceback
        tb = traceback.format_exc()
        ctx.stage_broken('the check could not process the responses of the implementation / model (internal error of the oracle code)', tb[-1500:], None)
        try:
            return common.finish(ctx)
        except Exception:
            import json
            path = os.path.join(common.VERIF, 'replays', '%s-%d-unproved.json' % (a.pid, seed))
            os.makedirs(os.path.dirname(path), exist_ok=True)
            with open(path, 'w') as f:
                json.dump({'property': a.pid, 'seed': seed, 'no_longer_checks': [{'what': 'internal error of the check', 'detail': tb[-3000:]}]}, f, indent=1)
            print('VIOLATION property=%s replay=%s no-failing-input-found' % (a.pid, path))
            return 1


if __name__ == '__main__':
    sys.exit(main())
